#!/bin/bash
# tools/run_mutant.sh <mutant dir> <Cxx> [tier]   -> runs ./check Cxx against a scratch worktree with the patch applied
d=$(readlink -f "$1"); pid=$2; tier=${3:-quick}; id=$(basename "$d"); wt=/tmp/runmut_${id}_$pid
git -C /repo worktree remove --force $wt >/dev/null 2>&1
git -C /repo worktree add -q --detach $wt HEAD || exit 2
trap "git -C /repo worktree remove --force $wt >/dev/null 2>&1" EXIT
git -C $wt apply "$d/patch.diff" || { echo "patch does not apply"; exit 2; }
cd "$(dirname "$0")/.."
VERIF_REPO=$wt ./check $pid --tier $tier > /tmp/runmut_${id}_$pid.log 2>&1; rc=$?
echo "MUTANT $id vs $pid ($tier): exit $rc"; grep -E "^VIOLATION|^KNOWN|seed=" /tmp/runmut_${id}_$pid.log | head -5
