#!/usr/bin/env python3
"""tools/import_mutant.py <dir> [detected_by text]  — copy a CONFIRMED mutant into seeded/<id>/ and record what was run"""
import json, os, shutil, sys
src = sys.argv[1].rstrip("/")
mid = os.path.basename(src)
dst = os.path.join(os.path.dirname(os.path.dirname(os.path.abspath(__file__))), "seeded", mid)
os.makedirs(dst, exist_ok=True)
for f in ("patch.diff", "demo.py", "demo.sh"):
    if os.path.exists(os.path.join(src, f)):
        shutil.copy(os.path.join(src, f), dst)
meta = {}
mp = os.path.join(src, "meta.json")
if os.path.exists(mp):
    try:
        meta = json.load(open(mp))
    except Exception:
        meta = {"raw": open(mp).read()}
old = {}
if os.path.exists(os.path.join(dst, "meta.json")):
    try:
        old = json.load(open(os.path.join(dst, "meta.json")))
    except Exception:
        pass
meta.setdefault("id", mid)
meta["origin"] = "written by a fresh sub-agent given only the property text and a scratch worktree"
meta["confirmed_by_lead"] = ("tools/confirm_mutant.sh: patch applies to /repo HEAD, 1714 baseline tests pass with it, "
                             "demo exits 0 on the clean tree and non-zero with the patch")
det = old.get("detected_by", [])
if len(sys.argv) > 2:
    det = [x for x in det if x.split(":")[0] != sys.argv[2].split(":")[0]] + [sys.argv[2]]
meta["detected_by"] = det
json.dump(meta, open(os.path.join(dst, "meta.json"), "w"), indent=1)
print("imported", mid, det)
