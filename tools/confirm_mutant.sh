#!/bin/bash
# tools/confirm_mutant.sh <dir with patch.diff and demo.py|demo.sh>  -> confirms:
#   patch applies to /repo HEAD, baseline unit tests still pass with it, demo fails with it and passes without it.
# Works in a scratch worktree under /tmp, removed afterwards. Prints CONFIRMED or the reason it is not.
d=$(readlink -f "$1"); id=$(basename "$d"); wt=/tmp/confirm_$id
git -C /repo worktree remove --force $wt >/dev/null 2>&1
git -C /repo worktree add -q --detach $wt HEAD || exit 2
trap "git -C /repo worktree remove --force $wt >/dev/null 2>&1" EXIT
rundemo() { if [ -f "$d/demo.py" ]; then (cd $wt && PYTHONPATH=$wt timeout 600 /venv/bin/python "$d/demo.py" >/tmp/confirm_$id.out 2>&1); else (cd $wt && PYTHONPATH=$wt timeout 600 bash "$d/demo.sh" >/tmp/confirm_$id.out 2>&1); fi; }
rundemo; clean_rc=$?
if [ $clean_rc -ne 0 ]; then echo "NOT-CONFIRMED $id: demo fails on the clean tree (rc=$clean_rc)"; tail -5 /tmp/confirm_$id.out; exit 1; fi
git -C $wt apply "$d/patch.diff" || { echo "NOT-CONFIRMED $id: patch does not apply"; exit 1; }
rundemo; mut_rc=$?
if [ $mut_rc -eq 0 ]; then echo "NOT-CONFIRMED $id: demo passes with the patch"; exit 1; fi
res=$(cd $wt && /venv/bin/python -m pytest -q -p no:cacheprovider --timeout=900 -x unit_tests 2>&1 | tail -1)
case "$res" in *"1714 passed"*) ;; *) echo "NOT-CONFIRMED $id: baseline tests: $res"; exit 1;; esac
echo "CONFIRMED $id: demo rc clean=0 mutant=$mut_rc; baseline: $res"
