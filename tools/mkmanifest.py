#!/venv/bin/python
"""Regenerate MANIFEST.json from the MANIFEST dict of every harness/props/cXX.py that exists.
Properties without a module (or with CLAIMED = False) go to not_applicable with their reason."""
import importlib
import json
import os
import sys

HERE = os.path.dirname(os.path.dirname(os.path.abspath(__file__)))
sys.path.insert(0, HERE)

def ready_set():
    """properties whose check has been reviewed and committed by the lead (tools/ready.txt)"""
    p = os.path.join(HERE, "tools", "ready.txt")
    if not os.path.exists(p):
        return set()
    return set(x.strip() for x in open(p).read().split() if x.strip())


NOT_BUILT = "check not built yet in this round (planned in DESIGN.md section 5); not claimed until it exists"

ENGINES = [
    {"name": "lean-proofs", "path": "lean/", "kind_free_text":
     "Lean 4 models (lean/TlsModel), helper lemmas (lean/TlsProofs), property theorems (lean/Props), line-protocol drivers (lean/Drv)"},
    {"name": "translators", "path": "translate/", "kind_free_text":
     "Python translators regenerating lean/TlsModel/Gen/*.lean from /repo on every run"},
    {"name": "correspondence", "path": "harness/", "kind_free_text":
     "Python harness: runs model driver and implementation on the same inputs, direct property oracles, failing-input search, evidence/replay"},
]


def main():
    checks = []
    na = []
    served = []
    for i in range(1, 21):
        pid = "C%02d" % i
        path = os.path.join(HERE, "harness", "props", pid.lower() + ".py")
        mod = None
        if os.path.exists(path) and pid in ready_set():
            mod = importlib.import_module("harness.props." + pid.lower())
        m = getattr(mod, "MANIFEST", None) if mod else None
        if not m or not m.get("claimed", True):
            na.append({"property_id": pid, "reason": (m or {}).get("reason", NOT_BUILT)})
            continue
        served.append(pid)
        checks.append({
            "property_id": pid,
            "quick_cmd": "./check %s --tier quick" % pid,
            "thorough_cmd": "./check %s --tier thorough" % pid,
            "evidence_file": "evidence/%s.json" % pid,
            "replay_cmd_template": "./check %s --replay {path}" % pid,
            "engine": "lean-proofs",
            "level_claimed": {"category": "proof", "text": m["text"], "design_ref": m.get("design_ref", "DESIGN.md section 5, " + pid)},
            "level_note": m["note"],
            "technique": m.get("technique", "Lean 4 theorems over a hand-written model + correspondence check against the implementation"),
        })
    for e in ENGINES:
        e["serves_properties"] = served
    man = {
        "version": 1,
        "setup_cmd": "./setup.sh",
        "hooks": {
            "guard": "TLSLITE_NG_VERIF",
            "enable": "no hooks are needed: the harness controls sockets, clock, randomness and peers from outside; the guard name is reserved",
            "baseline_off_cmd": "cd /repo && /venv/bin/python -m pytest -ra -q -p no:cacheprovider --timeout=900 --continue-on-collection-errors",
            "source_commits": [],
            "add_only": True,
        },
        "engines": ENGINES,
        "checks": checks,
        "not_applicable": na,
        "notes": "Every check: regenerate lean/TlsModel/Gen from /repo, lake build Props.<id> + driver, audit axioms, run correspondence + direct oracle on the implementation; see DESIGN.md. genuine defects repaired by fix: commits are listed in known_findings.json.",
    }
    with open(os.path.join(HERE, "MANIFEST.json"), "w") as f:
        json.dump(man, f, indent=1)
    print("claimed:", served)
    print("not claimed:", [x["property_id"] for x in na])


if __name__ == "__main__":
    main()
