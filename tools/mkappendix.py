#!/venv/bin/python
"""Regenerate the machine-written appendices of DESIGN.md (between the AUTOGEN markers) from
lean/Props/*.lean, evidence/*.json, seeded/*/meta.json, known_findings.json and /repo's git log."""
import glob, json, os, re, subprocess, sys
HERE = os.path.dirname(os.path.dirname(os.path.abspath(__file__)))
sys.path.insert(0, HERE)
from harness import leanbuild

def main():
    out = []
    out.append("## Appendix D — theorems per property (generated from lean/Props, evidence/)\n")
    ready = set(open(os.path.join(HERE, "tools/ready.txt")).read().split())
    for i in range(1, 21):
        pid = "C%02d" % i
        path = os.path.join(HERE, "lean", "Props", pid + ".lean")
        thms = [t for t, _ in leanbuild.theorems_of(path)]
        ev = {}
        ep = os.path.join(HERE, "evidence", pid + ".json")
        if os.path.exists(ep):
            try:
                ev = json.load(open(ep))
            except Exception:
                ev = {}
        cov = ev.get("coverage", {})
        out.append("**%s** — %s; %d theorems; last evidence: obligations %s/%s, %s cases, %s model-vs-impl comparisons, %.0f s (%s)\n"
                   % (pid, "claimed" if pid in ready else "NOT claimed", len(thms), cov.get("discharged"), cov.get("obligations"),
                      cov.get("evaluations"), cov.get("traces_validated_against_impl"), ev.get("wall_s", 0), ev.get("tier", "-")))
        if thms:
            short = [t.split(".")[-1] for t in thms]
            out.append("`" + "`, `".join(short) + "`\n")
    out.append("\n## Appendix E — seeded changes and which check catches them (generated from seeded/*/meta.json)\n")
    # summary per round
    rounds = {}
    for d in sorted(glob.glob(os.path.join(HERE, "seeded", "*"))):
        mp = os.path.join(d, "meta.json")
        if not os.path.exists(mp):
            continue
        m = json.load(open(mp))
        name = os.path.basename(d)
        m_r = re.search(r"-r(\d+)-", name)
        rnd = "round %s" % m_r.group(1) if m_r else "round 1"
        if name == "C12-overlap" or m.get("status", "").startswith("superseded"):
            rnd = "other (pre-fix tree / superseded)"
        pid = m.get("property", name.split("-")[0])
        det = m.get("detected_by") or []
        own = [x for x in det if x.startswith(pid + " ")]
        first = any("exit 1" in x and "missed" not in x.lower() for x in own)
        later = any("exit 1" in x and "missed" in x.lower() for x in own)
        sib = any("exit 1" in x for x in det if not x.startswith(pid + " "))
        r = rounds.setdefault(rnd, {"n": 0, "first": 0, "later": 0, "sibling": 0, "open": 0})
        r["n"] += 1
        if first:
            r["first"] += 1
        elif later:
            r["later"] += 1
        elif sib:
            r["sibling"] += 1
        else:
            r["open"] += 1
    out.append("| round | seeded | caught by the property's own check at first run | caught by it after strengthening | so far caught only by a sibling property's check | not caught |\n|---|---|---|---|---|---|\n")
    for rnd in sorted(rounds):
        r = rounds[rnd]
        out.append("| %s | %d | %d | %d | %d | %d |\n" % (rnd, r["n"], r["first"], r["later"], r["sibling"], r["open"]))
    out.append("\n")
    out.append("| seeded change | property | what it does | detected by |\n|---|---|---|---|\n")
    for d in sorted(glob.glob(os.path.join(HERE, "seeded", "*"))):
        mp = os.path.join(d, "meta.json")
        if not os.path.exists(mp):
            continue
        m = json.load(open(mp))
        what = (m.get("what") or "").replace("\n", " ").replace("|", "/")
        if len(what) > 170:
            what = what[:167] + "..."
        det = "; ".join(m.get("detected_by") or []) or "NOT YET RUN / NOT DETECTED"
        out.append("| %s | %s | %s | %s |\n" % (os.path.basename(d), m.get("property", "?"), what, det.replace("|", "/")))
    out.append("\n## Appendix F — genuine defects of tlslite-ng found by the machinery (generated from known_findings.json)\n")
    kf = json.load(open(os.path.join(HERE, "known_findings.json")))["findings"]
    out.append("| property | status | key | commit | what |\n|---|---|---|---|---|\n")
    for k in kf:
        what = k.get("what", "").replace("|", "/")
        what = re.sub(r"^fixed: property=C\d+ [0-9a-f]+ ", "", what)
        out.append("| %s | %s | `%s` | %s | %s |\n" % (k["property"], k["status"], k["key"], k.get("commit", "-"), what))
    text = "".join(out)
    p = os.path.join(HERE, "DESIGN.md")
    s = open(p).read()
    a, b = "<!-- AUTOGEN-BEGIN -->", "<!-- AUTOGEN-END -->"
    if a not in s:
        s = s.rstrip("\n") + "\n\n" + a + "\n" + b + "\n"
    s = s[:s.index(a) + len(a)] + "\n" + text + s[s.index(b):]
    open(p, "w").write(s)
    print("appendices regenerated: %d findings, %d seeded" % (len(kf), len(glob.glob(os.path.join(HERE, "seeded", "*")))))

if __name__ == "__main__":
    main()
