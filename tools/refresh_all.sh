#!/bin/bash
# Re-run every claimed quick check on the clean tree (seed 1) to refresh evidence/, regenerate MANIFEST.json and the
# DESIGN.md appendices, validate the JSON against the schemas.  Prints one line per check.
cd "$(dirname "$0")/.."
fail=0
for p in $(cat tools/ready.txt); do
  out=$(VERIF_SEED=1 timeout 1200 ./check $p --tier quick 2>&1); rc=$?
  echo "$p rc=$rc :: $(echo "$out" | grep -v '^KNOWN-FINDING' | tail -1)"
  [ $rc -ne 0 ] && fail=1 && echo "$out" | grep -E "^VIOLATION|^INFRA" | head -5
done
tools/mkmanifest.py >/dev/null; tools/mkappendix.py
python3-vt - <<'PY'
import json, jsonschema, glob
jsonschema.validate(json.load(open('MANIFEST.json')), json.load(open('/root/.vp/MANIFEST.schema.json')))
n = 0
for f in sorted(glob.glob('evidence/C*.json')):
    jsonschema.validate(json.load(open(f)), json.load(open('/root/.vp/EVIDENCE.schema.json'))); n += 1
print("schemas ok:", n, "evidence files")
PY
exit $fail
