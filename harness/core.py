"""Shared plumbing of every check: context, counters, violations, evidence, replay files.

A property module (harness/props/cXX.py) exposes

    TRANSLATORS = [...]          names of translate/ generators the Lean side depends on
    def run(ctx): ...            correspondence + direct oracle on the implementation
    def replay(ctx, rep): ...    re-execute one replay file; return True if it still fails

and uses the Ctx methods below.  Exit codes: 0 held, 1 violation, 2 infrastructure problem.
"""
import collections
import hashlib
import json
import os
import random
import sys
import time
import traceback

VERIF = os.path.dirname(os.path.dirname(os.path.abspath(__file__)))
REPO = os.environ.get("VERIF_REPO", "/repo")
LEAN_DIR = os.path.join(VERIF, "lean")

STD_AXIOMS = {"propext", "Classical.choice", "Quot.sound"}


def use_repo():
    """Make `import tlslite` resolve to $VERIF_REPO's working tree."""
    if sys.path[0] != REPO:
        sys.path.insert(0, REPO)
    for k in list(sys.modules):
        if k == "tlslite" or k.startswith("tlslite."):
            f = getattr(sys.modules[k], "__file__", "") or ""
            if not f.startswith(REPO):
                del sys.modules[k]


class Infra(Exception):
    """infrastructure problem: exit 2, never a violation"""


def jsonable(o):
    if isinstance(o, (bytes, bytearray)):
        return bytes(o).hex()
    if isinstance(o, (set, frozenset)):
        return sorted(jsonable(x) for x in o)
    if isinstance(o, tuple):
        return [jsonable(x) for x in o]
    if isinstance(o, list):
        return [jsonable(x) for x in o]
    if isinstance(o, dict):
        return {str(k): jsonable(v) for k, v in o.items()}
    if isinstance(o, (int, float, str, bool)) or o is None:
        return o
    return repr(o)


class Ctx(object):
    def __init__(self, pid, tier, seed):
        self.pid = pid
        self.tier = tier
        self.seed = seed
        self.rng = random.Random(seed)
        self.repo = REPO
        self.verif = VERIF
        self.t0 = time.time()
        self.dist = collections.Counter()       # input distribution
        self.evaluations = 0
        self.nontrivial = set()                 # distinct non-trivial case keys (hashed)
        self.samples = []
        self.max_samples = 6
        self.violations = []                    # dicts: key, what, replay, found
        self.disagreements = []                 # correspondence: stream, case, model, impl
        self.model_cases = 0                    # cases compared model vs impl
        self.build = None                       # result of leanbuild.build
        self.assumptions = []
        self.rule = ""
        self.extra = {}
        self.budget_s = None
        self._lean = {}

    # ---- bookkeeping ------------------------------------------------------
    def thorough(self):
        return self.tier == "thorough"

    def pick(self, quick, thorough):
        return thorough if self.thorough() else quick

    def count(self, key, n=1):
        self.dist[key] += n

    def case(self, key=None, nontrivial=True, sample=None):
        """register one evaluated case; `key` identifies it for distinct counting"""
        self.evaluations += 1
        if nontrivial and key is not None:
            h = hashlib.blake2b(repr(key).encode(), digest_size=8).digest()
            self.nontrivial.add(h)
        if sample is not None and len(self.samples) < self.max_samples:
            self.samples.append(jsonable(sample))

    def elapsed(self):
        return time.time() - self.t0

    def out_of_time(self, frac=1.0):
        return self.budget_s is not None and self.elapsed() > self.budget_s * frac

    # ---- lean driver --------------------------------------------------------
    def lean(self, name=None):
        """LeanClient for this property's driver, or None if the driver did not build"""
        from . import leanclient
        name = name or ("drv_" + self.pid.lower())
        if name not in self._lean:
            path = os.path.join(LEAN_DIR, ".lake", "build", "bin", name)
            ok = self.build is None or self.build.get("driver_ok", True)
            self._lean[name] = leanclient.LeanClient(path) if (ok and os.path.exists(path)) else None
        return self._lean[name]

    # ---- outcomes -----------------------------------------------------------
    def violation(self, key, what, replay, found=True):
        """the property fails on the implementation on a concrete input (found=True),
        or is no longer shown to hold (found=False)"""
        for v in self.violations:
            if v["key"] == key:
                return
        self.violations.append({"key": key, "what": what, "replay": jsonable(replay), "found": found})

    def disagree(self, stream, case, model, impl):
        """model and implementation differ on `case` (correspondence broken)"""
        self.model_cases += 0
        if len(self.disagreements) < 50:
            self.disagreements.append({"stream": stream, "case": jsonable(case),
                                       "model": jsonable(model), "impl": jsonable(impl)})
        self.count("disagreement:" + stream)

    def compared(self, n=1):
        self.model_cases += n


def load_known():
    p = os.path.join(VERIF, "known_findings.json")
    if not os.path.exists(p):
        return []
    with open(p) as f:
        return json.load(f).get("findings", [])


def write_replay(ctx, v, idx):
    os.makedirs(os.path.join(VERIF, "replays"), exist_ok=True)
    name = "%s-%s-%d-%d.json" % (ctx.pid, ctx.tier, ctx.seed, idx)
    path = os.path.join("replays", name)
    body = {"property_id": ctx.pid, "tier": ctx.tier, "seed": ctx.seed, "key": v["key"],
            "what": v["what"], "found_failing_input": v["found"], "input": v["replay"]}
    with open(os.path.join(VERIF, path), "w") as f:
        json.dump(body, f, indent=1, sort_keys=True)
    return path


def write_evidence(ctx, n_viol):
    b = ctx.build or {}
    theorems = b.get("theorems", [])
    cov = {
        "obligations": b.get("obligations", 0),
        "discharged": b.get("discharged", 0),
        "checker_cmd": b.get("checker_cmd", "lake build (lean kernel)"),
        "trusted_base": b.get("trusted_base", []),
        "theorems": theorems,
        "axioms_per_theorem": b.get("axioms", {}),
        "generated_modules": b.get("generated", []),
        "evaluations": ctx.evaluations,
        "distinct_nontrivial": len(ctx.nontrivial),
        "rule": ctx.rule,
        "samples": ctx.samples if ctx.samples else [{"note": "no sample recorded"}],
        "traces_validated_against_impl": ctx.model_cases,
        "correspondence_disagreements": len(ctx.disagreements),
        "input_distribution": dict(sorted(ctx.dist.items())),
    }
    if b.get("leanchecker") is not None:
        cov["leanchecker"] = b["leanchecker"]
    cov.update(jsonable(ctx.extra))
    ev = {
        "property_id": ctx.pid,
        "tier": ctx.tier,
        "seed": ctx.seed,
        "level": "proof",
        "coverage": cov,
        "assumptions": ctx.assumptions,
        "wall_s": round(ctx.elapsed(), 2),
        "violations": n_viol,
    }
    # runs against another tree (VERIF_REPO=<mutant>) must not overwrite the registered evidence
    edir = os.environ.get("VERIF_EVIDENCE_DIR") or (
        os.path.join(VERIF, "evidence") if os.path.realpath(REPO) == "/repo"
        else os.path.join("/tmp", "verif_evidence_other"))
    os.makedirs(edir, exist_ok=True)
    tmp = os.path.join(edir, ctx.pid + ".json.tmp")
    with open(tmp, "w") as f:
        json.dump(ev, f, indent=1, sort_keys=True)
    os.replace(tmp, os.path.join(edir, ctx.pid + ".json"))


def finish(ctx):
    """classify what the run saw, print VIOLATION / KNOWN-FINDING lines, write evidence"""
    known = [k for k in load_known() if k.get("property") == ctx.pid and k.get("status") == "known"]
    b = ctx.build or {}
    # a broken obligation or correspondence with no concrete failing input is still a violation
    known_keys = set(k.get("key") for k in known)
    # only concrete failing inputs that are NOT already-listed findings can explain a broken
    # obligation / correspondence; a listed finding never hides a new breakage
    concrete = [v for v in ctx.violations if v["found"] and v["key"] not in known_keys]
    if not concrete:
        for t in b.get("failed", []):
            ctx.violation("obligation:" + t, "proof obligation no longer checks: " + t,
                          {"stage": "obligation", "theorem": t, "log": b.get("log_tail", "")}, found=False)
        for t in b.get("audit_problems", []):
            ctx.violation("audit:" + t, "axiom/sorry audit failed: " + t,
                          {"stage": "audit", "detail": t}, found=False)
        if ctx.disagreements:
            d = ctx.disagreements[0]
            ctx.violation("correspondence:" + d["stream"],
                          "model and implementation disagree (%d cases) on stream %s"
                          % (len(ctx.disagreements), d["stream"]),
                          {"stage": "correspondence", "first": d, "all": ctx.disagreements[:10]}, found=False)
    else:
        # concrete failing inputs explain the broken obligation/correspondence; keep them in the replay
        for v in concrete:
            if isinstance(v["replay"], dict):
                v["replay"].setdefault("broken_obligations", b.get("failed", []))
                v["replay"].setdefault("correspondence_disagreements", len(ctx.disagreements))
    real = 0
    idx = 0
    for v in ctx.violations:
        kf = None
        for k in known:
            if k.get("key") == v["key"]:
                kf = k
        if kf is not None and v["found"]:
            print("KNOWN-FINDING: property=%s %s" % (ctx.pid, kf.get("what", v["what"])))
            continue
        path = write_replay(ctx, v, idx)
        idx += 1
        real += 1
        tail = "" if v["found"] else " no-failing-input-found"
        print("VIOLATION property=%s replay=%s%s" % (ctx.pid, path, tail))
        print("  " + v["what"])
    write_evidence(ctx, real)
    sys.stdout.flush()
    return 1 if real else 0
