"""In-memory socket pair with scripted schedules, fault injection and an on-path filter.

A Link has two directions, 'c2s' and 's2c'.  Each direction is a byte queue; a MemSock writes into
one and reads from the other.  Everything an endpoint sends is logged per direction (wire_log).
  * schedule: per socket, optional iterators giving recv sizes / send-accept sizes; an item can be
      int k>=1 (deliver / accept at most k bytes), 'wb' (raise EWOULDBLOCK once)
  * faults:   per socket, dict {('recv'|'send', call_index): 'eof'|'reset'|'pipe'}
  * filter:   Link.filter(direction, data) -> data, applied when bytes enter a queue (MITM hook);
      Link.record_filter(direction, rtype, ver, body) -> list of (rtype, ver, body) is the
      record-granular variant (bytes are reassembled into TLS records first).
"""
import errno
import socket


class Link(object):
    def __init__(self):
        self.q = {"c2s": bytearray(), "s2c": bytearray()}
        self.wire_log = {"c2s": [], "s2c": []}      # chunks as sent by the endpoints
        self.delivered = {"c2s": bytearray(), "s2c": bytearray()}   # after filtering
        self.filter = None
        self.record_filter = None
        self._rbuf = {"c2s": bytearray(), "s2c": bytearray()}
        self.activity = 0
        self.closed = {"c2s": False, "s2c": False}   # writer side closed (EOF for reader)

    def push(self, direction, data):
        data = bytes(data)
        self.wire_log[direction].append(data)
        if self.record_filter is not None:
            buf = self._rbuf[direction]
            buf += data
            out = bytearray()
            while len(buf) >= 5:
                ln = (buf[3] << 8) | buf[4]
                if len(buf) < 5 + ln:
                    break
                rtype, ver, body = buf[0], (buf[1], buf[2]), bytes(buf[5:5 + ln])
                del buf[:5 + ln]
                for (t, v, b) in self.record_filter(direction, rtype, ver, body):
                    out += bytes([t, v[0], v[1], len(b) >> 8, len(b) & 0xff]) + bytes(b)
            data = bytes(out)
        elif self.filter is not None:
            data = bytes(self.filter(direction, data))
        self.q[direction] += data
        self.delivered[direction] += data
        self.activity += 1

    def inject(self, direction, data):
        """attacker-originated bytes (not logged as sent by an endpoint)"""
        self.q[direction] += bytes(data)
        self.delivered[direction] += bytes(data)
        self.activity += 1

    def records(self, direction, delivered=False):
        """parse the logged byte stream of a direction into (type, version, body) records"""
        data = bytes(self.delivered[direction]) if delivered else b"".join(self.wire_log[direction])
        res = []
        i = 0
        while i + 5 <= len(data):
            ln = (data[i + 3] << 8) | data[i + 4]
            res.append((data[i], (data[i + 1], data[i + 2]), data[i + 5:i + 5 + ln]))
            i += 5 + ln
        return res


class MemSock(object):
    def __init__(self, link, role):
        self.link = link
        self.role = role                      # 'client' or 'server'
        self.tx = "c2s" if role == "client" else "s2c"
        self.rx = "s2c" if role == "client" else "c2s"
        self.recv_schedule = None             # iterator or None
        self.send_schedule = None
        self.faults = {}
        self.recv_calls = 0
        self.send_calls = 0
        self.is_closed = False
        self.blocking_sendall = True

    # -- helpers
    def _fault(self, kind, idx):
        f = self.faults.get((kind, idx))
        if f is None:
            return None
        self.link.activity += 1
        if f == "eof":
            return "eof"
        if f == "reset":
            raise socket.error(errno.ECONNRESET, "Connection reset by peer")
        if f == "pipe":
            raise socket.error(errno.EPIPE, "Broken pipe")
        if f == "timeout":
            raise socket.timeout("timed out")
        raise socket.error(errno.EIO, f)

    def recv(self, bufsize):
        idx = self.recv_calls
        self.recv_calls += 1
        if self._fault("recv", idx) == "eof":
            self.link.closed[self.rx] = True
            return b""
        if self.is_closed:
            raise socket.error(errno.EBADF, "Bad file descriptor")
        q = self.link.q[self.rx]
        if not q:
            if self.link.closed[self.rx]:
                return b""
            raise socket.error(errno.EWOULDBLOCK, "would block")
        k = bufsize
        if self.recv_schedule is not None:
            try:
                item = next(self.recv_schedule)
            except StopIteration:
                item = None
            if item == "wb":
                self.link.activity += 1
                raise socket.error(errno.EWOULDBLOCK, "would block (scheduled)")
            if isinstance(item, int):
                k = max(1, min(bufsize, item))
        out = bytes(q[:k])
        del q[:k]
        self.link.activity += 1
        return out

    def send(self, data):
        idx = self.send_calls
        self.send_calls += 1
        if self._fault("send", idx) == "eof":
            raise socket.error(errno.EPIPE, "Broken pipe")
        if self.is_closed:
            raise socket.error(errno.EBADF, "Bad file descriptor")
        if self.link.closed[self.tx]:
            raise socket.error(errno.EPIPE, "Broken pipe")
        data = bytes(data)
        k = len(data)
        if self.send_schedule is not None:
            try:
                item = next(self.send_schedule)
            except StopIteration:
                item = None
            if item == "wb":
                self.link.activity += 1
                raise socket.error(errno.EWOULDBLOCK, "would block (scheduled)")
            if isinstance(item, int):
                k = max(1, min(k, item))
        self.link.push(self.tx, data[:k])
        return k

    def sendall(self, data):
        # blocking semantics (BufferedSocket.flush uses it): everything is accepted
        idx = self.send_calls
        self.send_calls += 1
        if self._fault("send", idx) == "eof":
            raise socket.error(errno.EPIPE, "Broken pipe")
        if self.is_closed:
            raise socket.error(errno.EBADF, "Bad file descriptor")
        if self.link.closed[self.tx]:
            raise socket.error(errno.EPIPE, "Broken pipe")
        self.link.push(self.tx, bytes(data))
        return None

    def close(self):
        self.is_closed = True
        self.link.closed[self.tx] = True
        self.link.activity += 1

    def shutdown(self, how):
        self.link.closed[self.tx] = True

    def getsockname(self):
        return ("mem", 0)

    def getpeername(self):
        return ("mem", 1)

    def settimeout(self, v):
        pass

    def gettimeout(self):
        return None

    def setsockopt(self, *a):
        pass

    def fileno(self):
        return -1


def pair():
    link = Link()
    return link, MemSock(link, "client"), MemSock(link, "server")
