"""Pipe operation lines to a compiled Lean driver, read one reply line per request."""
import subprocess


def hx(b):
    b = bytes(b)
    return b.hex() if b else "-"


def unhx(s):
    return b"" if s == "-" else bytes.fromhex(s)


class LeanClient(object):
    def __init__(self, path):
        self.path = path
        self.p = subprocess.Popen([path], stdin=subprocess.PIPE, stdout=subprocess.PIPE,
                                  universal_newlines=True, bufsize=1 << 16)

    def ask(self, line):
        self.p.stdin.write(line + "\n")
        self.p.stdin.flush()
        r = self.p.stdout.readline()
        if not r:
            raise RuntimeError("lean driver %s died on: %s" % (self.path, line[:200]))
        return r.rstrip("\n")

    def batch(self, lines):
        """send many requests at once (one process round trip), return the replies"""
        if not lines:
            return []
        p = subprocess.run([self.path], input="\n".join(lines) + "\n", stdout=subprocess.PIPE,
                           universal_newlines=True)
        out = p.stdout.split("\n")
        if out and out[-1] == "":
            out.pop()
        if len(out) != len(lines):
            raise RuntimeError("lean driver %s: %d replies for %d requests" % (self.path, len(out), len(lines)))
        return out

    def close(self):
        try:
            self.p.stdin.close()
            self.p.wait(timeout=5)
        except Exception:
            self.p.kill()
