"""Regenerate Gen/*.lean from the repository, build the proof obligations, audit axioms."""
import fcntl
import os
import re
import subprocess
import time

from .core import LEAN_DIR, VERIF, STD_AXIOMS, Infra

FORBIDDEN = re.compile(r"\b(sorry|admit|native_decide|bv_decide|implemented_by)\b|^\s*axiom\s|\bunsafe\s|maxHeartbeats\s+0\b", re.M)


def strip_comments(src):
    # remove /- ... -/ (nested) and -- line comments
    out = []
    i = 0
    depth = 0
    n = len(src)
    while i < n:
        if src.startswith("/-", i):
            depth += 1
            i += 2
            continue
        if depth and src.startswith("-/", i):
            depth -= 1
            i += 2
            continue
        if depth:
            if src[i] == "\n":
                out.append("\n")
            i += 1
            continue
        if src.startswith("--", i):
            while i < n and src[i] != "\n":
                i += 1
            continue
        out.append(src[i])
        i += 1
    return "".join(out)


def theorems_of(path):
    """[(name, line)] of theorem declarations in a Props file (namespace-qualified)"""
    if not os.path.exists(path):
        return []
    src = strip_comments(open(path).read())
    res = []
    ns = []
    for ln, line in enumerate(src.split("\n"), 1):
        m = re.match(r"\s*namespace\s+(\S+)", line)
        if m:
            ns.append(m.group(1))
            continue
        m = re.match(r"\s*end\s+(\S+)\s*$", line)
        if m and ns and ns[-1] == m.group(1):
            ns.pop()
            continue
        m = re.match(r"\s*(?:@\[[^\]]*\]\s*)?(?:private\s+|protected\s+)?theorem\s+([^\s:({\[]+)", line)
        if m:
            res.append((".".join(ns + [m.group(1)]), ln))
    return res


def lean_sources():
    res = []
    for root, dirs, files in os.walk(LEAN_DIR):
        dirs[:] = [d for d in dirs if d not in (".lake",)]
        for f in files:
            if f.endswith(".lean"):
                res.append(os.path.join(root, f))
    return sorted(res)


def import_closure(mod_path):
    """source files reachable from a module through project-local imports"""
    seen = {}
    todo = [mod_path]
    while todo:
        p = todo.pop()
        if p in seen or not os.path.exists(p):
            continue
        src = open(p).read()
        seen[p] = src
        for m in re.finditer(r"^\s*(?:public\s+)?import\s+([A-Za-z0-9_.]+)", src, re.M):
            q = os.path.join(LEAN_DIR, m.group(1).replace(".", "/") + ".lean")
            todo.append(q)
    return seen


class Lock(object):
    def __enter__(self):
        os.makedirs(os.path.join(LEAN_DIR, ".lake"), exist_ok=True)
        self.f = open(os.path.join(LEAN_DIR, ".lake", "verif.lock"), "w")
        fcntl.flock(self.f, fcntl.LOCK_EX)
        return self

    def __exit__(self, *a):
        fcntl.flock(self.f, fcntl.LOCK_UN)
        self.f.close()


def run(cmd, timeout=3000):
    p = subprocess.run(cmd, cwd=LEAN_DIR, stdout=subprocess.PIPE, stderr=subprocess.STDOUT,
                       universal_newlines=True, timeout=timeout)
    return p.returncode, p.stdout


def build(pid, translators, repo, tier="quick", extra_props=()):
    """returns dict: theorems, obligations, discharged, failed, axioms, audit_problems,
    driver_ok, trusted_base, generated, log_tail"""
    import translate
    res = {"failed": [], "audit_problems": [], "axioms": {}, "driver_ok": True}
    t0 = time.time()
    with Lock():
        res["generated"] = translate.regen(translators, repo)
        props_mods = ["Props." + pid] + list(extra_props)
        props_file = os.path.join(LEAN_DIR, "Props", pid + ".lean")
        thms = theorems_of(props_file)
        res["theorems"] = [t for t, _ in thms]
        res["obligations"] = len(thms)
        drv = "drv_" + pid.lower()
        rc_d, out_d = run(["lake", "build", drv])
        res["driver_ok"] = rc_d == 0
        rc, out = run(["lake", "build"] + props_mods)
        res["checker_cmd"] = "cd lean && lake build %s %s && lake env lean <audit: #print axioms per theorem>" % (" ".join(props_mods), drv)
        failed = []
        if rc != 0:
            errs = re.findall(r"error: ([^\s:]+\.lean):(\d+):(\d+)", out)
            in_props = False
            for f, ln, _ in errs:
                if f.replace("\\", "/").endswith("Props/%s.lean" % pid):
                    in_props = True
                    ln = int(ln)
                    name = None
                    for t, tl in thms:
                        if tl <= ln:
                            name = t
                    failed.append(name or ("Props/%s.lean:%d" % (pid, ln)))
            if not in_props:
                # a dependency (generated table, model, lemma file) no longer compiles:
                # nothing in Props is shown to hold
                where = ["%s:%s" % (f, ln) for f, ln, _ in errs[:3]] or ["lake build"]
                failed = [t for t, _ in thms] or ["Props." + pid]
                res["dependency_errors"] = where
        if not res["driver_ok"]:
            res.setdefault("dependency_errors", []).append("driver " + drv + " does not build")
        res["failed"] = sorted(set(failed))
        res["log_tail"] = (out if rc != 0 else "")[-3000:] + ((out_d[-1500:]) if rc_d != 0 else "")
        ok_thms = [t for t, _ in thms if t not in res["failed"]]
        # ---- audit: axioms of every theorem that built
        if rc == 0 and ok_thms:
            adir = os.path.join(LEAN_DIR, ".lake", "audit")
            os.makedirs(adir, exist_ok=True)
            apath = os.path.join(adir, pid + ".lean")
            with open(apath, "w") as f:
                f.write("import Props.%s\n" % pid)
                for t in ok_thms:
                    f.write("#print axioms %s\n" % t)
            rc_a, out_a = run(["lake", "env", "lean", apath])
            seen = set()
            for m in re.finditer(r"'([^']+)' depends on axioms: \[([^\]]*)\]", out_a):
                ax = [a.strip() for a in m.group(2).replace("\n", " ").split(",") if a.strip()]
                res["axioms"][m.group(1)] = ax
                seen.add(m.group(1))
                bad = [a for a in ax if a not in STD_AXIOMS]
                if bad:
                    res["audit_problems"].append("%s uses non-standard axioms %s" % (m.group(1), bad))
            for m in re.finditer(r"'([^']+)' does not depend on any axioms", out_a):
                res["axioms"][m.group(1)] = []
                seen.add(m.group(1))
            for t in ok_thms:
                if t not in seen:
                    res["audit_problems"].append("no axiom report for " + t)
        # ---- forbidden tokens in the sources this property's theorems depend on
        srcs = import_closure(props_file)
        srcs.update(import_closure(os.path.join(LEAN_DIR, "Drv", pid + ".lean")))
        for p, src in sorted(srcs.items()):
            m = FORBIDDEN.search(strip_comments(src))
            if m:
                res["audit_problems"].append("%s contains forbidden token %r" % (os.path.relpath(p, LEAN_DIR), m.group(0).strip()))
        res["sources"] = sorted(os.path.relpath(p, LEAN_DIR) for p in srcs)
        if tier == "thorough" and rc == 0:
            try:
                rc_c, out_c = run(["lake", "env", "leanchecker"] + props_mods, timeout=1500)
                res["leanchecker"] = "ok" if rc_c == 0 else ("failed: " + out_c[-500:])
                if rc_c != 0:
                    res["audit_problems"].append("leanchecker rejected " + " ".join(props_mods))
            except subprocess.TimeoutExpired:
                res["leanchecker"] = "timeout"
    res["discharged"] = len([t for t, _ in thms if t not in res["failed"]]) if not res["audit_problems"] else \
        max(0, len([t for t, _ in thms if t not in res["failed"]]) - len(res["audit_problems"]))
    allax = sorted(set(a for v in res["axioms"].values() for a in v))
    res["trusted_base"] = ["Lean 4.33.0 kernel", "axioms used: " + (", ".join(allax) if allax else "none"),
                           "translators in /verif/translate (regenerated %d modules this run)" % len(res["generated"]),
                           "correspondence harness in /verif/harness"]
    res["build_s"] = round(time.time() - t0, 2)
    return res
