"""C16 — post-handshake control traffic never disturbs the data stream or key sync.

Theorems: lean/Props/C16.lean over the model lean/TlsModel/Conn.lean (generation counters per
direction, FIFO channels, read loop dispatch, KeyUpdate / PHA / heartbeat handling).
Tie: seeded histories over {write, read, key-update, request-client-auth, heartbeat, close} (+ faulty-peer
messages) on live lab connections, every op's observable result compared with the model.
Oracle (independent of the model): bytes read = prefix of bytes written by the peer; honest
histories raise no alert; key generations derived from the session's traffic secrets with an
independent HKDF stay pairwise equal once the channels are drained; heartbeat responses echo
the request payload; clientCertChain appears only through a verified PHA; malformed / unsolicited /
mode-forbidden control messages end in a fatal alert and a closed connection.
"""
from . import _conn
from ._conn import op_json, op_unjson

TRANSLATORS = ["conn"]

MANIFEST = {
    "text": "Proof: Tls.Conn (statement-order Lean model of readAsync/_getMsg dispatch, send_keyupdate_request, "
            "_handle_keyupdate_request, PHA both sides, heartbeat, close, alerts; keys abstracted to a generation per direction) "
            "satisfies, for every history of honest operations by either endpoint from a fresh connection: keys_in_step, "
            "no_bad_record_mac, stream_fifo_control, delivered_is_prefix; at fragment level (Tls.Conn.reasm mirrors _getNextRecord + "
            "defragmenter + the TLS 1.3 interleaving check): reassembly_inverts_fragmentation, keys_in_step_fragments and "
            "stream_fifo_fragments for EVERY cutting of the in-flight handshake messages into records, interleaved_fragment_fatal; "
            "decision theorems heartbeat_echo_exact, heartbeat_response_to_callback, pha_chain_after_verify, unsolicited_control_fatal "
            "(incl. a KeyUpdate that does not end its record). Regenerated tie: translate/gen_conn.py reads allowedTypes/allowedHsTypes "
            "per role, the isinstance dispatch chain, try_once re-arming, _sendError call sites and the KeyUpdate order of effects from "
            "the AST; gen_read_allowed_matches_model, gen_read_filter_probe, gen_read_dispatch_matches_model, "
            "gen_keyupdate_order_matches_model, gen_send_error_sites_match_model tie them to the model by kernel evaluation. Tie by "
            "correspondence: seeded histories on live TLS 1.3 / TLS<=1.2 lab connections (simultaneous KeyUpdates, storms, buffered data "
            "across KeyUpdate, min=0 reads, PHA incl. seven tampered variants, heartbeat modes incl. a maximum-size heartbeat, "
            "recordSize 3/4/5/64/300 so that KeyUpdate, CertificateRequest and Certificate are split over several records, "
            "record_size_limit negotiated, makefile references) every op compared with the model; fragment catalogue (pieces of a "
            "NewSessionTicket interleaved with data / heartbeat / alert) vs reasm; direct FIFO / no-alert / HKDF-generation / "
            "KeyUpdate-answered-once / echo / PHA / fatal-alert oracle.",
    "note": "Trusted: Lean kernel, the translator translate/gen_conn.py (poison on unrecognised shapes), the correspondence harness, "
            "hashlib/hmac for the independent HKDF chain. The AEAD is abstracted to 'accepted iff generation matches' (C02). In the "
            "history model a message travels as one channel element; the fragment level is a separate layer related to it by the "
            "reassembly theorem (honest fragmentation is transparent; heartbeats are not reassembled and are kept within one record). "
            "Observations recorded, not judged: an unsolicited heartbeat response is handed to the callback; close() with "
            "closeSocket=False refuses a PHA message still in flight; heartbeats larger than a user-lowered recordSize are fragmented.",
    "technique": "Lean 4 invariant proof over all histories and all fragmentations; kernel-decided ties to tables regenerated from the source; differential correspondence on live endpoints; direct oracle",
}

FATAL_EXPECT = {
    # spec of the faulty message -> alert description required by RFC 8446 / 6520 (None: any fatal alert)
}


def rb(rng, n):
    return bytes(rng.getrandbits(8) for _ in range(n))


# ------------------------------------------------------------------------------------------------
def gen_cfg(rng, flavour):
    if flavour == "tls13":
        cfg = dict(ver=(3, 4), client_cert=rng.random() < 0.8, tickets=rng.choice([0, 0, 1, 2]),
                   hb=rng.random() < 0.85,
                   hb_cb=(rng.random() < 0.8, rng.random() < 0.8),
                   close_socket=(rng.random() < 0.7, rng.random() < 0.7),
                   record_size=rng.choice([None, None, 300, 3, 5, 64]), rsl=rng.choice([None, None, None, 64, 200]))
    else:
        ver = rng.choice([(3, 3), (3, 3), (3, 2), (3, 1), (3, 0)])
        cfg = dict(ver=ver, client_cert=False, tickets=0, hb=rng.random() < 0.9,
                   hb_cb=(rng.random() < 0.8, rng.random() < 0.8),
                   close_socket=(rng.random() < 0.7, rng.random() < 0.7),
                   cipher=rng.choice([None, "aes128", "aes256gcm"] if ver == (3, 3) else ["aes128", "3des", "aes256"]),
                   record_size=rng.choice([None, None, 300, 4, 64]), rsl=rng.choice([None, None, None, 70]) if ver >= (3, 1) else None)
    # heartbeat messages are not reassembled by the receiver: no heartbeat where they would not fit one record
    if (cfg["record_size"] or 16384) < 200 or cfg.get("rsl"):
        cfg["hb"] = False
    return cfg


def gen_honest(rng, cfg, n, allow_close=True):
    """history over the honest alphabet; biased towards the interesting interleavings"""
    ops = []
    tls13 = cfg["ver"] == (3, 4)
    scenario = rng.choice(["mixed", "mixed", "storm", "simultaneous", "buffered", "pha", "heartbeat"])
    if scenario == "simultaneous" and tls13:
        for _ in range(rng.randrange(1, 4)):
            ops += [("c", "ku", rng.randrange(2)), ("s", "ku", rng.randrange(2))]
            if rng.random() < 0.5:
                ops += [("c", "write", rb(rng, rng.randrange(1, 20))), ("s", "write", rb(rng, rng.randrange(1, 20)))]
    if scenario == "storm" and tls13:
        w = rng.choice("cs")
        for _ in range(rng.randrange(3, 12)):
            ops.append((w, "ku", rng.randrange(2)))
            if rng.random() < 0.3:
                ops.append((w, "write", rb(rng, rng.randrange(0, 9))))
    if scenario == "buffered":
        w = rng.choice("cs")
        o = "s" if w == "c" else "c"
        ops += [(w, "write", rb(rng, 30)), (o, "read", 5, 1)]
        if tls13:
            ops += [(w, "ku", rng.randrange(2))]
        ops += [(w, "write", rb(rng, 11)), (o, "read", 7, 7), (o, "read", None, 0), (o, "read", None, 25)]
    if scenario == "pha" and tls13:
        ops += [("s", "pha"), ("c", "write", rb(rng, 5)), ("c", "read", None, 0), ("s", "read", None, 0), ("s", "read", None, 0)]
    if scenario == "heartbeat":
        w = rng.choice("cs")
        o = "s" if w == "c" else "c"
        ops += [(w, "hb", rb(rng, rng.randrange(0, 40)), rng.choice([16, 16, 17, 64, 0, 15])), (o, "read", None, 0), (w, "read", None, 0)]
    while len(ops) < n:
        w = rng.choice("cs")
        x = rng.random()
        if x < 0.28:
            ops.append((w, "write", rb(rng, rng.choice([0, 1, 1, 2, 5, 8, 16, 33, 100]))))
        elif x < 0.62:
            mx = rng.choice([None, None, None, 1, 3, 10])
            mn = rng.choice([0, 0, 1, 1, 2, 6, 20])
            if mx is not None and mn > mx:
                mn = mx
            ops.append((w, "read", mx, mn))
        elif x < 0.78:
            ops.append((w, "ku", rng.randrange(2)))
        elif x < 0.84:
            ops.append(("s" if rng.random() < 0.85 else w, "pha"))
        elif x < 0.96:
            big = cfg.get("record_size") is None and not cfg.get("rsl") and rng.random() < 0.04
            # at most one record: type(1) + length(2) + payload + padding <= 2^14
            ops.append((w, "hb", rb(rng, 16384 - 3 - 16 if big else rng.choice([0, 1, 4, 18, 60])),
                        16 if big else rng.choice([16, 16, 16, 20, 100, 0, 3, 15])))
        elif x < 0.98:
            tiny = (cfg.get("record_size") or 16384) < 64          # a min=0 read hands out one record: keep draining short
            ops.append((w, "write", rb(rng, 23 if tiny else rng.choice([301, 650, 1000, 16385 if rng.random() < 0.1 else 17]))))
        else:
            ops.append((w, "makefile"))
    if allow_close:
        ops.append((rng.choice("cs"), "close"))
    return ops


BAD_MSGS_13 = [("creq", 904, 2), ("kuco", 0), ("kuco", 1), ("ku", 2), ("ku", 255), ("hsm", 24), ("hsm", 4), ("creq", 900, False), ("cert", 0, 1), ("cert", 901, 1),
               ("cv",), ("fin",), ("hso", 1), ("hso", 0), ("hso", 14), ("hso", 8), ("ccs",), ("empty",), ("unk",),
               ("hb", 1, b"zz", 16), ("hb", 2, b"unsolicited", 16), ("hb", 7, b"q", 16), ("hbbad",), ("nst",),
               ("alert", 1, 90), ("alert", 2, 40), ("alert", 1, 0), ("alert", 2, 0), ("alert", 1, 100)]
BAD_MSGS_12 = [("ku", 1), ("hso", 1), ("hso", 0), ("hso", 14), ("ccs",), ("empty",), ("hb", 1, b"zz", 16),
               ("hb", 2, b"unsolicited", 16), ("hbbad",), ("alert", 1, 90), ("alert", 2, 40), ("alert", 1, 0), ("alert", 1, 100)]


def drain_ops():
    return [("c", "read", None, 0), ("s", "read", None, 0)] * 3


# ------------------------------------------------------------------------------------------------
class Oracle(object):
    """direct reading of the property on the implementation's outputs (never consults the model)"""

    def __init__(self, cfg, honest):
        self.cfg = cfg
        self.honest = honest
        self.written = {"c": b"", "s": b""}
        self.readback = {"c": b"", "s": b""}
        self.hb_sent = {"c": [], "s": []}
        self.problems = []
        self.pha_requested = 0
        self.pha_attempts = 0
        self.ku = {"c": [0, 0], "s": [0, 0]}     # successful KeyUpdate ops per endpoint: [not requested, requested]
        self.close_wait_pha = False

    def peer(self, w):
        return "s" if w == "c" else "c"

    def after(self, cn, op, res, idx):
        w, name = op[0], op[1]
        kind, val = res
        if name == "write" and kind == "ok":
            self.written[w] += op[2]
        if name == "read" and kind == "ok":
            self.readback[w] += val
            src = self.written[self.peer(w)]
            if not src.startswith(self.readback[w]):
                self.problems.append(("c16:stream-not-fifo", "op %d: bytes read by %s are not a prefix of the bytes written by its peer" % (idx, w)))
            if op[2] is not None and len(val) > op[2]:
                self.problems.append(("c16:read-exceeds-max", "op %d: read returned more than max" % idx))
        if name == "hb" and kind == "ok" and op[3] >= 16:
            self.hb_sent[w].append(bytes(op[2]))
        if name == "ku" and kind == "ok":
            self.ku[w][op[2]] += 1
        if name == "pha":
            self.pha_attempts += 1
        if name == "pha" and kind == "ok":
            self.pha_requested += 1
        if kind == "error":
            cls = cn.lab_mod.exc_class(val)
            if self.honest and name == "close" and not cn.conn(w).closeSocket and cls == "local_alert:10" and \
                    (self.pha_requested or self.pha_attempts):
                # a CertificateRequest / client Certificate still in flight cannot be answered after close_notify;
                # the code refuses it with unexpected_message (recorded, not judged)
                self.close_wait_pha = True
            elif self.honest and name == "close" and not cn.conn(w).closeSocket and cls == "local_alert:10":
                self.problems.append(("c16:close-wait-control-message-fatal",
                                      "op %d: %s called close() with closeSocket=False while a control message of the peer was in flight; "
                                      "the wait for the peer's close_notify answered it with a fatal unexpected_message alert" % (idx, w)))
            elif self.honest and (cls.startswith("local_alert") or (cls.startswith("remote_alert") and cls != "remote_alert:0")
                                or cls.startswith("abrupt") or cls.startswith("socket")):
                self.problems.append(("c16:alert-from-honest-history", "op %d (%s %s): honest control/data traffic raised %s" % (idx, w, name, cls)))
        # heartbeat echo: every callback invocation is, in order, a payload this side sent
        for x in "cs":
            log = [p for p, _ in cn.hblog[x]]
            if self.honest and log != self.hb_sent[x][:len(log)]:
                self.problems.append(("c16:heartbeat-echo-mismatch", "op %d: heartbeat responses %r are not the request payloads %r"
                                      % (idx, [p.hex() for p in log], [p.hex() for p in self.hb_sent[x]])))
            if self.honest and any(n < 16 for _, n in cn.hblog[x]):
                self.problems.append(("c16:heartbeat-response-padding", "heartbeat response with less than 16 bytes of padding"))
        # clientCertChain only through a PHA
        ch = cn.s.session.clientCertChain
        if ch is not None:
            if self.pha_requested == 0 or cn.tamper:
                self.problems.append(("c16:client-chain-without-verified-pha", "op %d: session.clientCertChain set although no post-handshake "
                                      "authentication verified (requests=%d, tamper=%d)" % (idx, self.pha_requested, cn.tamper)))
            elif ch != cn.client_chain:
                self.problems.append(("c16:client-chain-wrong", "clientCertChain is not the chain the client sent"))

    def final_honest(self, cn, closed_any):
        """after draining: everything written was delivered, generations pairwise equal"""
        if closed_any:
            return
        for w in "cs":
            if self.readback[w] + bytes(cn.conn(w)._readBuffer) != self.written[self.peer(w)]:
                self.problems.append(("c16:data-lost-or-reordered", "after draining, %s holds %d bytes, peer wrote %d"
                                      % (w, len(self.readback[w]) + len(cn.conn(w)._readBuffer), len(self.written[self.peer(w)]))))
        if cn.track is not None:
            crg, cwg = cn.gens("c")
            srg, swg = cn.gens("s")
            if crg != swg or srg != cwg:
                self.problems.append(("c16:keys-out-of-step", "after draining: client (read %s, write %s) vs server (read %s, write %s)"
                                      % (crg, cwg, srg, swg)))
            # RFC 8446 4.6.3: every own KeyUpdate advances the sending keys once, and every update_requested
            # received must be answered with exactly one KeyUpdate of one's own
            want_c = sum(self.ku["c"]) + self.ku["s"][1]
            want_s = sum(self.ku["s"]) + self.ku["c"][1]
            if (cwg, swg) != (want_c, want_s):
                self.problems.append(("c16:keyupdate-request-not-answered-once",
                                      "after draining: write generations client %s server %s, expected %d and %d from the KeyUpdates issued %r"
                                      % (cwg, swg, want_c, want_s, self.ku)))
        for x in "cs":
            log = [p for p, _ in cn.hblog[x]]
            peer_ok = cn.conn(self.peer(x)).heartbeat_can_receive
            if peer_ok and log != self.hb_sent[x]:
                self.problems.append(("c16:heartbeat-not-answered", "%s sent %d heartbeat requests, got %d responses" % (x, len(self.hb_sent[x]), len(log))))


def run_one(ctx, lc, cfg, ops, honest, kind, drain=True):
    closed_any = any(o[1] == "close" for o in ops)
    all_ops = list(ops)
    cn = _conn.Conn(**cfg)
    if not cn.ok:
        ctx.count("handshake-failed")
        return None
    orc = Oracle(cfg, honest)
    impl = []
    lines = cn.model_init()
    n_init = len(lines)
    for i, op in enumerate(all_ops):
        line, res = cn.run_op(op)
        impl.append(line)
        lines.append(_conn.Conn.op_line(op))
        orc.after(cn, op, res, i)
    if drain:
        # let both ends consume everything in flight (a min=0 read handles one message per call)
        quiet = 0
        while quiet < 4 and len(all_ops) < len(ops) + 1200:
            w = "cs"[len(all_ops) % 2]
            op = (w, "read", None, 0)
            line, res = cn.run_op(op)
            all_ops.append(op)
            impl.append(line)
            lines.append(_conn.Conn.op_line(op))
            orc.after(cn, op, res, len(all_ops) - 1)
            quiet = quiet + 1 if (res[0] != "ok" or cn.conn(w).closed) else 0
    if honest:
        orc.final_honest(cn, closed_any)
    rep = {"stage": kind, "cfg": cfg_json(cfg), "ops": [op_json(o) for o in all_ops], "honest": honest, "drain": False}
    ctx.case(key=(kind, repr(sorted(cfg.items())), repr(all_ops)), sample=dict(rep, impl=impl[-3:]) if ctx.evaluations % 211 == 0 else None)
    ctx.count("history:" + kind)
    ctx.count("version:%d.%d" % cfg["ver"])
    for o in all_ops:
        ctx.count("op:" + o[1])
    for key, what in orc.problems:
        ctx.violation(key, what, dict(rep, problem=key))
    if orc.close_wait_pha:
        ctx.count("observation:close-wait-refuses-in-flight-pha-message")
    if lc is not None:
        out = lc.batch(lines + ["st c", "st s"])
        model = out[n_init:n_init + len(all_ops)]
        ctx.compared(len(all_ops))
        for i, (a, b) in enumerate(zip(impl, model)):
            if a != b:
                ctx.disagree("conn-history", dict(rep, at=i, op=op_json(all_ops[i])), b, a)
                break
        fin = ["- " + cn.state("c"), "- " + cn.state("s")]
        if out[-2:] != fin and impl == model:
            ctx.disagree("conn-final-state", rep, out[-2:], fin)
    return cn, orc, impl, all_ops


def cfg_json(cfg):
    return {k: (list(v) if isinstance(v, tuple) else v) for k, v in cfg.items()}


def cfg_unjson(j):
    return {k: (tuple(v) if isinstance(v, list) else v) for k, v in j.items()}


# ------------------------------------------------------------------------------------------------
def fatal_cases(ctx, lc):
    """malformed / unsolicited / mode-forbidden control messages: the receiver must answer with a fatal
    alert and close; the sender sees that alert"""
    from harness import lab
    cases = []
    base13 = dict(ver=(3, 4), client_cert=True, tickets=0)
    # (label, cfg, prelude ops, sender, message spec, setup function or None, expected: 'fatal' | 'ignored')
    cases.append(("keyupdate-invalid-value", base13, [], "s", ("ku", 2), None, "fatal"))
    cases.append(("keyupdate-invalid-value", base13, [("c", "write", b"abc")], "c", ("ku", 255), None, "fatal"))
    cases.append(("keyupdate-malformed", base13, [], "c", ("hsm", 24), None, "fatal"))
    cases.append(("keyupdate-not-at-record-end", base13, [], "s", ("kuco", 0), None, "fatal"))
    cases.append(("keyupdate-not-at-record-end", base13, [("c", "write", b"abc")], "c", ("kuco", 1), None, "fatal"))
    cases.append(("heartbeat-not-negotiated", dict(base13, hb=False), [], "s", ("hb", 1, b"hello", 16), None, "fatal"))
    cases.append(("heartbeat-not-negotiated", dict(ver=(3, 3), client_cert=False, hb=False), [], "c", ("hb", 1, b"hello", 16), None, "fatal"))
    cases.append(("heartbeat-mode-forbidden", base13, [], "s", ("hb", 1, b"hello", 16), "c_no_recv", "fatal"))
    cases.append(("heartbeat-mode-forbidden", dict(ver=(3, 3), client_cert=False), [], "c", ("hb", 1, b"hello", 16), "s_no_recv", "fatal"))
    cases.append(("certificate-request-to-client-without-keypair", dict(base13, client_cert=False), [], "s", ("creq", 900, False), None, "fatal"))
    cases.append(("certificate-without-request", base13, [], "c", ("cert", 901, 1), None, "fatal"))
    cases.append(("pha-certificate-empty-context", base13, [("s", "pha")], "c", ("cert", 0, 1), None, "fatal"))
    cases.append(("pha-certificate-wrong-context", base13, [("s", "pha")], "c", ("cert", 901, 1), None, "fatal"))
    cases.append(("new-session-ticket-to-server", base13, [], "c", ("nst",), None, "fatal"))
    cases.append(("certificate-verify-unsolicited", base13, [], "c", ("cv",), None, "fatal"))
    cases.append(("finished-unsolicited", base13, [], "s", ("fin",), None, "fatal"))
    cases.append(("client-hello-after-handshake", base13, [], "c", ("hso", 1), None, "fatal"))
    cases.append(("hello-request-tls13", base13, [], "s", ("hso", 0), None, "fatal"))
    cases.append(("ccs-after-handshake", base13, [], "s", ("ccs",), None, "fatal"))
    cases.append(("empty-handshake-record", base13, [], "s", ("empty",), None, "fatal"))
    cases.append(("unknown-content-type", base13, [], "c", ("unk",), None, "fatal"))
    cases.append(("keyupdate-in-tls12", dict(ver=(3, 3), client_cert=False), [], "c", ("ku", 1), None, "fatal"))
    cases.append(("heartbeat-response-unsolicited", base13, [], "s", ("hb", 2, b"nobody asked", 16), None, "ignored"))
    cases.append(("heartbeat-short-padding", base13, [], "s", ("hb", 1, b"short pad", 3), None, "ignored"))
    cases.append(("heartbeat-bad-length", base13, [], "s", ("hbbad",), None, "ignored"))
    cases.append(("pha-no-usable-signature-algorithm", base13, [("s", "pha", 2)], None, None, None, "fatal-c"))
    cases.append(("pha-no-usable-signature-algorithm", base13, [("c", "write", b"x")], "s", ("creq", 902, 2), None, "fatal"))
    cases.append(("pha-empty-signature-algorithms", base13, [], "s", ("creq", 903, 1), None, "fatal"))
    for t in range(1, 8):
        cases.append(("pha-tamper-%d" % t, dict(base13, tamper=t), [("s", "pha"), ("c", "read", None, 0)], None, None, None, "fatal-s"))
    for label, cfg, prelude, sender, spec, setup, expect in cases:
        cn = _conn.Conn(**cfg)
        if not cn.ok:
            ctx.count("handshake-failed")
            continue
        lines = cn.model_init()
        if setup == "c_no_recv":
            cn.c.heartbeat_can_receive = False
            lines.append("set c hbCanRecv 0")
        if setup == "s_no_recv":
            cn.s.heartbeat_can_receive = False
            lines.append("set s hbCanRecv 0")
        n_init = len(lines)
        recv = "s" if expect == "fatal-s" else ("c" if expect == "fatal-c" else ("s" if sender == "c" else "c"))
        snd = "c" if recv == "s" else "s"
        ops = list(prelude)
        if spec is not None:
            ops.append((sender, "inject") + tuple(spec))
        ops += [(recv, "read", None, 0)] * 3 + [(snd, "read", None, 0)] * 3 + [(snd, "write", b"after"), (recv, "read", None, 0)]
        impl, raws = [], []
        for op in ops:
            line, res = cn.run_op(op)
            impl.append(line)
            raws.append(res)
            lines.append(_conn.Conn.op_line(op))
        rep = {"stage": "fatal", "label": label, "cfg": cfg_json(cfg), "setup": setup, "ops": [op_json(o) for o in ops], "expect": expect}
        ctx.case(key=("fatal", label, repr(spec), repr(sorted(cfg.items()))), sample=dict(rep, impl=impl) if label.startswith("pha-tamper-1") else None)
        ctx.count("fatal-case:" + label)
        k = len(prelude) + (1 if spec is not None else 0)
        def first_event(rs):
            for r in rs:
                if r[0] != "ok":
                    return r
            return rs[-1]
        r_recv, r_snd = first_event(raws[k:k + 3]), first_event(raws[k + 3:k + 6])
        rc, sc = cn.conn(recv), cn.conn(snd)
        if expect in ("fatal", "fatal-s", "fatal-c"):
            cls = lab.exc_class(r_recv[1]) if r_recv[0] == "error" else r_recv[0]
            ok = cls.startswith("local_alert:") and rc.closed and not rc.session.resumable
            if ok:
                d = cls.split(":")[1]
                cls2 = lab.exc_class(r_snd[1]) if r_snd[0] == "error" else r_snd[0]
                if cls2 != "remote_alert:" + d:
                    ok = False
                    cls = cls + " / sender saw " + cls2
            if expect == "fatal-c" and not cls.startswith("local_alert:40"):
                ok = False          # RFC 8446 4.4.3 / 9.2: no usable signature algorithm -> handshake_failure
            if expect == "fatal-s" and cn.s.session.clientCertChain is not None:
                ok = False
                cls += " / clientCertChain recorded"
            if not ok:
                ctx.violation("c16:" + ("pha-tamper-accepted" if label.startswith("pha-tamper") else label + "-not-fatal"),
                              "%s: receiver answered %s (closed=%s, resumable=%s) instead of a fatal alert and closure"
                              % (label, cls, rc.closed, rc.session.resumable), rep)
        else:
            # must not disturb the connection: no data, no closure, later traffic flows
            ok = r_recv[0] in ("stall", "ok") and not rc.closed and not sc.closed and raws[k + 7] == ("ok", b"after")
            if r_recv[0] == "ok" and r_recv[1]:
                ok = False
            if not ok:
                ctx.violation("c16:" + label + "-disturbs", "%s: connection disturbed: %r" % (label, impl[k:]), rep)
            if label == "heartbeat-response-unsolicited":
                ctx.extra["observation_unsolicited_heartbeat_response"] = \
                    "handed to heartbeat_response_callback (%d call), connection stays open" % len(cn.hblog[recv])
        if lc is not None:
            out = lc.batch(lines)[n_init:]
            ctx.compared(len(ops))
            if out != impl:
                i = [a == b for a, b in zip(out, impl)].index(False)
                ctx.disagree("conn-fatal-case", dict(rep, at=i), out[i], impl[i])


def fragment_cases(ctx, lc):
    """handshake messages of a faulty / foreign peer cut into pieces and interleaved with other records:
    verdict of the defragmenter model (Tls.Conn.reasm) against the live receiver"""
    from harness import lab
    from tlslite import messages as M
    from tlslite.constants import ContentType
    cases = [
        ("nst-two-pieces", ["p:nst:0:2", "p:nst:1:2"]),
        ("nst-three-pieces", ["p:nst:0:3", "p:nst:1:3", "p:nst:2:3"]),
        ("nst-data-between-pieces", ["p:nst:0:2", "w:app", "p:nst:1:2"]),
        ("nst-heartbeat-between-pieces", ["p:nst:0:2", "w:hb", "p:nst:1:2"]),
        ("nst-alert-between-pieces", ["p:nst:0:2", "w:alert"]),
        ("two-tickets-then-data", ["w:nst", "p:nst:0:2", "p:nst:1:2", "w:app"]),
        ("data-then-pieces", ["w:app", "p:nst:0:2", "p:nst:1:2"]),
    ]
    for label, frags in cases:
        cn = _conn.Conn(ver=(3, 4), client_cert=False, tickets=0)
        if not cn.ok:
            continue
        nst = bytes(M.NewSessionTicket().create(3600, 7, bytearray(b"\x01"), bytearray(b"forged-ticket" * 3), []).write())
        for f in frags:
            t = f.split(":")
            if t[0] == "w":
                msg = {"nst": lambda: M.Message(ContentType.handshake, bytearray(nst)),
                       "app": lambda: M.ApplicationData().create(bytearray(b"x")),
                       "hb": lambda: M.Heartbeat().create(1, bytearray(), 16),
                       "alert": lambda: M.Alert().create(90, 1)}[t[1]]()
            else:
                i, n = int(t[2]), int(t[3])
                size = (len(nst) + n - 1) // n
                msg = M.Message(ContentType.handshake, bytearray(nst[i * size:(i + 1) * size]))
            cn.L.op("server", cn.s._sendMsg(msg), pump_other=False)
        tickets = 0
        verdict = None
        data = b""
        for _ in range(8):
            r = cn.L.read("client", min=0)
            if r[0] == "error":
                verdict = "err %s" % lab.exc_class(r[1]).split(":")[-1] if lab.exc_class(r[1]).startswith("local_alert") \
                    else "exc " + lab.exc_class(r[1])
                break
            if r[0] == "stall":
                break
            data += r[1]
        if verdict is None:
            verdict = "ok tickets=%d data=%s" % (len(cn.c.tickets), data.hex() or "-")
        case = {"stage": "fragments", "label": label, "frags": frags, "impl": verdict}
        ctx.case(key=("frag", label), sample=case if label == "nst-data-between-pieces" else None)
        ctx.count("fragment-case:" + label)
        # direct oracle (RFC 8446 5.1: handshake messages must not be interleaved with other record types; a message
        # cut at any point is the same message)
        pending, want_fatal = False, False
        for f in frags:
            t = f.split(":")
            if t[0] == "p":
                pending = int(t[2]) + 1 != int(t[3])
            elif t[1] != "nst" and pending:
                want_fatal = True
                break
        if want_fatal != verdict.startswith("err 10"):
            ctx.violation("c16:fragment-" + label, "%s: receiver verdict %s" % (label, verdict), case)
        if not want_fatal:
            n_t = sum(1 for f in frags if f == "w:nst") + (1 if any(f.startswith("p:") for f in frags) else 0)
            n_d = sum(1 for f in frags if f == "w:app")
            if verdict != "ok tickets=%d data=%s" % (n_t, (b"x" * n_d).hex() or "-"):
                ctx.violation("c16:fragment-" + label, "%s: receiver verdict %s" % (label, verdict), case)
        if lc is not None:
            m = lc.ask("reasm 1 " + " ".join(frags))
            ctx.compared()
            mv = "err" if m.startswith("err") else "ok"
            iv = "err" if verdict.startswith("err") else ("ok" if verdict.startswith("ok") else verdict)
            if mv != iv or (mv == "err" and m.split()[1] != verdict.split()[1]) or \
                    (mv == "ok" and int(m.split()[1]) != len(cn.c.tickets) + len(data)):
                ctx.disagree("reasm", case, m, verdict)


# ------------------------------------------------------------------------------------------------
def run(ctx):
    ctx.rule = ("seeded histories over {write, read(max,min), key-update(req/no-req), request-client-auth, heartbeat(payload,padding), "
                "close} by either endpoint on live TLS 1.3 and TLS<=1.2 connections (scenarios: mixed, KeyUpdate storm, simultaneous "
                "KeyUpdates, buffered data across KeyUpdate, PHA, heartbeat), adversarial histories with one faulty-peer message, and a "
                "directed catalogue of malformed/unsolicited/mode-forbidden control messages; distinct = distinct (flavour, history)")
    ctx.assumptions = ["in-memory transport delivers records atomically and in order (harness.memsock)",
                       "traffic-key generation of an endpoint = position of session.cl/sr_app_secret in the RFC 8446 7.2 'traffic upd' chain, "
                       "computed with an independent HKDF",
                       "an unsolicited heartbeat response is not required to be fatal (RFC 6520 section 4: discard silently)"]
    lc = ctx.lean()
    rng = ctx.rng
    t_start = ctx.elapsed()
    budget = ctx.pick(80.0, 900.0)
    fatal_cases(ctx, lc)
    fragment_cases(ctx, lc)
    n_hist = 0
    # load independence: the directed families above run first and are never cut; only this random bulk is
    while n_hist < ctx.pick(1500, 20000):
        if ctx.elapsed() - t_start >= budget:
            ctx.count("cut-by-budget:random-histories")
            break
        n_hist += 1
        flavour = "tls13" if rng.random() < 0.7 else "old"
        cfg = gen_cfg(rng, flavour)
        x = rng.random()
        if x < 0.7:
            ops = gen_honest(rng, cfg, rng.randrange(6, 40), allow_close=rng.random() < 0.3)
            run_one(ctx, lc, cfg, ops, True, "honest")
        else:
            ops = gen_honest(rng, cfg, rng.randrange(4, 20), allow_close=False)
            w = rng.choice("cs")
            bad = rng.choice(BAD_MSGS_13 if cfg["ver"] == (3, 4) else BAD_MSGS_12)
            pos = rng.randrange(len(ops) + 1)
            ops.insert(pos, (w, "inject") + tuple(bad))
            run_one(ctx, lc, cfg, ops, False, "faulty-peer")
    ctx.extra["histories"] = n_hist


def replay(ctx, rep):
    inp = rep["input"]
    lc = ctx.lean()
    if inp.get("stage") in ("honest", "faulty-peer"):
        cfg = cfg_unjson(inp["cfg"])
        ops = [op_unjson(o) for o in inp["ops"]]
        r = run_one(ctx, lc, cfg, ops, inp["honest"], inp["stage"], drain=True)
        if r is not None:
            for line, op in zip(r[2], r[3]):
                print("  %-40s -> %s" % (_conn.Conn.op_line(op), line))
        for v in ctx.violations:
            print("oracle:", v["key"], v["what"])
        for d in ctx.disagreements:
            print("model/impl differ at", d["case"].get("at"), "model:", d["model"], "impl:", d["impl"])
        return bool(ctx.violations or ctx.disagreements)
    print("replay of stage %r: re-running the catalogue" % inp.get("stage"))
    fatal_cases(ctx, lc)
    for v in ctx.violations:
        print("oracle:", v["key"], v["what"])
    want = inp.get("label")
    if want:
        return any(want in v["key"] or want in v["what"] for v in ctx.violations) or bool(ctx.disagreements)
    return bool(ctx.violations or ctx.disagreements)
