"""C05 helper: every authentication mode x every Checker kind.

Modes: certificate (TLS 1.2 / 1.3, with / without client certificate), external PSK (psk_dhe_ke / psk_ke),
TLS 1.3 ticket resumption, TLS 1.2 session-ID and ticket resumption (original session with / without client
authentication, and an original session whose server-side Checker FAILED), SRP, anonymous DH.
Checker kinds: none, pin = peer's end-entity fingerprint, pin = another certificate, each with
checkResumedSession False / True, on the client or on the server.

Independent expectations (property text):
 (a) identity told to the application: session.serverCertChain / clientCertChain non-empty only if that chain
     was authenticated in this connection or in the original session of a resumption; connection.resumed is
     True only for a resumption (never for an external PSK); srpUsername only after SRP;
 (b) a Checker with a fingerprint lets the call succeed only if a peer chain was authenticated in this
     connection or in the original session; on a non-resumed connection (and with checkResumedSession=True)
     additionally only if the end-entity fingerprint equals the pin.
"""
from .. import lab
from .c05_other import _settings, _out, _db

TKEY = bytearray(b"T" * 32)


def _fp(kind):
    return lab.creds(kind)[0].getFingerprint()


def _mk_checker(spec, side):
    """spec: None | (side, pin, checkResumed) -> Checker for `side` or None"""
    from tlslite.checker import Checker
    if not spec or spec[0] != side:
        return None
    _, pin, cr = spec
    peer = "rsa" if side == "client" else "client_rsa"
    other = "ecdsa"
    return Checker(x509Fingerprint=_fp(peer) if pin == "ok" else _fp(other), checkResumedSession=cr)


def _run_cert(ver, client_auth, chk, csess=None, cache=None, tickets=False, first_server_checker=None):
    cs, ss = _settings(ver), _settings(ver)
    if tickets:
        ss.ticketKeys = [bytearray(TKEY)]
    ch, k = lab.creds("rsa")
    ckw, skw = {}, {}
    if client_auth:
        cch, ck = lab.creds("client_rsa")
        ckw.update(certChain=cch, privateKey=ck)
    c1, c2 = _mk_checker(chk, "client"), _mk_checker(chk, "server")
    if c1:
        ckw["checker"] = c1
    if c2:
        skw["checker"] = c2
    if first_server_checker is not None:
        skw["checker"] = first_server_checker
    if csess is not None:
        ckw["session"] = csess
    if cache is not None:
        skw["sessionCache"] = cache
    L = lab.Lab()
    L.start_client(lambda c: c.handshakeClientCert(settings=cs, async_=True, **ckw))
    L.start_server(lambda c: c.handshakeServerAsync(certChain=ch, privateKey=k, settings=ss, reqCert=True, **skw))
    L.run()
    return L


def run_mode(mode, chk):
    """returns (L, facts) ; facts: resumption(bool), server_authed, client_authed, srp"""
    from tlslite.sessioncache import SessionCache
    f = {"resumption": False, "server_authed": False, "client_authed": False, "srp": False, "psk_only": False}
    if mode in ("cert12", "cert13", "cert12-noclient", "cert13-noclient"):
        ver = 4 if "13" in mode else 3
        ca = "noclient" not in mode
        f.update(server_authed=True, client_authed=ca)
        return _run_cert(ver, ca, chk), f
    if mode in ("extpsk-dhe", "extpsk-ke"):
        cs, ss = _settings(4), _settings(4)
        cs.pskConfigs = [(b"grp", b"g" * 32, "sha256")]
        ss.pskConfigs = [(b"grp", b"g" * 32, "sha256")]
        m = "psk_ke" if mode.endswith("ke") and not mode.endswith("dhe") else "psk_dhe_ke"
        cs.psk_modes = [m]
        ss.psk_modes = [m]
        ch, k = lab.creds("rsa")
        ckw, skw = {}, {}
        c1, c2 = _mk_checker(chk, "client"), _mk_checker(chk, "server")
        if c1:
            ckw["checker"] = c1
        if c2:
            skw["checker"] = c2
        L = lab.Lab()
        L.start_client(lambda c: c.handshakeClientCert(settings=cs, async_=True, **ckw))
        L.start_server(lambda c: c.handshakeServerAsync(certChain=ch, privateKey=k, settings=ss, reqCert=True, **skw))
        L.run()
        f["psk_only"] = True
        return L, f
    if mode.startswith(("ticket13", "ticket12", "sessid12")):
        ver = 4 if mode.startswith("ticket13") else 3
        variant = mode.split("-", 1)[1]            # auth | noclient | failedcheck
        ca = variant == "auth"
        cache = SessionCache() if mode.startswith("sessid12") else None
        tickets = not mode.startswith("sessid12")
        first_chk = None
        if variant == "failedcheck":
            from tlslite.checker import Checker
            first_chk = Checker(x509Fingerprint=_fp("client_rsa"))    # client sends no certificate: must fail
        L0 = _run_cert(ver, ca, None, cache=cache, tickets=tickets, first_server_checker=first_chk)
        if L0.client.state != "done":
            return None, f
        if ver == 4:
            L0.read("client", max=0, min=0)
        sess = L0.client.conn.session
        if variant == "failedcheck":
            # the client keeps using what it received, whatever the server concluded afterwards
            sess.resumable = True
        if sess is None or not sess.valid():
            return None, f
        f.update(resumption=True, server_authed=True, client_authed=ca)
        L = _run_cert(ver, False, chk, csess=sess, cache=cache, tickets=tickets)
        f["orig_server_failed"] = L0.server.state != "done"
        if ver < 4 and any(t == 22 and body[:1] == b"\x0b" for (t, v, body) in L.link.records("s2c")):
            # the server sent a Certificate message: it declined the resumption and ran a full handshake
            # (seen on the wire, not taken from connection.resumed)
            f.update(resumption=False, server_authed=True, client_authed=False, fallback=True)
        return L, f
    if mode == "srp12":
        cs, ss = _settings(3), _settings(3)
        ckw, skw = {}, {}
        c1, c2 = _mk_checker(chk, "client"), _mk_checker(chk, "server")
        if c1:
            ckw["checker"] = c1
        if c2:
            skw["checker"] = c2
        L = lab.Lab()
        L.start_client(lambda c: c.handshakeClientSRP(bytearray(b"alice"), bytearray(b"password"), settings=cs,
                                                      async_=True, **ckw))
        L.start_server(lambda c: c.handshakeServerAsync(verifierDB=_db(b"password"), settings=ss, **skw))
        L.run()
        f["srp"] = True
        return L, f
    if mode == "anon12":
        cs, ss = _settings(3), _settings(3)
        ckw, skw = {}, {}
        c1, c2 = _mk_checker(chk, "client"), _mk_checker(chk, "server")
        if c1:
            ckw["checker"] = c1
        if c2:
            skw["checker"] = c2
        L = lab.Lab()
        L.start_client(lambda c: c.handshakeClientAnonymous(settings=cs, async_=True, **ckw))
        L.start_server(lambda c: c.handshakeServerAsync(anon=True, settings=ss, **skw))
        L.run()
        return L, f
    raise ValueError(mode)


MODES = ["cert12", "cert13", "cert12-noclient", "cert13-noclient", "extpsk-dhe", "extpsk-ke",
         "ticket13-auth", "ticket13-noclient", "ticket13-failedcheck",
         "sessid12-auth", "sessid12-noclient", "sessid12-failedcheck", "ticket12-auth", "ticket12-noclient", "ticket12-failedcheck",
         "srp12", "anon12"]
CHECKERS = [None] + [(side, pin, cr) for side in ("client", "server") for pin in ("ok", "bad") for cr in (False, True)]
MODEL_MODE = {"cert12": "cert", "cert13": "cert", "extpsk": "extpsk", "ticket13": "ticket13", "sessid12": "sessid12",
              "ticket12": "ticket12", "srp12": "srp", "anon12": "anon"}


def mode_case(ctx, case, pending):
    mode, chk = case["mode"], case.get("checker")
    if chk is not None:
        chk = tuple(chk)
    L, f = run_mode(mode, chk)
    if L is None:
        ctx.count("not-exercised:modes")
        return
    ctx.count("site:modes")
    ctx.count("class:mode-" + mode)
    ctx.case(key=("mode", mode, chk), nontrivial=chk is not None)
    rep = {"kind": "mode", "case": {"mode": mode, "checker": list(chk) if chk else None}}
    for side, end in (("client", L.client), ("server", L.server)):
        conn = end.conn
        se = conn.session
        out = _out(end)
        done = out == "done"
        peer_authed = f["server_authed"] if side == "client" else f["client_authed"]
        peer_kind = "rsa" if side == "client" else "client_rsa"
        # ---- (a) what the application is told
        if done and se is not None:
            chain = se.serverCertChain if side == "client" else se.clientCertChain
            if chain and (not peer_authed or chain.getFingerprint() != _fp(peer_kind)):
                ctx.violation("c05:identity-reported-without-authentication",
                              "%s reports a peer certificate chain that was not authenticated in this connection or its "
                              "original session (mode %s)" % (side, mode), rep)
            if conn.resumed and not f["resumption"]:
                ctx.violation("c05:resumed-flag-set-without-resumption",
                              "%s reports connection.resumed=True for a handshake that is no resumption (mode %s); "
                              "a default Checker skips resumed connections" % (side, mode), rep)
            if side == "server" and se.srpUsername and not f["srp"]:
                ctx.violation("c05:srp-username-without-srp", "srpUsername recorded without SRP (mode %s)" % mode, rep)
            if f["resumption"] and not conn.resumed:
                ctx.count("observation:resumption-not-flagged-resumed:%s:%s" % (mode, side))
        # ---- (b) the Checker of this side
        if chk is not None and chk[0] == side:
            _, pin, cr = chk
            other_failed = _out(L.server if side == "client" else L.client) not in ("done",) and not done
            variant = mode.split("-", 1)[1] if "-" in mode else ""
            if variant == "failedcheck" and side != "server":
                variant = "noclient"      # only the server's Checker ran (and failed) on the first connection
            skipped_by_design = f["resumption"] and not cr and variant != "failedcheck"
            if done:
                if variant == "failedcheck" and f["resumption"] and conn.resumed:
                    # the ORIGINAL connection was checked by this very Checker and failed; resuming it must not
                    # get the peer past the check
                    ctx.violation("c05:checker-bypassed-by-resuming-session-that-failed-the-check",
                                  "%s: Checker(x509Fingerprint=…) raised on the first connection (peer sent no certificate), the "
                                  "session ticket had already been issued; resuming with it is reported as resumed, the default "
                                  "Checker skips resumed connections and the call succeeds with no authenticated chain (mode %s)"
                                  % (side, mode), rep)
                elif skipped_by_design:
                    # documented policy: a resumed session is assumed to have been checked when it was created
                    if not peer_authed or pin == "bad":
                        ctx.count("observation:default-checker-skips-resumed-session:%s" % mode)
                elif not peer_authed:
                    ctx.violation("c05:checker-passed-without-authenticated-chain",
                                  "%s: Checker(x509Fingerprint=…, checkResumedSession=%s) let the call succeed although no peer "
                                  "certificate chain was authenticated in this connection or in the original session (mode %s)"
                                  % (side, cr, mode), rep)
                elif pin == "bad":
                    ctx.violation("c05:checker-mismatch-ignored",
                                  "%s: Checker with a non-matching fingerprint let the call succeed (mode %s, checkResumed %s)"
                                  % (side, mode, cr), rep)
            else:
                if not conn.closed or (se is not None and se.resumable):
                    ctx.violation("c05:checker-failed-but-session-usable", "%s: checker failed, connection still usable (%s)"
                                  % (side, mode), rep)
            # model: resumed flag as the implementation reports it is compared separately; here the policy
            base = mode.split("-")[0]
            if f.get("fallback"):
                base = "cert12"
            chain_present = bool(se is not None and (se.serverCertChain if side == "client" else se.clientCertChain)) \
                if se is not None else False
            line = "chk mode:%s client:%d chain:%d pin:%s cr:%d" % (
                MODEL_MODE[base], 1 if side == "client" else 0, 1 if chain_present else 0, pin, 1 if cr else 0)
            if out in ("done",) or out.startswith("raise:TLSAuthenticationError"):
                pending.append((dict(rep["case"], side=side), line,
                                "resumed=%d %s" % (1 if conn.resumed else 0, "done" if done else "fail")))


def flush_modes(ctx, pending):
    lc = ctx.lean()
    if lc is None or not pending:
        del pending[:]
        return
    for (case, line, impl), mo in zip(pending, lc.batch([p[1] for p in pending])):
        if mo != impl:
            ctx.disagree("modes", dict(case, line=line), mo, impl)
    ctx.compared(len(pending))
    del pending[:]


def run_modes(ctx):
    pend = []
    for mode in MODES:
        for chk in CHECKERS:
            mode_case(ctx, {"mode": mode, "checker": list(chk) if chk else None}, pend)
    flush_modes(ctx, pend)
