"""C13 — resumption reproduces the original session's security, or falls back cleanly.

Theorems: lean/Props/C13.lean over lean/TlsModel/Resume.lean (server decision for session ID /
<=1.2 ticket / TLS 1.3 PSK, client belief, _shutdown effects, histories).
Tie: HISTORIES of live connections in the lab (harness.lab) under a patched per-side clock are fed,
step by step, to the stateful Lean driver (drv_c13); ClientHello contents, server decision, end
states, `resumed` on both ends, negotiated parameters, master-secret lineage and the `resumable`
flags after every close are compared with the model's trace.
Oracle: independent bookkeeping (this file, class Oracle) of which sessions completed / were
invalidated / expired / under which ticket key they were issued, straight from the property text.
"""
import os
import time as _real_time

from ..leanclient import hx

TRANSLATORS = ["resume"]

MANIFEST = {
    "text": "Proof: Tls.Resume (Lean model mirroring _serverGetClientHello's resumption block, _ticket_to_session, _tryDecrypt, "
            "TLS 1.3 PSK selection/binder/kex-mode, _clientSendClientHello offer and pruning, _clientResume, Session.valid, "
            "_shutdown, SessionCache) with theorems: a Resume decision implies completed, resumable, unexpired, issued under a CURRENT "
            "ticket key or present in the cache, and a consistent ClientHello (suite offered and allowed, SRP/SNI/EtM/EMS rules); "
            "resumed parameters equal the original's; a ticket opening under no current key / expired / unknown ID gives Full, never "
            "Alert or Resume; after any history containing a fatal close the session never resumes; client resumed flag soundness. "
            "Deviations of the code are stated as _partial theorems with counterexample theorems (TLS 1.3 lifetime, TLS 1.3 server "
            "resumed flag, <=1.2 client abort on declined ticket). Tie: stateful driver over histories compared with live "
            "TLSConnection pairs under a per-side patched clock (every version SSLv3..TLS1.3; session ID cache, <=1.2 tickets, "
            "1.3 PSK tickets, external PSK; closes clean/fatal/abrupt, clock advance, key rotation, cache eviction, ticket tampering, "
            "ClientHello edits, settings changes) plus an independent bookkeeping oracle from the property text.",
    "note": "Trusted: Lean kernel, the harness (message hooks, clock patch, bookkeeping oracle). Ticket AEAD and binder HMAC are "
            "abstract functions in the model (open succeeds only for bytes sealed under that key; a binder verifies only under the "
            "inputs it was computed with). Full-handshake negotiation (suite/EMS/EtM of a NEW session) is an input to the model, "
            "not predicted by it (C03). TLS 1.3: 'original's cipher suite / server name' is checked as 'same PRF hash' and SNI is "
            "not varied (RFC 8446 binds only the hash to a PSK); a fatal error seen only by the server cannot invalidate a "
            "stateless ticket and is treated as unspecified.",
    "technique": "Lean 4 proofs over a history model; differential correspondence of live connection histories vs stateful model "
                 "driver; independent property-text oracle; scripted + random histories with shrinking-free replay (full op list)",
}

DAY7 = 7 * 24 * 60 * 60
T0 = 1_000_000          # start of both clocks

CIPHERS_BY_VER = {
    (3, 0): ["aes128", "aes256", "3des"],
    (3, 1): ["aes128", "aes256", "3des"],
    (3, 2): ["aes128", "aes256", "3des"],
    (3, 3): ["aes128gcm", "aes256gcm", "chacha20-poly1305", "aes128", "aes256"],
    (3, 4): ["aes128gcm", "aes256gcm", "chacha20-poly1305"],
}
VERSIONS = [(3, 0), (3, 1), (3, 2), (3, 3), (3, 4)]


# ---------------------------------------------------------------------------------------------
# per-side clock: time.time() as seen by the code depends on which endpoint's generator runs
class Clock(object):
    def __init__(self):
        self.now = {"client": T0, "server": T0}
        self.side = "server"
        self.installed = []

    def time(self):
        return float(self.now[self.side])

    def __getattr__(self, name):          # everything else of the time module
        return getattr(_real_time, name)

    def install(self):
        import tlslite.tlsconnection
        import tlslite.session
        import tlslite.tlsrecordlayer
        import tlslite.sessioncache
        for m in (tlslite.tlsconnection, tlslite.session, tlslite.tlsrecordlayer, tlslite.sessioncache):
            self.installed.append((m, m.time))
            m.time = self

    def uninstall(self):
        for m, t in self.installed:
            m.time = t
        self.installed = []


def side_gen(clock, side, gen):
    """run `gen` with the clock switched to `side` whenever it executes"""
    while True:
        clock.side = side
        try:
            r = next(gen)
        except StopIteration as s:
            return getattr(s, "value", None)
        yield r


# ---------------------------------------------------------------------------------------------
def alert_name(n):
    from tlslite.constants import AlertDescription
    return AlertDescription.toStr(n)


def end_state(end):
    """canonical end state of a lab endpoint"""
    from tlslite import errors
    if end.state == "done":
        return "done"
    if end.state == "stall":
        return "stall"
    e = end.exc
    if isinstance(e, errors.TLSLocalAlert):
        return "local_alert:" + alert_name(e.description)
    if isinstance(e, errors.TLSRemoteAlert):
        return "remote_alert:" + alert_name(e.description)
    return "raised:" + type(e).__name__


class SrvCfg(object):
    """mutable configuration of one server instance"""

    def __init__(self, minv, maxv, ciphers, keys, life, tcount, cache, psk=(), psk_modes=("psk_dhe_ke", "psk_ke"),
                 req_cert=False, ems=True, etm=True):
        self.minv, self.maxv = minv, maxv
        self.ciphers = list(ciphers)
        self.keys = list(keys)             # list of bytes
        self.life = life
        self.tcount = tcount
        self.cache = cache                 # None or (cap, maxAge)
        self.psk = list(psk)               # (identity bytes, secret bytes, 'sha256'|'sha384')
        self.psk_modes = list(psk_modes)
        self.req_cert = req_cert
        self.ems, self.etm = ems, etm

    def to_json(self):
        d = dict(self.__dict__)
        d["keys"] = [bytes(k).hex() for k in self.keys]
        d["psk"] = [[bytes(a).hex(), bytes(b).hex(), c] for a, b, c in self.psk]
        return d

    @staticmethod
    def from_json(d):
        s = SrvCfg(tuple(d["minv"]), tuple(d["maxv"]), d["ciphers"], [bytes.fromhex(k) for k in d["keys"]], d["life"],
                   d["tcount"], tuple(d["cache"]) if d["cache"] else None,
                   [(bytes.fromhex(a), bytes.fromhex(b), c) for a, b, c in d["psk"]], d["psk_modes"], d["req_cert"],
                   d["ems"], d["etm"])
        return s


class CliCfg(object):
    def __init__(self, minv, maxv, ciphers, ems=True, etm=True, psk=(), psk_modes=("psk_dhe_ke", "psk_ke"), cert=None,
                 sni=None):
        self.minv, self.maxv = minv, maxv
        self.ciphers = list(ciphers)
        self.ems, self.etm = ems, etm
        self.psk = list(psk)
        self.psk_modes = list(psk_modes)
        self.cert = cert                   # None | 'client_rsa' | 'client_ecdsa'
        self.sni = sni                     # None | str

    def to_json(self):
        d = dict(self.__dict__)
        d["psk"] = [[bytes(a).hex(), bytes(b).hex(), c] for a, b, c in self.psk]
        return d

    @staticmethod
    def from_json(d):
        return CliCfg(tuple(d["minv"]), tuple(d["maxv"]), d["ciphers"], d["ems"], d["etm"],
                      [(bytes.fromhex(a), bytes.fromhex(b), c) for a, b, c in d["psk"]], d["psk_modes"], d["cert"], d["sni"])


CID = {None: None, "client_rsa": 1, "client_ecdsa": 2}


def mk_settings(cfg, server):
    from tlslite.handshakesettings import HandshakeSettings
    s = HandshakeSettings()
    s.minVersion, s.maxVersion = cfg.minv, cfg.maxv
    s.cipherNames = list(cfg.ciphers)
    s.useExtendedMasterSecret = cfg.ems
    s.useEncryptThenMAC = cfg.etm
    s.pskConfigs = [(bytearray(a), bytearray(b), c) for a, b, c in cfg.psk]
    s.psk_modes = list(cfg.psk_modes)
    s.eccCurves = [c for c in s.eccCurves if "brainpool" not in c]
    s.keyExchangeNames = ["ecdhe_rsa", "rsa"]       # no finite-field DH: keeps handshakes fast
    s.dhGroups = []
    if server:
        s.ticketKeys = [bytearray(k) for k in cfg.keys]
        s.ticketLifetime = cfg.life
        s.ticket_count = cfg.tcount
    return s


def server_allowed(cfg, version):
    """the `cipherSuites` list the server computes (certificate branch) for `version`"""
    from tlslite.constants import CipherSuite
    s = mk_settings(cfg, True).validate()
    cs = []
    cs += CipherSuite.getTLS13Suites(s, version)
    cs += CipherSuite.getEcdsaSuites(s, version)
    cs += CipherSuite.getEcdheCertSuites(s, version)
    cs += CipherSuite.getDheCertSuites(s, version)
    cs += CipherSuite.getDheDsaSuites(s, version)
    cs += CipherSuite.getCertSuites(s, version)
    return CipherSuite.filterForVersion(cs, minVersion=version, maxVersion=version)


def server_candidates(scfg, ver, ch):
    """suites the server would consider for a NEW negotiation: its list for the version, restricted to the PRF hashes of
    the external PSKs the client names (tlsconnection._server_select_certificate)"""
    cand = server_allowed(scfg, ver)
    if ver >= (3, 4) and scfg.psk and ch.get("psk"):
        prfs = [c for a, _, c in scfg.psk if bytes(a) in ch["psk"]]
        if prfs:
            narrowed = [s for s in cand if suite_hash(s) in prfs]
            # narrowed only when a narrowed suite is on the client's offer (a certificate is always configured here);
            # otherwise the server falls back to a certificate handshake (RFC 8446 4.2.11)
            if any(s in ch.get("suites", []) for s in narrowed):
                cand = narrowed
    return cand


def negotiated_version(c, s):
    """highest version in both ranges, None if disjoint"""
    lo = max(c.minv, s.minv)
    hi = min(c.maxv, s.maxv)
    return hi if lo <= hi else None


def suite_hash(suite):
    from tlslite.constants import CipherSuite
    return "sha384" if suite in CipherSuite.sha384PrfSuites else "sha256"


# ---------------------------------------------------------------------------------------------
class Conn(object):
    """one connection attempt of the history"""

    def __init__(self):
        self.L = None
        self.k = None                 # index in the model's connection log (None: ValueError before sending)
        self.done = False
        self.closed = False
        self.cobj = None              # python client Session object (conn.session) when done
        self.sobj = None
        self.info = {}


class History(object):
    """runs ops on the real implementation, the Lean model and the oracle side by side"""

    def __init__(self, ctx, label):
        self.ctx = ctx
        self.label = label
        self.lc = ctx.lean()
        self.clock = Clock()
        self.ops = []                 # replayable op log (json)
        self.servers = []             # dict(cfg=SrvCfg, cache=SessionCache|None)
        self.conns = []               # Conn for every attempt that reached the wire (aligned with the model log)
        self.csess = []               # python client Session objects, index = model cheap index
        self.keyreg = {}
        self.pskreg = {}
        self.secrets = {}             # master secret bytes -> conn index where it first appeared
        self.oracle = Oracle(self)
        self.bad = False
        if self.lc is not None:
            from tlslite.constants import CipherSuite
            self.ask("reset")
            self.ask("sha384 " + ",".join(str(x) for x in sorted(CipherSuite.sha384PrfSuites)))

    # ---- plumbing
    def ask(self, line):
        if self.lc is None:
            return None
        r = self.lc.ask(line)
        if r == "bad-op":
            raise RuntimeError("lean driver rejected: " + line[:300])
        return r

    def key_id(self, k):
        return self.keyreg.setdefault(bytes(k), len(self.keyreg) + 1)

    def psk_id(self, k):
        return self.pskreg.setdefault(bytes(k), len(self.pskreg) + 1)

    def log(self, op):
        self.ops.append(op)

    def replay_dict(self, extra=None):
        d = {"stage": "history", "label": self.label, "ops": self.ops}
        if extra:
            d.update(extra)
        return d

    def disagree(self, stream, what, model, impl):
        self.bad = True
        self.ctx.disagree(stream, {"label": self.label, "at_op": len(self.ops) - 1, "what": what, "ops": self.ops},
                          model, impl)

    # ---- ops
    def new_server(self, cfg):
        from tlslite.sessioncache import SessionCache
        self.log({"op": "server", "cfg": cfg.to_json()})
        self.clock.side = "server"
        cache = SessionCache(maxEntries=cfg.cache[0], maxAge=cfg.cache[1]) if cfg.cache else None
        self.servers.append({"cfg": cfg, "cache": cache})
        self.oracle.new_server(cfg)
        if cfg.cache:
            self.ask("srv %d %d" % cfg.cache)
        else:
            self.ask("srv none")
        return len(self.servers) - 1

    def set_server(self, i, **changes):
        """server settings change (key rotation, tickets on/off, ciphers, EMS/EtM, versions)"""
        self.log({"op": "set_server", "i": i, "changes": {k: ([bytes(x).hex() for x in v] if k == "keys" else v)
                                                         for k, v in changes.items()}})
        cfg = self.servers[i]["cfg"]
        for k, v in changes.items():
            if k in ("minv", "maxv"):
                v = tuple(v)
            setattr(cfg, k, v)

    def tick(self, side, dt):
        self.log({"op": "tick", "side": side, "dt": dt})
        self.clock.now[side] += dt
        self.ask("tick %s %d" % (side[0], dt))

    def cache_fill(self, i, n):
        from tlslite.session import Session
        cache = self.servers[i]["cache"]
        if cache is None or n <= 0:
            return
        ids = [bytes(self.ctx.rng.getrandbits(8) for _ in range(32)) for _ in range(n)]
        self.log({"op": "fill", "i": i, "n": n})
        self.clock.side = "server"
        for sid in ids:
            s = Session()
            s.sessionID = bytearray(sid)
            s.resumable = True
            cache[bytearray(sid)] = s
            self.oracle.cache_insert(i, sid, None)
        self.ask("fill %d %s" % (i, ",".join(hx(x) for x in ids)))

    def tamper(self, j, kind, arg=0):
        """alter the first stored ticket of client session j (returns False if it has none)"""
        sess = self.csess[j]
        tl = sess.tls_1_0_tickets if sess.tls_1_0_tickets else (sess.tickets if sess.tickets else None)
        if not tl:
            return False
        t = tl[0]
        old = bytes(t.ticket)
        n = len(old)
        if kind == "flip_nonce":
            pos = arg % 32
        elif kind == "flip_tag":
            pos = n - 1 - (arg % 16)
        elif kind == "flip_body":
            pos = 32 + (arg % max(1, n - 48))
        else:
            pos = None
        if n < 2:
            return False
        if pos is not None:
            new = bytearray(old)
            new[pos % n] ^= 1 << (arg % 8)
            new = bytes(new)
        elif kind == "truncate":
            new = old[:max(1, n - 1 - (arg % min(n - 1, 40)))]
        elif kind == "short":
            new = old[:1 + arg % 33]
        elif kind == "extend":
            new = old + bytes([arg % 256])
        elif kind == "swap":
            # the (genuine, unaltered) ticket of ANOTHER session of this client: a ticket without its secret
            others = []
            for jj, o in enumerate(self.csess):
                ol = o.tls_1_0_tickets if sess.tls_1_0_tickets else o.tickets
                if jj != j and o is not sess and ol and bytes(ol[0].ticket) != old:
                    others.append(bytes(ol[0].ticket))
            if not others:
                return False
            new = others[arg % len(others)]
        elif kind == "foreign":
            # a well-formed ticket sealed by a server key this deployment never had
            new = self._foreign_ticket(old)
        else:
            raise ValueError(kind)
        self.log({"op": "tamper", "j": j, "kind": kind, "arg": arg})
        t.ticket = bytearray(new)
        self.oracle.tampered(j, old, new, kind)
        self.ask("tamper %d %s" % (j, hx(new)))
        return True

    def _foreign_ticket(self, old):
        rng = self.ctx.rng
        return bytes(rng.getrandbits(8) for _ in range(len(old)))

    # ---- the handshake op
    def handshake(self, srv, ccfg, offer=None, edits=(), fault_session=None):
        """one connection attempt.  offer: index of a client session (or None); edits: ClientHello edits
        (tuples) applied on the wire by a hook in the client"""
        from harness import lab
        from tlslite import messages as M
        from tlslite.constants import ExtensionType, ContentType, HandshakeType
        from tlslite.extensions import TLSExtension, SNIExtension, SessionTicketExtension
        ctx = self.ctx
        S = self.servers[srv]
        scfg = S["cfg"]
        self.log({"op": "hs", "srv": srv, "ccfg": ccfg.to_json(), "offer": offer,
                  "edits": [list(e) if isinstance(e, tuple) else e for e in edits]})
        cset = mk_settings(ccfg, False)
        sset = mk_settings(scfg, True)
        session = self.csess[offer] if offer is not None else None
        cap = {"ch": None, "sh": None, "nst": [], "smsgs": [], "ch_edited": None}

        def c_hook(kind, msg):
            if isinstance(msg, M.ClientHello) and cap["ch"] is None:
                cap["ch"] = self._hello_fields(msg)
                for e in edits:
                    self._apply_edit(msg, e)
                cap["ch_edited"] = self._hello_fields(msg)
            return [msg]

        def s_hook(kind, msg):
            if isinstance(msg, M.ServerHello):
                psk = msg.getExtension(ExtensionType.pre_shared_key)
                cap["sh"] = {"sid": bytes(msg.session_id), "suite": msg.cipher_suite,
                             "psk": psk.selected if psk is not None else None}
            if isinstance(msg, (M.NewSessionTicket, M.NewSessionTicket1_0)):
                cap["nst"].append((bytes(msg.ticket), msg.ticket_lifetime))
            if kind == "queue" or not (kind == "send" and getattr(msg, "contentType", None) == ContentType.handshake
                                       and not hasattr(msg, "handshakeType") and not isinstance(msg, M.HandshakeMsg)):
                cap["smsgs"].append(lab.msg_name(msg))
            return [msg]

        L = lab.Lab()
        lab.hook_messages(L.client.conn, c_hook)
        lab.hook_messages(L.server.conn, s_hook)
        ckw = {}
        if ccfg.cert:
            chain, key = lab.creds(ccfg.cert)
            ckw = dict(certChain=chain, privateKey=key)
        schain, skey = lab.creds("rsa")
        clock = self.clock
        conn = Conn()
        conn.L = L
        try:
            L.start_client(lambda c: side_gen(clock, "client", c.handshakeClientCert(
                session=session, settings=cset, serverName=ccfg.sni, async_=True, **ckw)))
        except ValueError:
            # raised eagerly only by generators that run code before the first yield (not the case here)
            raise
        L.start_server(lambda c: side_gen(clock, "server", c.handshakeServerAsync(
            certChain=schain, privateKey=skey, reqCert=scfg.req_cert, sessionCache=S["cache"], settings=sset)))
        L.run()
        cs, ss = end_state(L.client), end_state(L.server)
        value_error = (cap["ch"] is None and L.client.state == "error" and isinstance(L.client.exc, ValueError))
        ver = negotiated_version(ccfg, scfg)
        both = (cs == "done" and ss == "done")
        data_ok = None
        if both:
            data_ok = self._exchange(L)
            conn.done = True
            conn.cobj = L.client.conn.session
            conn.sobj = L.server.conn.session
        obs = {"c": cs, "s": ss, "cr": bool(L.client.conn.resumed) if cs == "done" else False,
               "sr": bool(L.server.conn.resumed) if ss == "done" else False, "ver": ver, "cap": cap, "both": both,
               "data_ok": data_ok, "value_error": value_error, "srv": srv, "offer": offer, "ccfg": ccfg,
               "scfg_keys": [bytes(k) for k in scfg.keys], "edits": list(edits)}
        if both:
            obs["sview"] = lab.observe(L.server.conn)
            obs["cview"] = lab.observe(L.client.conn)
            for view in (obs["sview"], obs["cview"]):
                view["cid"] = self._cid(view.get("clientCertChain"))
        conn.info = obs
        ctx.count("hs:ver=%s" % (ver,))
        ctx.count("hs:outcome=%s/%s/cr=%d/sr=%d" % (cs.split(":")[0], ss.split(":")[0], obs["cr"], obs["sr"]))
        # ---------------- model
        if value_error:
            self._model_hs(conn, obs, expect_verr=True)
            self.oracle.value_error(obs)
            ctx.case(key=("verr", self.label, len(self.ops)), nontrivial=False)
            return conn
        if cap["ch"] is None:
            # the client failed before sending for another reason: infrastructure, not a property matter
            self.disagree("client-no-hello", "client raised before ClientHello", "-", cs)
            return conn
        conn.k = len(self.conns)
        self.conns.append(conn)
        self._model_hs(conn, obs)
        self.oracle.handshake(conn, obs)
        if both:
            # register the client's session object (new objects only)
            sobj = conn.cobj
            if not any(sobj is x for x in self.csess):
                self.csess.append(sobj)
            ms = bytes(obs["sview"].get("masterSecret") or b"")
            if ms:
                self.secrets.setdefault(ms, conn.k)
        ctx.case(key=("hs", self.label, len(self.ops), cs, ss, obs["cr"], obs["sr"]),
                 sample={"label": self.label, "op": self.ops[-1], "client": cs, "server": ss, "cr": obs["cr"], "sr": obs["sr"]}
                 if ctx.evaluations % 211 == 0 else None)
        return conn

    def _cid(self, chain):
        if not chain:
            return None
        from harness import lab
        for name, cid in CID.items():
            if name is None:
                continue
            ch, _ = lab.creds(name)
            if [bytes(c.bytes) for c in ch.x509List] == list(chain):
                return cid
        return 99

    def _exchange(self, L):
        """application data both ways (also delivers TLS 1.3 NewSessionTicket messages to the client)"""
        ok = True
        for a, b, data in (("server", "client", b"pong-13"), ("client", "server", b"ping-13")):
            r = self.drive(L, a, L.end(a).conn.writeAsync(data))
            if r[0] != "ok":
                ok = False
                continue
            got = b""
            for _ in range(4):
                r = self.drive(L, b, L.end(b).conn.readAsync(max=len(data) - len(got), min=1))
                if r[0] != "ok" or r[1] is None:
                    break
                got += bytes(r[1])
                if len(got) >= len(data):
                    break
            if got != data:
                ok = False
        return ok

    def drive(self, L, who, gen):
        e = L.end(who)
        e.start(side_gen(self.clock, who, gen))
        L.run(only=(who,))
        if e.state == "done":
            return ("ok", e.result)
        if e.state == "error":
            return ("error", e.exc)
        return ("stall", e.result)

    @staticmethod
    def _hello_fields(msg):
        from tlslite.constants import ExtensionType, CipherSuite
        t = msg.getExtension(ExtensionType.session_ticket)
        p = msg.getExtension(ExtensionType.pre_shared_key)
        return {
            "sid": bytes(msg.session_id),
            "ticket": None if t is None else bytes(t.ticket),
            "psk": None if p is None else [bytes(i.identity) for i in p.identities],
            "sni": bytes(msg.server_name or b""),
            "srp": bytes(msg.srp_username or b""),
            "ems": msg.getExtension(ExtensionType.extended_master_secret) is not None,
            "etm": msg.getExtension(ExtensionType.encrypt_then_mac) is not None,
            "suites": [c for c in msg.cipher_suites if c not in (CipherSuite.TLS_EMPTY_RENEGOTIATION_INFO_SCSV,
                                                                  CipherSuite.TLS_FALLBACK_SCSV)],
        }

    @staticmethod
    def _apply_edit(msg, e):
        from tlslite.constants import ExtensionType, CipherSuite
        from tlslite.extensions import TLSExtension, SNIExtension, SessionTicketExtension
        kind = e[0]
        if msg.extensions is None:
            msg.extensions = []

        def drop(t):
            msg.extensions[:] = [x for x in msg.extensions if x.extType != t]

        if kind == "dropems":
            drop(ExtensionType.extended_master_secret)
        elif kind == "addems":
            drop(ExtensionType.extended_master_secret)
            msg.extensions.insert(0, TLSExtension().create(ExtensionType.extended_master_secret, bytearray(0)))
        elif kind == "dropetm":
            drop(ExtensionType.encrypt_then_mac)
        elif kind == "addetm":
            drop(ExtensionType.encrypt_then_mac)
            msg.extensions.insert(0, TLSExtension().create(ExtensionType.encrypt_then_mac, bytearray(0)))
        elif kind == "setsni":
            drop(ExtensionType.server_name)
            if e[1]:
                msg.extensions.insert(0, SNIExtension().create(bytearray(e[1].encode("ascii"))))
        elif kind == "setsuites":
            msg.cipher_suites = [CipherSuite.TLS_EMPTY_RENEGOTIATION_INFO_SCSV] + list(e[1])
        elif kind == "setsid":
            msg.session_id = bytearray(bytes.fromhex(e[1]))
        elif kind == "badbinder":
            psk = msg.getExtension(ExtensionType.pre_shared_key)
            if psk is not None and e[1] < len(psk.binders):
                b = bytearray(psk.binders[e[1]])
                b[0] ^= 1
                psk.binders[e[1]] = b
        elif kind == "setticket":
            drop(ExtensionType.session_ticket)
            if e[1] is not None:
                msg.extensions.insert(0, SessionTicketExtension().create(bytearray(bytes.fromhex(e[1]))))
        else:
            raise ValueError(e)

    # ---- model side of a handshake
    def _model_hs(self, conn, obs, expect_verr=False):
        if self.lc is None:
            return
        from tlslite.constants import CipherSuite
        ccfg = obs["ccfg"]
        scfg = self.servers[obs["srv"]]["cfg"]
        cap = obs["cap"]
        ver = obs["ver"] or (3, 3)
        cset = mk_settings(ccfg, False).validate()
        csuites = []
        csuites += CipherSuite.getTLS13Suites(cset)
        csuites += CipherSuite.getEcdsaSuites(cset)
        csuites += CipherSuite.getEcdheCertSuites(cset)
        csuites += CipherSuite.getDheCertSuites(cset)
        csuites += CipherSuite.getCertSuites(cset)
        csuites += CipherSuite.getDheDsaSuites(cset)
        allowed = server_allowed(scfg, ver)
        ch = cap["ch_edited"] or {}
        # what a full handshake negotiates: the server's first allowed suite the client offers (server preference)
        cand = server_candidates(scfg, ver, ch)
        pred = next((s for s in cand if s in ch.get("suites", [])), 0)
        neg_fail = not pred
        sh = cap["sh"]
        sview = obs.get("sview") or {}
        full_like = obs["both"] and not obs["sr"] and not (ver >= (3, 4))
        nsuite = sh["suite"] if (sh and (ver >= (3, 4) or not self._abbreviated(cap))) else pred
        if sh and ver >= (3, 4) and pred and sh["suite"] != pred:
            self.ctx.count("note:suite-prediction-differs")      # only used when no ServerHello was seen
        nems = bool(sview.get("session_ems")) if full_like else (scfg.ems and ch.get("ems", False))
        netm = bool(sview.get("session_etm")) if full_like else False
        ncid = CID[ccfg.cert] if (scfg.req_cert and ccfg.cert) else None
        newsid = sh["sid"] if (sh and ver < (3, 4)) else b""
        fsid = (cap["ch"] or {}).get("sid", b"")

        def pskfmt(lst):
            return ";".join("%s:%d:%s" % (hx(a), self.psk_id(b), "384" if c == "sha384" else "256") for a, b, c in lst) or "-"

        def modes(l):
            return ",".join({"psk_ke": "0", "psk_dhe_ke": "1"}[m] for m in l) or "-"

        def edits_fmt(es):
            out = []
            for e in es:
                if e[0] == "setsni":
                    out.append("setsni:" + hx((e[1] or "").encode("ascii")))
                elif e[0] == "setsuites":
                    out.append("setsuites:" + (",".join(str(x) for x in e[1]) or "-"))
                elif e[0] == "setsid":
                    out.append("setsid:" + (e[1] or "-"))
                elif e[0] == "setticket":
                    out.append("setticket:" + ("none" if e[1] is None else (e[1] or "-")))
                elif e[0] == "badbinder":
                    out.append("badbinder:%d" % e[1])
                else:
                    out.append(e[0])
            return ";".join(out) or "-"

        nl = lambda l: ",".join(str(x) for x in l) or "-"
        line = ("hs srv=%d cmax=%d.%d csuites=%s cems=%d cetm=%d cpsk=%s cmodes=%s srp=- sni=%s offer=%s edits=%s "
                "keys=%s life=%d tcount=%d allowed=%s spsk=%s smodes=%s cert=1 ver=%d.%d fsid=%s nsuite=%d nems=%d netm=%d "
                "ncid=%s newsid=%s nst=%s nf=%d") % (
            obs["srv"], ccfg.maxv[0], ccfg.maxv[1], nl(csuites), ccfg.ems, ccfg.etm, pskfmt(ccfg.psk), modes(ccfg.psk_modes),
            hx((ccfg.sni or "").encode("ascii")), "-" if obs["offer"] is None else str(obs["offer"]), edits_fmt(obs["edits"]),
            nl(self.key_id(k) for k in scfg.keys), scfg.life, scfg.tcount, nl(allowed), pskfmt(scfg.psk), modes(scfg.psk_modes),
            ver[0], ver[1], hx(fsid), nsuite, nems, netm, "-" if ncid is None else str(ncid), hx(newsid),
            ",".join(hx(t) for t, _ in cap["nst"]) or "-", int(neg_fail))
        reply = self.ask(line)
        self.ctx.compared()
        conn.info["model"] = reply
        if expect_verr or reply == "verr":
            if not (expect_verr and reply == "verr"):
                self.disagree("value-error", "client ValueError before sending", reply, "verr" if expect_verr else obs["c"])
            return
        m = dict(tok.split("=", 1) for tok in reply.split(" "))
        conn.info["m"] = m
        # 1. the ClientHello as built
        chh = cap["ch"]
        impl_hello = {"sid": hx(chh["sid"]), "tkt": "none" if chh["ticket"] is None else hx(chh["ticket"]),
                      "psk": "none" if chh["psk"] is None else "%d:%s" % (len(chh["psk"]), hx(chh["psk"][0]) if chh["psk"] else "-"),
                      "sni": hx(chh["sni"]), "ems": str(int(chh["ems"])), "etm": str(int(chh["etm"]))}
        mh = {k: m[k] for k in impl_hello}
        if mh != impl_hello:
            self.disagree("client-hello", "offer", mh, impl_hello)
        # 2. the server's decision
        impl_dec = self._impl_decision(obs)
        mdec = m["dec"].split(":")[0] if not m["dec"].startswith("alert") else m["dec"]
        if impl_dec is not None and mdec != impl_dec:
            self.disagree("server-decision", "decision", m["dec"], impl_dec)
        # 3. end states and flags
        impl_out = {"c": obs["c"], "cr": str(int(obs["cr"])), "s": obs["s"], "sr": str(int(obs["sr"]))}
        mo = {k: m[k] for k in impl_out}
        if mo != impl_out:
            self.disagree("outcome", "end states / resumed flags", mo, impl_out)
        # 4. parameters and secret lineage when both ends completed
        if obs["both"] and m["p"] != "-":
            sv = obs["sview"]
            impl_p = "%d,%d,%d,%s,%s" % (sv["cipherSuite"], int(bool(sv["session_ems"])), int(bool(sv["session_etm"])),
                                         hx((sv["serverName"] or "").encode("ascii")), "-" if sv["cid"] is None else str(sv["cid"]))
            if m["p"] != impl_p:
                self.disagree("parameters", "server-side session parameters", m["p"], impl_p)
            cv = obs["cview"]
            if (cv["cipherSuite"], bool(cv["session_ems"]), bool(cv["session_etm"])) != \
                    (sv["cipherSuite"], bool(sv["session_ems"]), bool(sv["session_etm"])):
                self.disagree("parameters", "client vs server session parameters", "equal",
                              [cv["cipherSuite"], cv["session_ems"], cv["session_etm"]])
            if ver < (3, 4):
                ms = bytes(sv.get("masterSecret") or b"")
                origin = self.secrets.get(ms, conn.k)
                if str(origin) != m["ss"] or str(origin) != m["cs"]:
                    self.disagree("secret-lineage", "master secret origin", [m["ss"], m["cs"]], origin)
                if bytes(cv.get("masterSecret") or b"") != ms:
                    self.disagree("secret-lineage", "client and server master secrets", "equal", "differ")
        elif obs["both"] != (m["p"] != "-"):
            self.disagree("outcome", "completion", m["p"], obs["both"])

    @staticmethod
    def _abbreviated(cap):
        names = cap["smsgs"]
        if "handshake:server_hello" not in names:
            return False
        i = names.index("handshake:server_hello")
        return i + 1 < len(names) and names[i + 1] == "change_cipher_spec"

    def _impl_decision(self, obs):
        cap = obs["cap"]
        ver = obs["ver"] or (3, 3)
        scfg = self.servers[obs["srv"]]["cfg"]
        if cap["sh"] is None:
            if obs["s"].startswith("local_alert:"):
                return "alert:" + obs["s"].split(":", 1)[1]
            return None
        if ver >= (3, 4):
            sel = cap["sh"]["psk"]
            if sel is None:
                # the kex-mode failure comes after the decision proper
                return "full" if not obs["s"].startswith("local_alert:") else "alert:" + obs["s"].split(":", 1)[1]
            ident = (cap["ch_edited"]["psk"] or [b""])[sel] if sel < len(cap["ch_edited"]["psk"] or []) else b""
            return "ext" if any(bytes(a) == ident for a, _, _ in scfg.psk) else "resume"
        return "resume" if self._abbreviated(cap) else "full"

    # ---- closing a connection
    def close(self, k, kind):
        """kind: clean | fatal_c2s | fatal_s2c | fatal_server_only | fatal_client_only | abrupt_both | abrupt_client |
        abrupt_server | abrupt_ignored"""
        conn = self.conns[k]
        if conn.closed or not conn.done:
            return
        self.log({"op": "close", "k": k, "kind": kind})
        conn.closed = True
        L = conn.L
        rng = self.ctx.rng
        cconn, sconn = L.client.conn, L.server.conn
        cf = sf = False

        def junk(direction, version):
            body = bytes(rng.getrandbits(8) for _ in range(48))
            v = (3, 3) if version >= (3, 4) else version
            L.link.inject(direction, bytes([23, v[0], v[1], 0, len(body)]) + body)

        ver = tuple(sconn.version)
        if kind == "clean":
            self.drive(L, "client", cconn.closeAsync())
            self.drive(L, "server", sconn.readAsync(max=1, min=1))
        elif kind in ("fatal_c2s", "fatal_server_only"):
            junk("c2s", ver)
            r = self.drive(L, "server", sconn.readAsync(max=1, min=1))
            sf = True
            if kind == "fatal_c2s":
                self.drive(L, "client", cconn.readAsync(max=1, min=1))
                cf = True
        elif kind in ("fatal_s2c", "fatal_client_only"):
            junk("s2c", ver)
            self.drive(L, "client", cconn.readAsync(max=1, min=1))
            cf = True
            if kind == "fatal_s2c":
                self.drive(L, "server", sconn.readAsync(max=1, min=1))
                sf = True
        elif kind in ("abrupt_both", "abrupt_client", "abrupt_server", "abrupt_ignored"):
            L.link.closed["c2s"] = True
            L.link.closed["s2c"] = True
            if kind == "abrupt_ignored":
                cconn.ignoreAbruptClose = True
                sconn.ignoreAbruptClose = True
            if kind in ("abrupt_both", "abrupt_client", "abrupt_ignored"):
                self.drive(L, "client", cconn.readAsync(max=1, min=1))
                cf = kind != "abrupt_ignored"
            if kind in ("abrupt_both", "abrupt_server", "abrupt_ignored"):
                self.drive(L, "server", sconn.readAsync(max=1, min=1))
                sf = kind != "abrupt_ignored"
        else:
            raise ValueError(kind)
        self.ctx.count("close:" + kind)
        self.oracle.closed(conn, cf, sf)
        # model + correspondence of the resumable flags
        if self.lc is not None:
            self.ask("close %d %d %d" % (k, int(cf), int(sf)))
            r = self.ask("conn %d" % k)
            m = dict(t.split("=", 1) for t in r.split(" "))
            self.ctx.compared()
            for side, key, obj in (("c", "cobj", conn.cobj), ("s", "sobj", conn.sobj)):
                if m[key] == "-" or obj is None:
                    if (m[key] == "-") != (obj is None):
                        self.disagree("close", "session object presence " + side, m[key], obj is not None)
                    continue
                rr = dict(t.split("=", 1) for t in self.ask("sess %s %s" % (side, m[key])).split(" "))
                if rr["resumable"] != str(int(bool(obj.resumable))):
                    self.disagree("close", "resumable after close %s (%s side)" % (kind, side), rr["resumable"], bool(obj.resumable))
        conn.L = None       # free the endpoints

    def finish(self):
        self.clock.uninstall()


# ---------------------------------------------------------------------------------------------
class Oracle(object):
    """Independent bookkeeping straight from the property text.  Never looks at Session.resumable,
    SessionCache contents, ticket plaintext or the model."""

    def __init__(self, hist):
        self.h = hist
        self.ctx = hist.ctx
        self.servers = []          # per instance: {"inserts": [(sid, t)], "cap", "age"}
        self.sessions = []         # by client session index: dict (see _new_session)
        self.tickets = {}          # ticket bytes -> {"sess": idx, "key": bytes, "issued": t_server, "life": n, "ver": v}
        self.altered = set()       # ticket bytes produced by tampering

    def new_server(self, cfg):
        self.servers.append({"inserts": [], "cap": cfg.cache[0] if cfg.cache else 0, "age": cfg.cache[1] if cfg.cache else 0})

    def cache_insert(self, i, sid, sess):
        self.servers[i]["inserts"].append((bytes(sid), self.h.clock.now["server"]))

    def tampered(self, j, old, new, kind):
        if kind != "swap":
            self.altered.add(bytes(new))

    def value_error(self, obs):
        pass

    def closed(self, conn, cf, sf):
        """a connection using session σ ended; fatal/abrupt endings invalidate σ on the side that saw them"""
        j = conn.info.get("oracle_sess")
        if j is None:
            return
        s = self.sessions[j]
        if cf:
            s["inval_c"] = True
        if sf and conn.info.get("oracle_server_shares_object"):
            s["inval_s"] = True

    # -- classification of what the ClientHello offers
    def _credential(self, obs):
        """(mechanism, session index or None, status, reasons) for the credential the hello presents;
        status in eligible | bad | inconsistent | unspecified | none"""
        h = self.h
        cap = obs["cap"]
        ch = cap["ch_edited"]
        ver = obs["ver"]
        srv = obs["srv"]
        scfg = h.servers[srv]["cfg"]
        now_s = h.clock.now["server"]
        reasons = []
        unspecified = False
        if ver is None:
            return ("none", None, "none", [])
        if ver >= (3, 4):
            ids = ch["psk"] or []
            ext = [bytes(a) for a, _, _ in scfg.psk]
            tick = [i for i in ids if i not in ext]
            if not tick:
                return ("none", None, "none", [])
            t = tick[0]
            mech = "psk13"
        elif ch["ticket"]:
            t = ch["ticket"]
            mech = "ticket12"
        elif ch["sid"] and ch["ticket"] in (None, b""):
            mech = "sid"
            t = None
        else:
            return ("none", None, "none", [])
        if mech == "sid":
            sid = ch["sid"]
            j = next((i for i, s in enumerate(self.sessions) if s["sid"] == sid and s["srv"] == srv), None)
            O = self.servers[srv]
            if j is None or not O["cap"]:
                return (mech, None, "bad", ["unknown-session-id"])
            s = self.sessions[j]
            ins = [x for x in O["inserts"]]
            pos = next((i for i, x in enumerate(ins) if x[0] == sid), None)
            if pos is None:
                return (mech, None, "bad", ["unknown-session-id"])
            later = len(ins) - 1 - pos
            if later >= O["cap"] - 1:
                reasons.append("evicted")
            age = now_s - ins[pos][1]
            if age > O["age"]:
                reasons.append("expired")
        else:
            rec = self.tickets.get(bytes(t))
            if rec is None:
                return (mech, None, "bad", ["altered-or-forged-ticket" if bytes(t) in self.altered else "unknown-ticket"])
            j = rec["sess"]
            s = self.sessions[j]
            if obs["offer"] is not None and obs["offer"] != j:
                # a genuine ticket, but not of the session (secret) the client holds: nothing to fall back from
                # cleanly (the server cannot know), but it must never yield a resumed connection
                return (mech, j, "inconsistent", ["ticket-of-another-session"])
            if any(e[0] == "badbinder" and e[1] == 0 for e in obs["edits"]):
                return (mech, j, "inconsistent", ["binder-invalid"])
            if rec["key"] not in [bytes(k) for k in scfg.keys]:
                reasons.append("key-not-current")
            age = now_s - rec["issued"]
            if age > rec["life"]:
                reasons.append("expired")
            elif age == rec["life"] or rec["life"] != scfg.life:
                unspecified = unspecified or (age >= min(rec["life"], scfg.life))
            if (mech == "psk13") != (rec["ver"] >= (3, 4)):
                reasons.append("ticket-of-other-protocol-version")
        if s["inval_c"] or (mech == "sid" and s["inval_s"]):
            reasons.append("invalidated")
        if reasons:
            return (mech, j, "bad", reasons)
        # consistency of the hello with the session
        inc = []
        if mech == "psk13":
            # RFC 8446: the PSK is bound to the hash, the suite is negotiated anew; a PSK can only be used with a
            # key-exchange mode both sides accept
            if cap["sh"] is not None and suite_hash(cap["sh"]["suite"]) != suite_hash(s["suite"]):
                inc.append("prf-hash-differs")
            if not [m for m in obs["ccfg"].psk_modes if m in scfg.psk_modes]:
                inc.append("no-common-psk-mode")
                self.ctx.count("observation:tls13-no-common-psk-mode-gives-handshake_failure-instead-of-full-handshake"
                               if not obs["both"] else "observation:tls13-no-common-psk-mode-full-handshake")
        else:
            from tlslite.constants import CipherSuite
            if s["suite"] not in ch["suites"]:
                inc.append("suite-not-offered")
            if CipherSuite.canonicalCipherName(s["suite"]) not in scfg.ciphers:
                inc.append("suite-no-longer-allowed")
            if ver == (3, 0) and False:
                pass
            if ch["sni"] and ch["sni"] != (s["sni"] or "").encode("ascii"):
                inc.append("sni-differs")
            if s["ems"] != ch["ems"]:
                inc.append("ems-differs")
            if s["etm"] and not ch["etm"]:
                inc.append("etm-dropped")
            if s["ver"] != ver:
                unspecified = True         # the property text does not speak about version changes
        if inc:
            return (mech, j, "inconsistent", inc)
        if unspecified:
            return (mech, j, "unspecified", [])
        return (mech, j, "eligible", [])

    def handshake(self, conn, obs):
        ctx = self.ctx
        h = self.h
        ver = obs["ver"]
        if ver is None:
            return
        mech, j, status, reasons = self._credential(obs)
        cap = obs["cap"]
        conn.info["oracle"] = (mech, j, status, reasons)
        ctx.count("oracle:%s/%s" % (mech, status))
        for r in reasons:
            ctx.count("oracle-reason:" + r)
        resumed_any = obs["cr"] or obs["sr"]
        really_resumed = resumed_any
        if ver >= (3, 4) and obs["both"] and cap["sh"] and cap["sh"]["psk"] is not None and mech == "psk13":
            ids = cap["ch_edited"]["psk"] or []
            sel = cap["sh"]["psk"]
            scfg = h.servers[obs["srv"]]["cfg"]
            if sel < len(ids) and ids[sel] not in [bytes(a) for a, _, _ in scfg.psk]:
                really_resumed = True
        rep = lambda extra: h.replay_dict(dict(extra, mechanism=mech, status=status, reasons=reasons, client=obs["c"],
                                               server=obs["s"], client_resumed=obs["cr"], server_resumed=obs["sr"]))
        vname = "tls13" if ver >= (3, 4) else "tls12"
        # R3/R4 speak about falling back to a full handshake: only meaningful when the two configurations admit one
        full_possible = any(x in server_candidates(h.servers[obs["srv"]]["cfg"], ver, cap["ch_edited"])
                            for x in cap["ch_edited"]["suites"])
        if not full_possible:
            ctx.count("oracle:no-common-suite")
        # R1: resumed only from an eligible session
        if really_resumed and status in ("bad", "inconsistent", "none"):
            if "expired" in reasons and mech in ("psk13", "ticket12"):
                key = "c13:%s-ticket-lifetime-not-enforced" % vname
            elif "invalidated" in reasons:
                key = "c13:resumed-invalidated-session"
            elif "key-not-current" in reasons:
                key = "c13:resumed-under-removed-ticket-key"
            elif status == "inconsistent":
                key = "c13:resumed-inconsistent-hello:" + reasons[0]
            else:
                key = "c13:resumed-from-ineligible:" + (reasons[0] if reasons else mech)
            ctx.violation(key, "%s connection reports resumed (client=%s server=%s) although the offered %s credential is %s %s"
                          % (vname, obs["cr"], obs["sr"], mech, status, reasons), rep({"rule": "R1"}))
        # R1b: the resumed connection has the original's parameters
        if really_resumed and obs["both"] and j is not None:
            s = self.sessions[j]
            sv = obs["sview"]
            diffs = []
            if ver >= (3, 4):
                if suite_hash(sv["cipherSuite"]) != suite_hash(s["suite"]):
                    diffs.append("prf-hash")
                if sv["cipherSuite"] != s["suite"]:
                    ctx.count("observation:tls13-resumed-with-different-suite-same-hash")
            else:
                if sv["cipherSuite"] != s["suite"]:
                    diffs.append("cipher-suite")
                if bool(sv["session_ems"]) != s["ems"]:
                    diffs.append("ems")
                if bool(sv["session_etm"]) != s["etm"]:
                    diffs.append("etm")
                if (sv["serverName"] or "") != (s["sni"] or ""):
                    diffs.append("server-name")
                if bytes(sv["masterSecret"] or b"") != s["ms"]:
                    diffs.append("master-secret")
                cv = obs["cview"]
                if cv["cipherSuite"] != s["suite"] or bytes(cv["masterSecret"] or b"") != s["ms"]:
                    diffs.append("client-side-session")
                if L_etm(conn) is not None and L_etm(conn) != s["etm"]:
                    diffs.append("record-layer-etm")
            if sv["cid"] != s["cid"]:
                diffs.append("client-identity")
            if diffs:
                ctx.violation("c13:resumed-parameters-differ:" + diffs[0],
                              "resumed %s connection differs from the original session in %s" % (vname, diffs),
                              rep({"rule": "R1b", "diffs": diffs}))
        # R1b': a connection that is NOT resumed has exactly the client identity proven in THIS handshake
        if obs["both"] and not really_resumed:
            scfg0 = h.servers[obs["srv"]]["cfg"]
            psk_used = ver >= (3, 4) and cap["sh"] is not None and cap["sh"]["psk"] is not None
            proven = CID[obs["ccfg"].cert] if (scfg0.req_cert and obs["ccfg"].cert and not psk_used) else None
            if obs["sview"]["cid"] != proven:
                ctx.violation("c13:non-resumed-connection-inherits-client-identity",
                              "%s: the handshake was not resumed (offered %s credential: %s %s) and the client proved identity %s "
                              "in it, but the server's session reports client identity %s"
                              % (vname, mech, status, reasons, proven, obs["sview"]["cid"]), rep({"rule": "R1b'"}))
        # R2: both ends agree on `resumed`
        if obs["both"] and obs["cr"] != obs["sr"]:
            if ver >= (3, 4) and obs["cr"] and not obs["sr"]:
                key = "c13:tls13-server-resumed-flag-false"
            else:
                key = "c13:resumed-flags-disagree"
            ctx.violation(key, "%s: client.resumed=%s but server.resumed=%s after a completed handshake"
                          % (vname, obs["cr"], obs["sr"]), rep({"rule": "R2"}))
        # R3: a bad credential never resumes and never breaks the connection
        if status == "bad" and not obs["both"] and full_possible:
            if mech == "ticket12" and obs["c"] == "local_alert:unexpected_message":
                key = "c13:tls12-client-aborts-when-ticket-declined"
            elif mech == "ticket12" and obs["c"] == "local_alert:illegal_parameter" and not self._abbrev(cap):
                key = "c13:tls12-client-aborts-when-ticket-declined"
            else:
                key = "c13:bad-credential-breaks-connection:" + mech
            ctx.violation(key, "%s: a %s credential that is %s broke the connection (client %s, server %s) instead of "
                               "falling back to a full handshake" % (vname, mech, reasons, obs["c"], obs["s"]), rep({"rule": "R3"}))
        # R4: an eligible credential resumes or falls back; it never breaks the connection
        if status == "eligible" and not obs["both"] and not obs["edits"] and full_possible:
            ctx.violation("c13:eligible-resumption-broken:" + mech,
                          "%s: offering an eligible %s credential broke the connection (client %s, server %s)"
                          % (vname, mech, obs["c"], obs["s"]), rep({"rule": "R4"}))
        # R5: data flows on every completed connection
        if obs["both"] and obs["data_ok"] is False:
            ctx.violation("c13:completed-connection-unusable", "application data did not pass after a completed handshake",
                          rep({"rule": "R5"}))
        # ---- bookkeeping of what this connection creates
        if not obs["both"]:
            return
        sv = obs["sview"]
        srv = obs["srv"]
        scfg = h.servers[srv]["cfg"]
        cobj = conn.cobj
        if ver < (3, 4) and really_resumed and j is not None:
            conn.info["oracle_sess"] = j
            conn.info["oracle_server_shares_object"] = (mech == "sid")
            return
        # a new session (full handshake, or any TLS 1.3 handshake)
        idx = len(self.sessions)
        sid = bytes(sv["sessionID"] or b"") if ver < (3, 4) else b""
        self.sessions.append({"conn": conn.k, "srv": srv, "sid": sid or None, "suite": sv["cipherSuite"],
                              "ems": bool(sv["session_ems"]), "etm": bool(sv["session_etm"]), "sni": sv["serverName"] or "",
                              "cid": sv["cid"], "ms": bytes(sv["masterSecret"] or b""), "ver": ver,
                              "inval_c": False, "inval_s": False})
        conn.info["oracle_sess"] = idx
        conn.info["oracle_server_shares_object"] = True
        if sid and scfg.cache:
            self.cache_insert(srv, sid, idx)
        for t, life in cap["nst"]:
            self.tickets[bytes(t)] = {"sess": idx, "key": bytes(scfg.keys[0]) if scfg.keys else b"", "issued": h.clock.now["server"],
                                      "life": life, "ver": ver}

    @staticmethod
    def _abbrev(cap):
        return History._abbreviated(cap)


def L_etm(conn):
    try:
        return bool(conn.L.server.conn._recordLayer.encryptThenMAC)
    except Exception:
        return None


# ---------------------------------------------------------------------------------------------
# histories
K = [bytes([i + 1]) * 32 for i in range(6)]          # ticket keys (aes256gcm needs 32 bytes)
CLOSE_KINDS = ["clean", "fatal_c2s", "fatal_s2c", "fatal_server_only", "fatal_client_only", "abrupt_both",
               "abrupt_client", "abrupt_server", "abrupt_ignored"]
TAMPER_KINDS = ["flip_nonce", "flip_tag", "flip_body", "truncate", "short", "extend", "foreign", "swap"]


def base_cfgs(ver, mech, life=1000, cap=4, age=600, ciphers=None, sni="host.example", **kw):
    """server and client configuration for one version and mechanism
    mech: id | ticket | both | psk13 | none"""
    ciphers = ciphers or CIPHERS_BY_VER[ver]
    keys = [K[0]] if mech in ("ticket", "both", "psk13") else []
    cache = (cap, age) if mech in ("id", "both") else None
    scfg = SrvCfg(ver, ver, ciphers, keys, life, 2 if ver >= (3, 4) else 1, cache, **kw)
    ccfg = CliCfg(ver, ver, ciphers, sni=None if ver == (3, 0) else sni)
    return scfg, ccfg


def mechs_for(ver):
    if ver >= (3, 4):
        return ["psk13"]
    if ver == (3, 0):
        return ["id"]                 # SSLv3 ClientHello carries no extensions: no tickets
    return ["id", "ticket", "both"]


def last_session(h):
    return len(h.csess) - 1 if h.csess else None


def scenario_happy(h, ver, mech):
    scfg, ccfg = base_cfgs(ver, mech)
    s = h.new_server(scfg)
    c0 = h.handshake(s, ccfg)
    j = last_session(h)
    if j is None:
        return
    h.close(c0.k, "clean")
    c1 = h.handshake(s, ccfg, offer=j)
    c2 = h.handshake(s, ccfg, offer=j)           # the original is offered while c1 is still open
    if c1.k is not None:
        h.close(c1.k, "clean")
    j2 = last_session(h)
    h.tick("client", 5)
    h.tick("server", 5)
    h.handshake(s, ccfg, offer=j2)               # TLS 1.3: the session of the resumed connection
    if c2.k is not None:
        h.close(c2.k, "abrupt_ignored")
    h.handshake(s, ccfg, offer=j)


def scenario_close(h, ver, mech, kind):
    scfg, ccfg = base_cfgs(ver, mech)
    s = h.new_server(scfg)
    c0 = h.handshake(s, ccfg)
    j = last_session(h)
    if j is None:
        return
    h.close(c0.k, kind)
    h.handshake(s, ccfg, offer=j)
    h.handshake(s, ccfg, offer=j)


def scenario_close_resumed(h, ver, mech, kind):
    """the fatal error happens on a RESUMED connection: the original session dies with it"""
    scfg, ccfg = base_cfgs(ver, mech)
    s = h.new_server(scfg)
    c0 = h.handshake(s, ccfg)
    j = last_session(h)
    if j is None:
        return
    h.close(c0.k, "clean")
    c1 = h.handshake(s, ccfg, offer=j)
    if c1.k is not None:
        h.close(c1.k, kind)
    h.handshake(s, ccfg, offer=j)


def scenario_expiry(h, ver, mech, dts, dtc):
    scfg, ccfg = base_cfgs(ver, mech, life=100, age=100)
    s = h.new_server(scfg)
    c0 = h.handshake(s, ccfg)
    j = last_session(h)
    if j is None:
        return
    h.close(c0.k, "clean")
    if dtc:
        h.tick("client", dtc)
    if dts:
        h.tick("server", dts)
    h.handshake(s, ccfg, offer=j)
    h.handshake(s, ccfg, offer=j)


def scenario_rotate(h, ver, mech):
    scfg, ccfg = base_cfgs(ver, mech)
    s = h.new_server(scfg)
    c0 = h.handshake(s, ccfg)
    j = last_session(h)
    if j is None:
        return
    h.close(c0.k, "clean")
    h.set_server(s, keys=[K[1], K[0]])            # roll over: new key first, old one still accepted
    h.handshake(s, ccfg, offer=j)
    h.set_server(s, keys=[K[2], K[1], K[0]])
    h.handshake(s, ccfg, offer=j)
    h.set_server(s, keys=[K[2], K[1]])            # the issuing key is gone
    h.handshake(s, ccfg, offer=j)
    h.set_server(s, keys=[])                      # tickets disabled
    h.handshake(s, ccfg, offer=j)
    h.set_server(s, keys=[K[0]])                  # and back
    h.handshake(s, ccfg, offer=j)
    h.set_server(s, tcount=0)
    h.handshake(s, ccfg, offer=j)


def scenario_evict(h, ver, mech, n1, n2):
    scfg, ccfg = base_cfgs(ver, mech, cap=4)
    s = h.new_server(scfg)
    c0 = h.handshake(s, ccfg)
    j = last_session(h)
    if j is None:
        return
    h.close(c0.k, "clean")
    h.cache_fill(s, n1)
    h.handshake(s, ccfg, offer=j)
    h.cache_fill(s, n2)
    h.handshake(s, ccfg, offer=j)


def scenario_tamper(h, ver, mech, kind, arg):
    scfg, ccfg = base_cfgs(ver, mech)
    s = h.new_server(scfg)
    c0 = h.handshake(s, ccfg)
    j = last_session(h)
    if j is None:
        return
    h.close(c0.k, "clean")
    if not h.tamper(j, kind, arg):
        return
    h.handshake(s, ccfg, offer=j)
    h.handshake(s, ccfg, offer=j)


def scenario_swap(h, ver, mech, same_suite):
    """a genuine ticket of another session is offered by a client that holds a different secret"""
    scfg, ccfg = base_cfgs(ver, mech)
    s = h.new_server(scfg)
    c0 = h.handshake(s, ccfg)
    j0 = last_session(h)
    c2cfg = CliCfg.from_json(ccfg.to_json())
    if not same_suite:
        c2cfg.ciphers = list(reversed(c2cfg.ciphers))[:1]
    c1 = h.handshake(s, c2cfg)
    j1 = last_session(h)
    if j0 is None or j1 is None or j0 == j1:
        return
    h.close(c0.k, "clean")
    h.close(c1.k, "clean")
    if not h.tamper(j1, "swap", 0):
        return
    h.handshake(s, c2cfg, offer=j1)
    h.handshake(s, ccfg, offer=j0)


def scenario_binder(h, i):
    ver = (3, 4)
    scfg, ccfg = base_cfgs(ver, "psk13")
    s = h.new_server(scfg)
    c0 = h.handshake(s, ccfg)
    j = last_session(h)
    if j is None:
        return
    h.close(c0.k, "clean")
    h.handshake(s, ccfg, offer=j, edits=[("badbinder", i)])
    h.handshake(s, ccfg, offer=j)


def scenario_edit(h, ver, mech, edits, cems=True, cetm=True, ciphers=None):
    scfg, ccfg = base_cfgs(ver, mech, ciphers=ciphers)
    ccfg.ems, ccfg.etm = cems, cetm
    s = h.new_server(scfg)
    c0 = h.handshake(s, ccfg)
    j = last_session(h)
    if j is None:
        return
    h.close(c0.k, "clean")
    h.handshake(s, ccfg, offer=j, edits=edits)
    h.handshake(s, ccfg, offer=j)


def scenario_settings(h, ver, mech, what):
    scfg, ccfg = base_cfgs(ver, mech)
    s = h.new_server(scfg)
    c0 = h.handshake(s, ccfg)
    j = last_session(h)
    if j is None:
        return
    h.close(c0.k, "clean")
    used = c0.info["sview"]["cipherSuite"]
    from tlslite.constants import CipherSuite
    name = CipherSuite.canonicalCipherName(used)
    others = [c for c in CIPHERS_BY_VER[ver] if c != name]
    c2 = CliCfg.from_json(ccfg.to_json())
    if what == "server-drops-suite":
        h.set_server(s, ciphers=others)
    elif what == "client-drops-suite":
        c2.ciphers = others
    elif what == "client-drops-ems":
        c2.ems = False
    elif what == "client-drops-etm":
        c2.etm = False
    elif what == "server-drops-ems":
        h.set_server(s, ems=False)
    elif what == "server-drops-etm":
        h.set_server(s, etm=False)
    elif what == "lower-version" and ver > (3, 1):
        lower = (3, ver[1] - 1)
        h.set_server(s, minv=lower, ciphers=CIPHERS_BY_VER[lower] + [c for c in scfg.ciphers if c not in CIPHERS_BY_VER[lower]])
        c2.minv, c2.maxv = lower, lower
        c2.ciphers = list(h.servers[s]["cfg"].ciphers)
    elif what == "higher-version" and ver < (3, 4):
        higher = (3, ver[1] + 1)
        h.set_server(s, maxv=higher, ciphers=scfg.ciphers + [c for c in CIPHERS_BY_VER[higher] if c not in scfg.ciphers])
        c2.maxv = higher
        c2.ciphers = list(h.servers[s]["cfg"].ciphers)
        if ver == (3, 0):
            c2.sni = None
    elif what == "server-psk-ke-only":
        h.set_server(s, psk_modes=["psk_ke"])
    elif what == "client-psk-ke-only":
        c2.psk_modes = ["psk_ke"]
    elif what == "modes-disjoint":
        h.set_server(s, psk_modes=["psk_ke"])
        c2.psk_modes = ["psk_dhe_ke"]
    else:
        return
    h.handshake(s, c2, offer=j)
    h.handshake(s, c2, offer=j)


def scenario_client_cert(h, ver, mech, cert):
    scfg, ccfg = base_cfgs(ver, mech, req_cert=True)
    ccfg.cert = cert
    s = h.new_server(scfg)
    c0 = h.handshake(s, ccfg)
    j = last_session(h)
    if j is None:
        return
    h.close(c0.k, "clean")
    h.handshake(s, ccfg, offer=j)
    c2 = CliCfg.from_json(ccfg.to_json())
    c2.cert = None                                  # the identity comes from the session, not from this attempt
    h.handshake(s, c2, offer=j)
    j2 = last_session(h)
    h.handshake(s, c2, offer=j2)


def scenario_declined_identity(h, ver, mech, how, req_later=True):
    """first connection WITH a client certificate, then a DECLINED credential WITHOUT one: the full handshake
    that follows must not carry the old identity"""
    ciphers = None
    if how == "hash" and ver >= (3, 4):
        ciphers = ["aes256gcm", "aes128gcm"]
    scfg, ccfg = base_cfgs(ver, mech, life=100, age=100, cap=3, req_cert=True, ciphers=ciphers)
    ccfg.cert = "client_rsa"
    if how == "hash":
        ccfg.ciphers = ["aes256gcm"] if ver >= (3, 3) else ["aes256"]
    s = h.new_server(scfg)
    c0 = h.handshake(s, ccfg)
    j = last_session(h)
    if j is None:
        return
    h.close(c0.k, "clean")
    c2 = CliCfg.from_json(ccfg.to_json())
    c2.cert = None
    if how == "expired":
        h.tick("server", 101)
    elif how == "hash":
        c2.ciphers = ["aes128gcm"] if ver >= (3, 3) else ["aes128"]
    elif how == "rotated":
        h.set_server(s, keys=[K[3]])
    elif how == "evicted":
        h.cache_fill(s, 3)
    elif how in TAMPER_KINDS:
        if not h.tamper(j, how, 9):
            return
    if not req_later:
        h.set_server(s, req_cert=False)
    h.handshake(s, c2, offer=j)
    h.handshake(s, c2, offer=j)


def scenario_two_servers(h, ver, mech):
    """a session of server B (other ticket key, other cache) offered to server A and back"""
    scfg, ccfg = base_cfgs(ver, mech)
    a = h.new_server(scfg)
    scfg_b = SrvCfg.from_json(scfg.to_json())
    scfg_b.keys = [K[4]] if scfg.keys else []
    b = h.new_server(scfg_b)
    ca = h.handshake(a, ccfg)
    ja = last_session(h)
    cb = h.handshake(b, ccfg)
    jb = last_session(h)
    if ja is None or jb is None or ja == jb:
        return
    h.close(ca.k, "clean")
    h.close(cb.k, "clean")
    h.handshake(a, ccfg, offer=jb)
    h.handshake(b, ccfg, offer=ja)
    h.handshake(a, ccfg, offer=ja)
    h.handshake(b, ccfg, offer=jb)


def scenario_external_psk(h, hash_name, both_have=True, with_ticket=False):
    ver = (3, 4)
    scfg, ccfg = base_cfgs(ver, "psk13" if with_ticket else "none")
    psk = [(b"ext-identity", b"\x11" * 32, hash_name)]
    scfg.psk = list(psk)
    ccfg.psk = list(psk) if both_have else [(b"other-identity", b"\x22" * 32, hash_name)]
    s = h.new_server(scfg)
    c0 = h.handshake(s, ccfg)
    j = last_session(h)
    if j is None:
        return
    h.close(c0.k, "clean")
    h.handshake(s, ccfg, offer=j)
    h.handshake(s, ccfg)


def scripted(ctx):
    """deterministic scenarios: every rule of the property is exercised for every version and mechanism"""
    thorough = ctx.thorough()
    runs = []

    def go(fn, *a):
        if thorough and ctx.out_of_time(0.8):
            ctx.count("note:scripted-scenario-skipped-out-of-time")
            return
        label = "%s%s" % (fn.__name__, list(a))
        h = History(ctx, label)
        h.clock.install()
        try:
            fn(h, *a)
        except Exception as e:      # the machinery itself failed: surface it, never as a violation
            h.finish()
            raise
        h.finish()
        runs.append(h)

    for ver in VERSIONS:
        for mech in mechs_for(ver):
            go(scenario_happy, ver, mech)
            kinds = CLOSE_KINDS if (thorough or mech != "both") else ["fatal_c2s", "abrupt_server"]
            for kind in kinds:
                if kind == "clean":
                    continue
                go(scenario_close, ver, mech, kind)
            for kind in (["fatal_s2c", "fatal_server_only", "abrupt_both"] if thorough else ["fatal_s2c", "fatal_server_only"]):
                go(scenario_close_resumed, ver, mech, kind)
            # (server advance, client advance) around lifetime 100 / maxAge 100
            pairs = [(101, 0), (100, 0), (99, 0), (101, 50), (1000, 0)]
            if thorough:
                pairs += [(0, 99), (0, 100), (0, 101), (101, 101), (99, 99), (DAY7 + 1, 0)]
            for dts, dtc in pairs:
                go(scenario_expiry, ver, mech, dts, dtc)
            if mech != "id":
                go(scenario_rotate, ver, mech)
                tk = [(k, a) for k in TAMPER_KINDS for a in ((0, 7, 13) if thorough else (5,))]
                for kind, arg in tk:
                    go(scenario_tamper, ver, mech, kind, arg)
            if mech != "id":
                for same in (True, False):
                    go(scenario_swap, ver, mech, same)
            if mech in ("id", "both"):
                for n1, n2 in ([(2, 1), (1, 1), (3, 0)] if thorough else [(2, 1)]):
                    go(scenario_evict, ver, mech, n1, n2)
            hows = ["expired", "hash"] + (["rotated", "flip_tag", "foreign"] if mech != "id" else ["evicted"])
            for how in hows:
                if mech == "both" and not thorough and how not in ("expired", "rotated"):
                    continue
                go(scenario_declined_identity, ver, mech, how, True)
                if thorough or how in ("expired", "hash"):
                    go(scenario_declined_identity, ver, mech, how, False)
            if mech != "both" or thorough:
                go(scenario_two_servers, ver, mech)
                for cert in (["client_rsa", "client_ecdsa"] if thorough else ["client_rsa"]):
                    go(scenario_client_cert, ver, mech, cert)
            whats = ["server-drops-suite", "client-drops-suite", "client-drops-ems", "client-drops-etm", "server-drops-ems",
                     "server-drops-etm", "lower-version", "higher-version"]
            if ver >= (3, 4):
                whats = ["server-drops-suite", "client-drops-suite", "lower-version", "server-psk-ke-only",
                         "client-psk-ke-only", "modes-disjoint"]
            for what in whats:
                if mech == "both" and not thorough and what not in ("server-drops-suite", "client-drops-ems"):
                    continue
                go(scenario_settings, ver, mech, what)
            if (3, 0) < ver < (3, 4) and (mech != "both" or thorough):
                cbc = ["aes128", "aes256"]
                for edits, cems, cetm, ciph in [
                        ([("dropems",)], True, True, None), ([("addems",)], False, True, None),
                        ([("dropetm",)], True, True, cbc), ([("addetm",)], True, False, cbc),
                        ([("setsni", "other.example")], True, True, None), ([("setsni", "")], True, True, None),
                        ([("setsuites", [0x002f if ver < (3, 3) else 0x009c])], True, True, ["aes256"] if ver < (3, 3) else ["aes256gcm"]),
                        ([("setsid", "ab" * 32)], True, True, None), ([("setsid", "")], True, True, None),
                        ([("setticket", "cd" * 60)], True, True, None), ([("setticket", "")], True, True, None),
                        ([("setticket", None)], True, True, None),
                        ([("dropems",), ("setsni", "other.example")], True, True, None)]:
                    go(scenario_edit, ver, mech, edits, cems, cetm, ciph)
    go(scenario_binder, 0)
    go(scenario_binder, 1)
    for hn in ("sha256", "sha384"):
        go(scenario_external_psk, hn, True, False)
        go(scenario_external_psk, hn, True, True)
    go(scenario_external_psk, "sha256", False, True)
    return runs


def random_history(ctx, idx):
    rng = ctx.rng
    ver = rng.choice(VERSIONS)
    mech = rng.choice(mechs_for(ver))
    life = rng.choice([50, 100, 1000])
    cap = rng.choice([3, 4, 6])
    age = rng.choice([60, 100, 500])
    h = History(ctx, "random-%d-%s-%s" % (idx, ver, mech))
    h.clock.install()
    try:
        scfg, ccfg = base_cfgs(ver, mech, life=life, cap=cap, age=age, req_cert=rng.random() < 0.4)
        if rng.random() < 0.4:
            ccfg.cert = rng.choice(["client_rsa", "client_ecdsa"])
        if ver >= (3, 4) and rng.random() < 0.2:
            psk = [(b"ext-id-%d" % idx, bytes([idx % 250 + 1]) * 32, rng.choice(["sha256", "sha384"]))]
            scfg.psk = list(psk)
            ccfg.psk = list(psk)
        servers = [h.new_server(scfg)]
        if rng.random() < 0.35:
            sb = SrvCfg.from_json(scfg.to_json())
            sb.keys = [K[5]] if scfg.keys else []
            servers.append(h.new_server(sb))
        cur = CliCfg.from_json(ccfg.to_json())
        nkey = 1
        steps = rng.randrange(6, 14)
        for _ in range(steps):
            if ctx.out_of_time(0.97):
                break
            r = rng.random()
            live = [i for i in range(len(h.csess))]
            openc = [c.k for c in h.conns if c.done and not c.closed]
            s = rng.choice(servers)
            if r < 0.40 or not h.conns:
                offer = rng.choice(live) if (live and rng.random() < 0.85) else None
                edits = []
                if offer is not None and (3, 0) < ver < (3, 4) and rng.random() < 0.15:
                    edits = [rng.choice([("dropems",), ("addems",), ("dropetm",), ("addetm",), ("setsni", "other.example"),
                                         ("setsni", ""), ("setsid", "ab" * 32), ("setticket", ""), ("setticket", "ef" * 70)])]
                if offer is not None and ver >= (3, 4) and rng.random() < 0.06:
                    edits = [("badbinder", 0)]
                h.handshake(s, cur, offer=offer, edits=edits)
            elif r < 0.58 and openc:
                h.close(rng.choice(openc), rng.choice(CLOSE_KINDS))
            elif r < 0.70:
                side = rng.choice(["client", "server"])
                h.tick(side, rng.choice([1, life // 2, life - 1, life, life + 1, age + 1, 5 * life]))
                if rng.random() < 0.5:
                    h.tick("client" if side == "server" else "server", rng.choice([1, life // 2, life + 1]))
            elif r < 0.80 and mech != "id":
                cfg = h.servers[s]["cfg"]
                choice = rng.random()
                if choice < 0.4:
                    nkey += 1
                    h.set_server(s, keys=[K[nkey % 4]] + [k for k in cfg.keys if k != K[nkey % 4]])
                elif choice < 0.6 and len(cfg.keys) > 1:
                    h.set_server(s, keys=cfg.keys[:-1])
                elif choice < 0.75:
                    h.set_server(s, keys=[])
                elif choice < 0.9:
                    h.set_server(s, keys=[K[0]])
                else:
                    h.set_server(s, tcount=rng.choice([0, 1, 3]))
            elif r < 0.86 and mech in ("id", "both"):
                h.cache_fill(s, rng.randrange(1, cap + 1))
            elif r < 0.93 and live and mech != "id":
                h.tamper(rng.choice(live), rng.choice(TAMPER_KINDS), rng.randrange(0, 200))
            else:
                which = rng.random()
                allc = CIPHERS_BY_VER[ver]
                if which < 0.3:
                    cur.ciphers = rng.sample(allc, rng.randrange(1, len(allc) + 1))
                elif which < 0.45:
                    h.set_server(s, ciphers=rng.sample(allc, rng.randrange(1, len(allc) + 1)))
                elif which < 0.6:
                    cur.ems = not cur.ems
                elif which < 0.7:
                    cur.etm = not cur.etm
                elif which < 0.8:
                    h.set_server(s, ems=rng.random() < 0.5, etm=rng.random() < 0.5)
                elif which < 0.9:
                    cur.cert = rng.choice([None, None, "client_rsa", "client_ecdsa"])
                else:
                    cur = CliCfg.from_json(ccfg.to_json())
    finally:
        h.finish()
    return h


def execute_ops(ctx, ops, label="replay"):
    """re-run a recorded op list (replay files)"""
    h = History(ctx, label)
    h.clock.install()
    try:
        for op in ops:
            o = op["op"]
            if o == "server":
                h.new_server(SrvCfg.from_json(op["cfg"]))
            elif o == "set_server":
                ch = dict(op["changes"])
                if "keys" in ch:
                    ch["keys"] = [bytes.fromhex(k) for k in ch["keys"]]
                h.set_server(op["i"], **ch)
            elif o == "tick":
                h.tick(op["side"], op["dt"])
            elif o == "fill":
                h.cache_fill(op["i"], op["n"])
            elif o == "tamper":
                h.tamper(op["j"], op["kind"], op["arg"])
            elif o == "hs":
                edits = [tuple(e) for e in op["edits"]]
                h.handshake(op["srv"], CliCfg.from_json(op["ccfg"]), offer=op["offer"], edits=edits)
            elif o == "close":
                h.close(op["k"], op["kind"])
            else:
                raise ValueError(o)
    finally:
        h.finish()
    return h


def payload_codec(ctx):
    """SessionTicketPayload.create / write / parse against Tls.Ticket (byte level)"""
    from harness import lab
    from tlslite.messages import SessionTicketPayload
    from tlslite.utils.codec import Parser, Writer
    lc = ctx.lean()
    if lc is None:
        return
    rng = ctx.rng

    def rb(n):
        return bytes(rng.getrandbits(8) for _ in range(n))

    def fields(t):
        w = Writer()
        for e in (t._cert_chain or []):
            w.bytes += e.write()
        return (t.version, bytes(t.master_secret), t.protocol_version[0], t.protocol_version[1], t.cipher_suite,
                bytes(t.nonce), t.creation_time, bytes(w.bytes), bool(t.encrypt_then_mac), bool(t.extended_master_secret),
                bytes(t.server_name))

    def fmt(f):
        return "%d %s %d %d %d %s %d %s %d %d %s" % (f[0], hx(f[1]), f[2], f[3], f[4], hx(f[5]), f[6], hx(f[7]),
                                                       int(f[8]), int(f[9]), hx(f[10]))

    chains = [None, lab.creds("client_rsa")[0], lab.creds("client_ecdsa")[0]]
    n = ctx.pick(120, 1500)
    for i in range(n):
        chain = rng.choice(chains)
        etm, ems = rng.random() < 0.5, rng.random() < 0.5
        sn = rng.choice([b"", b"", b"host.example", rb(rng.randrange(1, 40))])
        ms = rb(rng.choice([0, 32, 48, 48, 255]))
        ver = rng.choice([(3, 0), (3, 1), (3, 2), (3, 3), (3, 4)])
        t = SessionTicketPayload().create(bytearray(ms), ver, rng.randrange(0, 65536), rng.randrange(0, 2 ** 40),
                                          bytearray(rb(rng.choice([0, 16, 32]))), client_cert_chain=chain,
                                          encrypt_then_mac=etm, extended_master_secret=ems, server_name=bytearray(sn))
        f = fields(t)
        wire = bytes(t.write())
        ctx.case(key=("tp", wire), sample=None)
        ctx.count("payload:version=%d" % f[0])
        m_ver = lc.ask("tpc %d %d %d %s" % (int(chain is not None), int(etm), int(ems), hx(sn)))
        m_wire = lc.ask("tpw " + fmt(f))
        m_parse = lc.ask("tpp " + hx(wire))
        ctx.compared(3)
        if m_ver != str(f[0]):
            ctx.disagree("ticket-payload-create", {"chain": chain is not None, "etm": etm, "ems": ems, "sn": sn.hex()}, m_ver, f[0])
        if m_wire != hx(wire):
            ctx.disagree("ticket-payload-write", {"fields": fmt(f)}, m_wire[:200], wire.hex()[:200])
        back = SessionTicketPayload().parse(Parser(bytearray(wire)))
        if fields(back) != f:
            ctx.violation("c13:ticket-payload-roundtrip", "SessionTicketPayload.parse(write(p)) != p",
                          {"stage": "payload", "wire": wire.hex(), "fields": fmt(f), "back": fmt(fields(back))})
        if m_parse != fmt(f):
            ctx.disagree("ticket-payload-parse", {"wire": wire.hex()[:400]}, m_parse[:200], fmt(f)[:200])
        # malformed plaintexts (no certificate chain inside: its entries are opaque to the model)
        if chain is None:
            for _ in range(4):
                b = bytearray(wire)
                kind = rng.choice(["truncate", "extend", "byte", "version", "len"])
                if kind == "truncate":
                    b = b[:rng.randrange(0, len(b))]
                elif kind == "extend":
                    b += rb(rng.randrange(1, 4))
                elif kind == "byte":
                    b[rng.randrange(len(b))] ^= 1 << rng.randrange(8)
                elif kind == "version":
                    b[1] = rng.choice([0, 1, 2, 3, 255])
                else:
                    b[rng.choice([2, 3])] ^= 1 << rng.randrange(8)
                try:
                    r = SessionTicketPayload().parse(Parser(bytearray(b)))
                    impl = fmt(fields(r)) if not (r._cert_chain) else None
                except Exception:  # ValueError / DecodeError: the ticket is not usable
                    impl = "none"
                if impl is None:
                    continue
                mm = lc.ask("tpp " + hx(bytes(b)))
                ctx.compared()
                ctx.count("payload-mutation:" + kind)
                if mm != impl:
                    ctx.disagree("ticket-payload-parse-malformed", {"wire": bytes(b).hex()[:400], "kind": kind}, mm[:200], impl[:200])


def run(ctx):
    # the budget counts from here (the lean build before may have waited for the shared lake lock)
    ctx.budget_s = ctx.elapsed() + ctx.pick(105, 1020)
    ctx.rule = ("histories of live connections (handshake with/without an offered session, close clean / fatal either way / "
                "abrupt, per-side clock advance, ticket-key rotation, tickets off, cache eviction, ticket tampering, ClientHello "
                "edits, settings changes, two servers) for SSLv3..TLS1.3 x {session ID, <=1.2 ticket, both, 1.3 PSK ticket, "
                "external PSK}; one case = one connection attempt; distinct = distinct (history label, position, outcome)")
    ctx.assumptions = [
        "ticket AEAD / binder HMAC are abstract in the model: a ticket opens only under the key it was sealed with; a binder "
        "verifies only under the inputs it was computed with",
        "negotiation of a NEW session's suite/EMS/EtM is an input of the model (property C03), predicted here only by the "
        "server-preference rule",
        "TLS 1.3: the PSK is bound to the PRF hash, not the suite (RFC 8446 4.2.11); SNI is not varied on TLS 1.3 resumption",
        "a fatal error observed only by the server cannot invalidate a stateless ticket (unspecified in the oracle)",
        "age == lifetime exactly, and a lifetime changed between issue and use, are unspecified in the oracle (the model mirrors "
        "the code's strict '<')",
    ]
    payload_codec(ctx)
    runs = scripted(ctx)
    n = 0
    while not ctx.out_of_time(0.97) and n < ctx.pick(2000, 20000):
        runs.append(random_history(ctx, n))
        n += 1
    ctx.extra["histories"] = len(runs)
    ctx.extra["random_histories"] = n
    ctx.extra["observations"] = {k.split(":", 1)[1]: v for k, v in ctx.dist.items() if k.startswith("observation:")}


def replay(ctx, rep):
    inp = rep["input"]
    if inp.get("stage") == "history" or "ops" in inp:
        h = execute_ops(ctx, inp["ops"], inp.get("label", "replay"))
        for v in ctx.violations:
            print("  still:", v["key"], "-", v["what"])
        for d in ctx.disagreements[:5]:
            print("  model/impl:", d["stream"], d["model"], d["impl"])
        return bool(ctx.violations or ctx.disagreements)
    if inp.get("stage") == "correspondence" and "first" in inp and "ops" in (inp["first"].get("case") or {}):
        h = execute_ops(ctx, inp["first"]["case"]["ops"], "replay-correspondence")
        for d in ctx.disagreements[:5]:
            print("  model/impl:", d["stream"], d["model"], d["impl"])
        return bool(ctx.violations or ctx.disagreements)
    print("replay of stage %r: re-running the whole check" % inp.get("stage"))
    run(ctx)
    return bool(ctx.violations or ctx.disagreements)
