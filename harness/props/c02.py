"""C02 — a record is accepted only if it is exactly what the peer sent next.

Theorems: lean/Props/C02.lean over the record-layer model lean/TlsModel/Record.lean:
macInput_injective, aad_injective, nonce_injective_in_seq, accept_is_next_or_forgery_{mteStream,
mteCbc, etm, aead12, tls13} (reductions with explicit MacForgery / AeadForgery events; byte-level
for EtM / AEAD, (type, plaintext)-level for MAC-then-encrypt CBC), tls13_outer_type_enforced, the
replay / reorder / reflection / modification / inner-type corollaries, reject_is_fatal,
reject_bad_type_is_fatal, closed_is_final, early_data_skip_safe, early_data_total_bounded,
no_skip_outside_window.

Tie: (T) decision differential of a real RecordLayer carrying toy primitives against the Lean model
on honest and mutated records (result class, (type, plaintext), new state, early-data window);
(L1) real suites at RecordLayer level: honest 4-record windows from lab connections, every
single-bit flip, every truncation, extensions, all replay / reorder / drop pairs, reflection, other
connection's keys, TLS 1.3 outer-type / version / padding forgeries, against the ideal-channel
prediction (accept only the next record; error class by the model's rules);
(L2) connection level on fresh handshakes per mutation class: fatal alert of the documented set,
on the wire and readable by the peer, no data from the record, closed, not resumable — through the
public read() and through _getMsg directly.
"""
import copy

from . import rectoy as T
from . import reclive as R

TRANSLATORS = ["record"]

MANIFEST = {
    "text": "Proof: in the Lean model Tls.Rec of RecordLayer.recvRecord (all five unprotect paths with every length check and error "
            "kind, primitives as parameters), if a receiver that has processed k records accepts a byte string, the (type, plaintext) "
            "it yields is the sender's k-th record or an explicit forgery event holds (a tag/ciphertext that verifies under this "
            "direction's key on an input the sender never authenticated) — per path, byte-level for encrypt-then-MAC and AEAD, at "
            "recvRecord level for TLS 1.3 incl. outer type/version checks and de-padding; supported by injectivity of the MAC input, "
            "additional data and nonce encodings on seq < 2^64, len < 2^16; corollaries for replay, reorder, drop, modification, "
            "reflection / other key, TLS 1.3 inner type / padding; on the connection model every rejection sends exactly one fatal "
            "alert of the tabled description, delivers nothing, closes, clears resumable; early-data skipping restores the read "
            "state and is bounded by max_early_data. Tie: decision differential of a real RecordLayer with toy primitives vs the "
            "model on honest and mutated records; mutation engine on honest record windows of live connections for every version x "
            "cipher path x EtM at RecordLayer level (all bit flips, truncations, extensions, replay/reorder/drop pairs, reflection, "
            "other keys, TLS 1.3 forgeries) and at connection level (alert on the wire, closed, not resumable, no data).",
    "note": "Trusted: Lean kernel, the harness, the functional laws of the primitives; the forgery events are the primitives' "
            "security and are not proved. MAC-then-encrypt CBC is at (type, plaintext) level (byte uniqueness of the ciphertext "
            "needs cipher unpredictability: accept_is_next_or_forgery_mteCbc_bytes_partial, not proved). TLS 1.3 lets unprotected "
            "ChangeCipherSpec and, while the read sequence number is 0, short unprotected alerts through the record layer "
            "(tls13_outer_type_enforced states it); SSLv2 framing not modelled.",
    "technique": "Lean 4 reduction proofs with explicit bad events over a model with abstract primitives; differential correspondence "
                 "(toy primitives); mutation engine with an ideal-channel oracle on live connections",
}

DOCUMENTED = {"bad_record_mac", "decryption_failed", "record_overflow", "unexpected_message", "illegal_parameter",
              "decode_error"}
ALERT_NAME = {10: "unexpected_message", 20: "bad_record_mac", 21: "decryption_failed", 22: "record_overflow",
              47: "illegal_parameter", 50: "decode_error"}


def rb(rng, n):
    return rng.randbytes(n) if n else b""


# ------------------------------------------------------------------------------------------------
# (T) toy decision differential

def toy_mutations(rng, pr, seq, cs, ht, hv, body, full_flips):
    muts = [("honest", seq, cs, ht, hv, body)]
    if body:
        nbits = len(body) * 8
        bits = range(nbits) if full_flips else sorted(set(rng.randrange(nbits) for _ in range(10)) | {0, nbits - 1})
        for b in bits:
            x = bytearray(body)
            x[b // 8] ^= 1 << (b % 8)
            muts.append(("flip", seq, cs, ht, hv, bytes(x)))
    muts.append(("seq+1", seq + 1, cs, ht, hv, body))
    if seq > 0:
        muts.append(("seq-1", seq - 1, cs, ht, hv, body))
    # header types outside ContentType.all are parsed as SSLv2 headers (not modelled; see L2 class sslv2-framed)
    for t2 in (20, 21, 22, 23, 24):
        if t2 != ht:
            muts.append(("type", seq, cs, t2, hv, body))
    for v2 in ((3, 0), (3, 1), (3, 3), (3, 4), (2, 0)):
        if v2 != hv:
            muts.append(("ver", seq, cs, ht, v2, body))
    cuts = range(1, len(body) + 1) if (full_flips or len(body) < 80) else [1, 2, pr["bs"], pr["dlen"] or 3, len(body)]
    for k in cuts:
        if k <= len(body):
            muts.append(("trunc", seq, cs, ht, hv, body[:len(body) - k]))
    for k in (1, 2, pr["bs"], pr["bs"] + 1):
        muts.append(("ext", seq, cs, ht, hv, body + rb(rng, k)))
        muts.append(("ext0", seq, cs, ht, hv, body + bytes(k)))
    if pr["bs"] > 1:
        muts.append(("cs", seq, rb(rng, pr["bs"]), ht, hv, body))
    for _ in range(3):
        muts.append(("rand", seq, cs, ht, hv, rb(rng, rng.randrange(0, 90))))
    muts.append(("zeros", seq, cs, ht, hv, bytes(len(body))))
    # unprotected alerts (TLS 1.3 lets short ones through only at sequence number 0 and before the handshake is done)
    for al in (b"\x01\x00", b"\x02\x28", b"\x01", b"\x01\x00\x00"):
        muts.append(("short-alert", seq, cs, 21, hv, al))
        muts.append(("short-alert", 0, cs, 21, hv, al))
    muts.append(("plain-ccs", seq, cs, 20, hv, b"\x01"))
    return muts


def toy_decisions(ctx):
    lc = ctx.lean()
    if lc is None:
        return
    rng = ctx.rng
    lines, exp, meta = [], [], []

    def flush():
        if not lines:
            return
        out = lc.batch(lines)
        for o, e, m in zip(out, exp, meta):
            ctx.compared()
            mo = T.parse_recv_reply(o)
            e2 = ("ok", e[1], T.norm_cs(e[2])) + tuple(e[3:]) if e[0] == "ok" else e
            if mo != e2:
                ctx.disagree("toy-recvRecord", m, o[:200], repr(e2)[:200])
        del lines[:], exp[:], meta[:]

    cap = ctx.pick(170, 1100)
    for name, cfg, pr in T.path_configs(rng, ctx.thorough()):
        if _since_run(ctx) > cap:
            ctx.count("toy:skipped-out-of-time")
            cut = ctx.extra.setdefault("streams_cut_by_time", [])
            if "toy decision differential: remaining path configurations dropped" not in cut:
                cut.append("toy decision differential: remaining path configurations dropped")
            continue
        bs = max(pr["bs"], 1)
        # payload lengths incl. the ones that make the CBC padding-length byte 0 (MtE and EtM)
        lens = sorted({0, 1, 5, bs - 1, (bs - 1 - pr["dlen"]) % bs, bs, 40} | ({300} if ctx.thorough() else set()))
        first = True
        for ctype in (23, 22, 21, 20):
            for n in lens:
                if ctype != 23 and n not in (0, 5):
                    continue
                seq = rng.choice([0, 1, 255, 2 ** 32 - 1, rng.getrandbits(30)])
                cs = {"null": b"", "aead": b"", "stream": rng.randrange(0, 10 ** 5).to_bytes(8, "big"),
                      "block": rb(rng, pr["bs"])}[cfg["cipher"]]
                data = rb(rng, n)
                pad = rng.choice(["none", "max", "mod:3"]) if T.is13(cfg) else "none"
                sl = rng.choice([64, 400, 16384])
                r = T.real_send(cfg, pr, pad, sl, seq, cs, ctype, data)
                if r[0] != "ok":
                    continue
                _, _, _, ht, hv, body = r
                full = (ctype == 23 and len(body) <= 80 and (ctx.thorough() or n in (bs - 1, (bs - 1 - pr["dlen"]) % bs, 1)))
                for m in toy_mutations(rng, pr, seq, cs, ht, hv, body, full):
                    kind, s, c, t, v, bd = m
                    combos = [(False, 0, 0, 16384)]
                    if kind in ("honest", "trunc", "rand", "type") or first:
                        combos += [(True, 1000, 5, 16384), (True, len(bd) + 3, 3, 16384), (False, 0, 0, 64),
                                   (False, 0, 0, max(0, n - 1)), (False, 0, 0, n)]
                    pas = [False, True] if kind in ("short-alert", "honest", "type", "plain-ccs") else [False]
                    for (eo, me, prc, rl) in combos:
                      for pa in pas:
                        rr = T.real_recv(cfg, pr, s, c, eo, me, prc, rl, t, v, bd, pa)
                        lines.append(T.recv_line(cfg, pr, s, c, eo, me, prc, rl, t, v, bd, pa))
                        exp.append(rr)
                        meta.append(dict(name=name, ver=list(cfg["ver"]), ctype=ctype, n=n, kind=kind, early=(eo, me, prc),
                                         limit=rl, htype=t, hver=list(v), body=bd.hex()[:160], seq=s, pa=pa))
                        ctx.case(key=("toy", name, cfg["ver"], ctype, n, kind, bd, eo, me, rl, s, t, v, pa),
                                 sample=dict(stream="toy", name=name, kind=kind, result=rr[0] if rr[0] != "err" else rr[1])
                                 if ctx.evaluations % 4999 == 0 else None)
                        ctx.count("toy:" + kind + ":" + (rr[0] if rr[0] != "err" else rr[1]))
                first = False
                if len(lines) >= 3000:
                    flush()
        # SSLv2-framed input (first byte is not a content type) on this read state
        if cfg["cipher"] != "null" or cfg["hasMac"]:
            cs = {"null": b"", "aead": b"", "stream": (0).to_bytes(8, "big"), "block": rb(rng, pr["bs"])}[cfg["cipher"]]
            for two_byte in (True, False):
                for n in (0, 5, 16, 32, 300):
                    # 2-byte header: 1 lllllll llllllll ; 3-byte header: 00 llllll llllllll pppppppp (padding 0)
                    raw = (bytes([0x80 | (n >> 8), n & 0xff]) if two_byte else bytes([(n >> 8) & 0x3f, n & 0xff, 0])) + rb(rng, n)
                    rr = T.real_recv_raw(cfg, pr, 3, cs, raw)
                    m = lc.ask("recvssl2 %s %d" % (T.cfg_tokens(cfg), raw[0]))
                    ctx.compared()
                    ctx.case(key=("toy-ssl2", name, cfg["ver"], raw), sample=None)
                    ctx.count("toy:ssl2-framed:" + (rr[1] if rr[0] == "err" else "ok"))
                    want = "err " + rr[1] if rr[0] == "err" else "ok"
                    if m != want:
                        ctx.disagree("toy-ssl2-framed", dict(name=name, ver=list(cfg["ver"]), raw=raw.hex()), m, want)
    flush()


# ------------------------------------------------------------------------------------------------
# live helpers

def wire(rec):
    t, v, b = rec
    return bytes([t, v[0], v[1], len(b) >> 8, len(b) & 0xff]) + bytes(b)


def snap_state(st):
    """copy of a ConnectionState that can be advanced independently (macContext objects are never
    mutated by the record layer: it always works on .copy())"""
    from tlslite.recordlayer import ConnectionState
    n = ConnectionState()
    n.macContext = st.macContext
    enc = st.encContext
    n.encContext = copy.deepcopy(enc) if (enc is not None and not enc.isAEAD) else enc
    n.fixedNonce = st.fixedNonce
    n.seqnum = st.seqnum
    n.encryptThenMAC = st.encryptThenMAC
    return n


def clone_layer(conn, state, rec_wire):
    """a fresh real RecordLayer in the receiving connection's configuration and given read state"""
    from tlslite.recordlayer import RecordLayer
    src = conn._recordLayer
    rl = RecordLayer(T.CaptureSock(rec_wire))
    rl.version = tuple(src.version)
    rl.tls13record = bool(src.tls13record)
    rl.recv_record_limit = src.recv_record_limit
    rl.client = src.client
    rl._readState = state
    return rl


def rl_recv(conn, state, rec):
    """present one record to the real record layer: ('ok', type, plaintext, new state) | ('err', name)"""
    st = snap_state(state)
    rl = clone_layer(conn, st, wire(rec))
    try:
        res = None
        for res in rl.recvRecord():
            if res in (0, 1):
                return ("err", "would-block")
            break
    except Exception as e:  # noqa: B902 - classified
        return ("err", T.exc_name(e))
    return ("ok", res[0].type, bytes(res[1].bytes), rl._readState)


def ideal_class(cfgm, pr, rec, seq, recv_limit):
    """ideal-channel prediction of the rejection class for a record that is NOT the next honest one
    (every MAC / AEAD verification fails), following the order of the checks in the model"""
    t, v, b = rec
    n = len(b)
    is13 = T.is13(cfgm)
    if n > recv_limit + 2048 or (cfgm["tls13record"] and n > recv_limit + 256):
        return {"record_overflow"}
    if is13 and t == 20:
        return {"pass"}
    if is13 and t == 21 and n < 3 and cfgm["cipher"] != "null" and seq == 0:
        return {"pass"}
    if cfgm["cipher"] == "aead":
        explicit = cfgm["aes"] and not is13
        if explicit and n < 8:
            return {"bad_record_mac"}
        if n - (8 if explicit else 0) < pr["tagLen"]:
            return {"bad_record_mac"}
        if is13 and t != 23:
            return {"unexpected_message"}
        if is13 and tuple(v) != (3, 3):
            return {"illegal_parameter"}
        return {"bad_record_mac"}
    if cfgm["etm"]:
        return {"bad_record_mac"}
    if cfgm["cipher"] == "block":
        return {"decryption_failed"} if n % pr["bs"] else {"bad_record_mac"}
    return {"bad_record_mac"}


def payloads_for(cfg, rng, variant=0):
    """four distinct payloads; lengths chosen so that the CBC padding-length byte is 0 in one
    MAC-then-encrypt and one encrypt-then-MAC record; variant 1 (thorough): a longer first record"""
    kind, bs, tag = R.CIPHER_SHAPE[cfg["cipher"]]
    bs = bs or 16
    lens = [bs - 1, 3, (bs - 1 - 20) % bs + bs, 2 * bs + 5]
    if variant == 1:
        lens = [200 if cfg["cipher"] not in R.SLOW else 40, 17, 64, 5]
    if variant == 3:
        # plaintexts ending in a long run of one high byte: cut at a block boundary inside the run, the
        # decrypted tail looks like a maximal padding and the real MAC is gone
        geo = [(4 * bs, 0xff), (5 * bs - 1, 0xf0), (100, 236), (7, 200)]
        if cfg["cipher"] in R.SLOW:
            geo = geo[:2]
        return [rb(rng, a) + bytes([v]) * (256 + 2 * bs) for (a, v) in geo]
    if variant == 2:
        lens = [(bs - 1 - 32) % bs + 2 * bs, 0, 1, 700 if cfg["cipher"] not in R.SLOW else 30]
    return [rb(rng, n) for n in lens]


class Capture(object):
    """record filter: withhold application-data-phase records of both directions"""
    def __init__(self, L):
        self.held = {"c2s": [], "s2c": []}
        self.hold = True
        L.link.record_filter = self

    def __call__(self, direction, t, v, b):
        if self.hold:
            self.held[direction].append((t, v, bytes(b)))
            return []
        return [(t, v, b)]


def setup_window(ctx, cfg, receiver, payloads, reflect=True):
    """handshake; the sender writes the payloads (withheld on the wire); returns
    (L, capture, sender records, reflected records) or None"""
    L = R.connect(cfg)
    if L.client.state != "done" or L.server.state != "done":
        return None
    if cfg.get("hrr"):
        ctx.count("L2:hello-retry-request:%s" % ("taken" if R.went_through_hrr(L) else "NOT-taken"))
    R.drain_post_handshake(L)
    sender = "client" if receiver == "server" else "server"
    cap = Capture(L)
    for p in payloads:
        r = L.write(sender, p)
        if r[0] != "ok":
            return None
    d = "c2s" if sender == "client" else "s2c"
    dr = "s2c" if sender == "client" else "c2s"
    if reflect:
        total = 0
        for p in (b"reflected-1", b"r2"):
            L.write(receiver, p)
            total += len(p)
        # the receiver's own records reach the sender honestly (its read state stays in sync) ...
        for r in cap.held[dr]:
            L.link.inject(dr, wire(r))
        got = L.read(sender, None, total)
        if got[0] != "ok" or len(got[1]) != total:
            return None
        # ... copies of them are what the attacker reflects
    return L, cap, list(cap.held[d]), list(cap.held[dr])


def jcfg(cfg):
    d = dict(cfg)
    d["ver"] = list(cfg["ver"])
    return d


def ucfg(d):
    c = dict(d)
    c["ver"] = tuple(d["ver"])
    if "rsl" in c:
        c["rsl"] = tuple(c["rsl"])
    return c


# ------------------------------------------------------------------------------------------------
# (L1) record-layer level mutation engine on real suites

def gen_mutations(ctx, cfg, sent, refl, other, k_states, full):
    """yield (spec, k, record) — spec is position based so that a replay on fresh keys reproduces it"""
    rng = ctx.rng
    n = len(sent)
    # replay / reorder / drop: record j presented at position k
    for k in range(k_states):
        for j in range(n):
            if j != k:
                yield (dict(kind="present", j=j, k=k), k, sent[j])
    for k in (0, 1):
        if k >= n:
            continue
        t, v, b = sent[k]
        nbits = len(b) * 8
        if full and k == 0:
            bits = range(nbits)
        else:
            bits = sorted(set(rng.randrange(nbits) for _ in range(12)) | {0, 7, nbits - 1, nbits - 8}) if nbits else []
        for bit in bits:
            x = bytearray(b)
            x[bit // 8] ^= 1 << (bit % 8)
            yield (dict(kind="flip", k=k, bit=bit), k, (t, v, bytes(x)))
        cuts = range(1, len(b) + 1) if (full and k == 0) else sorted({1, 2, 8, 16, len(b)} & set(range(1, len(b) + 1)))
        for cut in cuts:
            yield (dict(kind="trunc", k=k, cut=cut), k, (t, v, b[:len(b) - cut]))
        for ext in (1, 2, 8, 16, 17):
            yield (dict(kind="ext-zero", k=k, ext=ext), k, (t, v, b + bytes(ext)))
            yield (dict(kind="ext-rand", k=k, ext=ext), k, (t, v, b + rb(rng, ext)))
        for t2 in (20, 21, 22, 23, 24):
            if t2 != t:
                yield (dict(kind="type", k=k, htype=t2), k, (t2, v, b))
        for v2 in ((3, 0), (3, 1), (3, 2), (3, 3), (3, 4)):
            if v2 != tuple(v):
                yield (dict(kind="version", k=k, hver=list(v2)), k, (t, v2, b))
        # splice: head of record k with tail of another record
        if n > 2 and len(b) > 4:
            o = sent[2][2]
            cutp = len(b) // 2
            yield (dict(kind="splice", k=k, j=2, at=cutp), k, (t, v, b[:cutp] + o[cutp:cutp + (len(b) - cutp)]))
        for ln in (0, 1, len(b), 64):
            yield (dict(kind="random", k=k, n=ln), k, (t, v, rb(rng, ln)))
        yield (dict(kind="zeros", k=k), k, (t, v, bytes(len(b))))
    for j, r in enumerate(refl):
        yield (dict(kind="reflect", j=j, k=0), 0, r)
    for j, r in enumerate(other[:2]):
        yield (dict(kind="other-connection", j=j, k=j), j, r)


def apply_spec(spec, sent, refl, other, rng):
    """rebuild the mutated record of a stored spec on a fresh window"""
    kind = spec["kind"]
    if kind == "present":
        return sent[spec["j"]]
    if kind == "reflect":
        return refl[spec["j"]]
    if kind == "other-connection":
        return other[spec["j"]]
    t, v, b = sent[spec["k"]]
    if kind == "flip":
        x = bytearray(b)
        x[spec["bit"] // 8] ^= 1 << (spec["bit"] % 8)
        return (t, v, bytes(x))
    if kind == "trunc":
        return (t, v, b[:len(b) - spec["cut"]])
    if kind == "ext-zero":
        return (t, v, b + bytes(spec["ext"]))
    if kind == "ext-rand":
        return (t, v, b + rb(rng, spec["ext"]))
    if kind == "type":
        return (spec["htype"], v, b)
    if kind == "version":
        return (t, tuple(spec["hver"]), b)
    if kind == "splice":
        o = sent[spec["j"]][2]
        return (t, v, b[:spec["at"]] + o[spec["at"]:spec["at"] + (len(b) - spec["at"])])
    if kind == "random":
        return (t, v, rb(rng, spec["n"]))
    if kind == "zeros":
        return (t, v, bytes(len(b)))
    raise ValueError(kind)


def judge_rl(ctx, cfg, receiver, cfgm, pr, conn, states, truth, spec, k, rec, label):
    """present `rec` to a receiver that has processed k honest records; apply the oracle"""
    res = rl_recv(conn, states[k], rec)
    ctx.count("L1:%s:%s" % (spec["kind"], res[0] if res[0] == "ok" else res[1]))
    ctx.case(key=("L1", label, receiver, repr(sorted(spec.items()))), sample=None)
    is_next = k < len(truth) and rec == truth[k][2]
    rep = dict(stage="L1", cfg=jcfg(cfg), receiver=receiver, spec=spec, k=k, variant=ctx.extra.get("_variant", 0))
    if res[0] == "ok":
        t, p = res[1], res[2]
        passthrough = T.is13(cfgm) and rec[0] in (20, 21) and (t, p) == (rec[0], rec[2])
        if passthrough:
            # unprotected CCS / early alert handed up with its own type: judged at connection level (L2)
            return
        if k < len(truth) and (t, p) == truth[k][:2]:
            return      # it yields exactly what the peer protected as its next record
        want = "(type %d, %d bytes)" % (truth[k][0], len(truth[k][1])) if k < len(truth) else "nothing (no further record was sent)"
        ctx.violation("c02:accepted-not-next:" + spec["kind"],
                      "record layer accepted a record that is not the sender's next one: mutation %s at position %d yields "
                      "(type %d, %d bytes), the sender's next record is %s [%s, receiver %s]"
                      % (spec, k, t, len(p), want, label, receiver), rep)
        return
    if is_next:
        ctx.violation("c02:honest-rejected", "the honest next record was rejected with %s [%s]" % (res[1], label), rep)
        return
    if res[1] not in DOCUMENTED:
        ctx.violation("c02:undocumented-error", "record rejected with %s, not a documented integrity/decoding error "
                      "(mutation %s) [%s]" % (res[1], spec, label), rep)
        return
    ideal = ideal_class(cfgm, pr, rec, states[k].seqnum, conn._recordLayer.recv_record_limit)
    ctx.compared()
    if res[1] not in ideal:
        ctx.disagree("live-reject-class", dict(cfg=jcfg(cfg), spec=spec, k=k, n=len(rec[2])), sorted(ideal), res[1])


def live_recordlayer(ctx, cfg, receiver, only_spec=None, variant=0):
    rng = ctx.rng
    label = "%d.%d/%s/etm=%s" % (cfg["ver"][0], cfg["ver"][1], cfg["cipher"], cfg["etm"])
    payloads = payloads_for(cfg, rng, variant)
    w = setup_window(ctx, cfg, receiver, payloads)
    if w is None:
        ctx.count("L1:not-negotiable")
        return
    L, cap, sent, refl = w
    ctx.extra["_variant"] = variant
    w2 = setup_window(ctx, cfg, receiver, payloads, reflect=False)
    other = w2[2] if w2 is not None else []
    conn = L.end(receiver).conn
    cfgm, pr = R.model_cfg(conn, write=False)
    # ground truth: what the sender protected, by an honest in-order pass through the real receiver code
    states = [snap_state(conn._recordLayer._readState)]
    truth = []
    for rec in sent:
        r = rl_recv(conn, states[-1], rec)
        if r[0] != "ok":
            ctx.violation("c02:honest-rejected", "honest record %d rejected with %s [%s]" % (len(truth), r[1], label),
                          dict(stage="L1", cfg=jcfg(cfg), receiver=receiver, spec=dict(kind="honest", k=len(truth)), k=len(truth)))
            return
        truth.append((r[1], r[2], rec[2]))
        states.append(r[3])
    got = b"".join(p for (t, p, _) in truth if t == 23)
    if got != b"".join(payloads) or any(t != 23 for (t, _, _) in truth):
        ctx.violation("c02:honest-window-mismatch", "honest window does not decrypt to the payloads written [%s]" % label,
                      dict(stage="L1", cfg=jcfg(cfg), receiver=receiver, spec=dict(kind="honest", k=0), k=0))
        return
    truth = [(t, p, body) for (t, p, body) in truth]
    ctx.count("L1:windows")
    if only_spec is not None:
        k = only_spec.get("k", 0)
        rec = apply_spec(only_spec, sent, refl, other, rng)
        judge_rl(ctx, cfg, receiver, cfgm, pr, conn, states, truth, only_spec, k, rec, label)
        return
    slow = cfg["cipher"] in R.SLOW
    full = ctx.thorough() or not slow
    if variant == 3:
        bsz = R.CIPHER_SHAPE[cfg["cipher"]][1] or 16
        for k, rec in enumerate(sent):
            nb = len(rec[2]) // bsz
            for keep in range(1, nb):
                if slow and not ctx.thorough() and keep * bsz < 200:
                    continue
                judge_rl(ctx, cfg, receiver, cfgm, pr, conn, states, truth,
                         dict(kind="trunc", k=k, cut=len(rec[2]) - keep * bsz), k, (rec[0], rec[1], rec[2][:keep * bsz]), label)
        return
    for spec, k, rec in gen_mutations(ctx, cfg, sent, refl, other, len(states), full):
        judge_rl(ctx, cfg, receiver, cfgm, pr, conn, states, truth, spec, k, rec, label)
    # honest records are accepted in order (the left disjunct is reachable)
    for k, rec in enumerate(sent):
        judge_rl(ctx, cfg, receiver, cfgm, pr, conn, states, truth, dict(kind="honest", k=k), k, rec, label)
    # keyed faulty peer: degenerate records built with the REAL peer's write state, presented after the window
    ws = peer_write_state(L, receiver)
    if slow and not ctx.thorough():
        base = list(craft_keyed(ws, cfg["ver"], T.is13(cfgm), conn._recordLayer.recv_record_limit, rng, only=""))
        lp = [c[0] for c in base if c[1] is None]
        crafted = [c for c in base if c[1] is not None]
        for nm in rng.sample(lp, min(len(lp), 16)):
            crafted += [c for c in craft_keyed(ws, cfg["ver"], T.is13(cfgm), conn._recordLayer.recv_record_limit, rng, only=nm)
                        if c[0] == nm]
    else:
        crafted = list(craft_keyed(ws, cfg["ver"], T.is13(cfgm), conn._recordLayer.recv_record_limit, rng))
    for (nm, rec, expect) in crafted:
        res = rl_recv(conn, states[-1], rec)
        ctx.case(key=("L1K", label, receiver, nm), sample=None)
        judge_keyed(ctx, "L1", label, nm, res, expect,
                    dict(stage="L2", cfg=jcfg(cfg), receiver=receiver, cls="keyed:" + nm, mode="read"))



# ------------------------------------------------------------------------------------------------
# keyed faulty peer: structurally degenerate records that are CORRECTLY authenticated / encrypted

def craft_keyed(ws, ver, tls13, recv_limit, rng, only=None):
    """`ws` is the peer's write state (a ConnectionState with real or toy objects; it is only copied).
    Yields (name, (header type, header version, body), expect) with expect one of
      'reject'                       the record layer must refuse it
      ('accept', type, plaintext)    it IS a record the peer protected: the record layer yields exactly that
      ('conn-reject', type, plain)   the record layer yields it, the connection must refuse it (bad type)
    `only`: build the (expensive) long-padding records only for that name (the others come with record None)"""
    seq8 = ws.seqnum.to_bytes(8, "big")
    enc, macc = ws.encContext, ws.macContext
    hver = (3, 3) if tls13 else tuple(ver)

    def rnd(n):
        return rb(rng, n)

    def mac(t, data):
        m = macc.copy()
        m.update(seq8)
        m.update(bytes([t]))
        if tuple(ver) != (3, 0):
            m.update(bytes(ver))
        m.update(len(data).to_bytes(2, "big"))
        m.update(bytes(data))
        return bytes(m.digest())

    def encrypt(pt):
        # the AES-CBC / toy CBC objects re-assign their chaining block `IV` (a shallow copy is independent);
        # 3DES and RC4 keep mutable sub-objects
        e = copy.copy(enc) if (enc.isBlockCipher and hasattr(enc, "IV")) else copy.deepcopy(enc)
        return bytes(e.encrypt(bytearray(pt)))

    dlen = macc.digest_size if macc is not None else 0
    if enc is None:
        if macc is not None:
            for n in sorted({0, 1, dlen - 1}):
                yield ("null-shorter-than-mac-%d" % n, (23, hver, rnd(n)), "reject")
            yield ("null-mac-only", (23, hver, mac(23, b"")), ("accept", 23, b""))
        return
    if enc.isAEAD:
        tag = enc.tagLength
        name = enc.name
        explicit = ("aes" in name) and not tls13
        fixed = bytes(ws.fixedNonce)
        if tls13 or (name == "chacha20-poly1305" and len(fixed) == 12):
            padded = bytes(len(fixed) - 8) + seq8
            nonce = bytes(a ^ b for a, b in zip(padded, fixed))
        else:
            nonce = fixed + seq8

        def seal(pt, aad):
            return bytes(enc.seal(bytearray(nonce), bytearray(pt), bytearray(aad)))
        if not tls13:
            def rec12(t, pt):
                aad = seq8 + bytes([t, ver[0], ver[1], len(pt) >> 8, len(pt) & 0xff])
                return (t, hver, (seq8 if explicit else b"") + seal(pt, aad))
            if explicit:
                yield ("aead12-explicit-nonce-only", (23, hver, seq8), "reject")
                yield ("aead12-explicit-nonce-short", (23, hver, seq8[:5]), "reject")
                yield ("aead12-nonce-plus-short-tag", (23, hver, seq8 + rnd(tag - 1)), "reject")
            yield ("aead12-empty-body", (23, hver, b""), "reject")
            yield ("aead12-short-tag", (23, hver, rnd(tag - 1)), "reject")
            yield ("aead12-empty-plaintext", rec12(23, b""), ("accept", 23, b""))
            yield ("aead12-empty-handshake", rec12(22, b""), ("conn-reject", 22, b""))
            yield ("aead12-heartbeat-type", rec12(24, b"x"), ("accept", 24, b"x"))   # malformed heartbeats are dropped by design (RFC 6520)
            return

        def rec13(inner):
            n = len(inner) + tag
            return (23, (3, 3), seal(inner, bytes([23, 3, 3, n >> 8, n & 0xff])))
        yield ("tls13-inner-all-zero", rec13(bytes(5)), "reject")
        yield ("tls13-inner-empty", rec13(b""), "reject")
        # a content type 0 cannot be expressed: it reads as padding, the byte before it becomes the type
        yield ("tls13-inner-type-0-is-padding", rec13(b"ab" + bytes([99]) + b"\x00"), ("conn-reject", 99, b"ab"))
        yield ("tls13-inner-unknown-type", rec13(b"abc" + bytes([99])), ("conn-reject", 99, b"abc"))
        yield ("tls13-inner-type-ccs", rec13(b"\x01" + bytes([20])), ("conn-reject", 20, b"\x01"))
        yield ("tls13-inner-empty-handshake", rec13(bytes([22]) + bytes(3)), ("conn-reject", 22, b""))
        yield ("tls13-inner-oversize-fragment", rec13(rnd(recv_limit + 1) + bytes([23])), "reject")
        yield ("tls13-inner-oversize-padding", rec13(b"abc" + bytes([23]) + bytes(recv_limit)), "reject")
        yield ("tls13-inner-max", rec13(rnd(min(recv_limit, 40)) + bytes([23]) + bytes(3)),
               ("accept", 23, None))
        return
    if enc.isBlockCipher:
        bs = enc.block_size
        iv = rnd(bs) if tuple(ver) >= (3, 2) else b""
        if ws.encryptThenMAC:
            cts = [("empty", b""), ("one-block", encrypt(rnd(bs))),
                   ("iv-plus-block-pad-exceeds", encrypt(iv + rnd(bs - 1) + b"\xff")),
                   ("iv-plus-block-pad-eq-len", encrypt(iv + rnd(bs - 1) + bytes([bs]))),
                   ("iv-plus-block-bad-pad-bytes", encrypt(iv + rnd(bs - 3) + bytes([9, 2, 2]))),
                   ("not-multiple", rnd(5)), ("block-plus-one", encrypt(iv + rnd(bs)) + b"\x00"),
                   ("iv-only", encrypt(iv) if iv else encrypt(rnd(bs - 1) + b"\x00"))]
            for nm, ct in cts:
                exp = "reject"
                if nm == "iv-only" and not iv:
                    exp = ("accept", 23, None)       # TLS 1.0: a block ending in 00 is data + empty padding
                yield ("etm-%s-correct-mac" % nm, (23, hver, ct + mac(23, ct)), exp)
            yield ("etm-mac-only-wrong", (23, hver, rnd(dlen)), "reject")
            yield ("etm-shorter-than-mac", (23, hver, rnd(dlen - 1)), "reject")
            return
        bodies = [("empty", b""), ("iv-only" if iv else "one-block", encrypt(rnd(bs))),
                  ("shorter-than-mac-plus-1", encrypt(iv + rnd(bs * max(1, dlen // bs)))),
                  ("pad-longer-than-record", encrypt(iv + rnd(2 * bs - 1) + b"\xff")),
                  ("pad-exact-record", encrypt(iv + bytes([2 * bs - 1]) * (2 * bs))),
                  ("not-multiple", rnd(bs + 1))]
        for nm, body in bodies:
            yield ("mte-cbc-%s" % nm, (23, hver, body), "reject")
        # long paddings (200..255) at every alignment of the record end against the MAC block size, with a
        # wrong MAC in front of the padding, or with the padding run covering the place where the MAC would be
        steps = 64 // bs + 1
        for pl in (255, 254, 250, 247, 240, 236, 224, 200):
            for j in range(steps):
                n = (-(dlen + pl + 1)) % bs + j * bs
                nm = "mte-cbc-longpad-wrongmac-p%d-n%d" % (pl, n)
                yield (nm, (23, hver, encrypt(iv + rnd(n) + rnd(dlen) + bytes([pl]) * (pl + 1)))
                       if only in (None, nm) else None, "reject")
                m = (-(pl + 1)) % bs + j * bs
                nm = "mte-cbc-longpad-nomac-p%d-n%d" % (pl, m)
                yield (nm, (23, hver, encrypt(iv + rnd(m) + bytes([pl]) * (pl + 1)))
                       if only in (None, nm) else None, "reject")
        return
    # stream cipher
    for n in sorted({0, 1, dlen - 1, dlen}):
        yield ("stream-len-%d" % n, (23, hver, encrypt(rnd(n))), "reject")
    yield ("stream-mac-only", (23, hver, encrypt(mac(23, b""))), ("accept", 23, b""))


def judge_keyed(ctx, where, label, name, res, expect, rep):
    """oracle for a keyed-faulty-peer record at record-layer level; res = ('ok', t, p, ..) | ('err', name)"""
    ctx.count("%s:keyed:%s" % (where, res[0] if res[0] == "ok" else res[1]))
    if res[0] == "err":
        if res[1].startswith("python:") or res[1] not in DOCUMENTED:
            ctx.violation("c02:keyed-record-python-exception" if res[1].startswith("python:") else "c02:undocumented-error",
                          "a correctly keyed but degenerate record (%s) made the record layer raise %s instead of a "
                          "documented integrity/decoding error [%s]" % (name, res[1], label), rep)
        elif expect != "reject":
            ctx.violation("c02:honest-rejected", "record %s is a valid protection of (type %d) and was rejected with %s [%s]"
                          % (name, expect[1], res[1], label), rep)
        return
    t, p = res[1], res[2]
    if expect == "reject":
        ctx.violation("c02:accepted-degenerate:" + name.split("-")[0],
                      "degenerate record %s accepted as (type %d, %d bytes) [%s]" % (name, t, len(p), label), rep)
    elif t != expect[1] or (expect[2] is not None and p != expect[2]):
        ctx.violation("c02:accepted-not-next:keyed", "record %s yields (type %d, %d bytes), the peer protected (type %d, %s) [%s]"
                      % (name, t, len(p), expect[1], "%d bytes" % len(expect[2]) if expect[2] is not None else "…", label), rep)


def toy_keyed(ctx):
    """keyed faulty peer on the toy primitives: real RecordLayer vs model, and the oracle"""
    lc = ctx.lean()
    rng = ctx.rng
    lines, exp, meta = [], [], []
    MACS = [(16, 64), (20, 64), (32, 64), (48, 128)]      # md5, sha1, sha256, sha384 shapes
    nth = 0
    for name, cfg, pr in T.path_configs(rng, ctx.thorough()):
        if cfg["cipher"] == "null" and not cfg["hasMac"]:
            continue
        if name.startswith("mte-cbc") and not ctx.thorough():
            # every (block size, MAC size) pair occurs in the quick tier as well
            nth += 1
            dl, mb = MACS[(nth + nth // 2) % 4]
            pr = dict(pr, dlen=dl, mblock=mb, macKey=rb(rng, dl))
        for seq in (0, 7):
            cs = {"null": b"", "aead": b"", "stream": rng.randrange(0, 10 ** 5).to_bytes(8, "big"),
                  "block": rb(rng, pr["bs"])}[cfg["cipher"]]
            for limit in (16384, 64):
                ws = T.make_state(cfg, pr, seq, cs)
                for (nm, (t, v, body), expect) in craft_keyed(ws, cfg["ver"], T.is13(cfg), limit, rng):
                    if "longpad" in nm and (seq, limit) != (0, 16384):
                        continue
                    rr = T.real_recv(cfg, pr, seq, cs, False, 0, 0, limit, t, v, body)
                    case = dict(stage="toy-keyed", name=name, craft=nm, ver=list(cfg["ver"]), seq=seq, limit=limit)
                    ctx.case(key=("toy-keyed", name, cfg["ver"], nm, seq, limit, body), sample=None)
                    res = ("ok", rr[5], rr[6]) if rr[0] == "ok" else ("err", rr[1] if rr[0] == "err" else rr[0])
                    judge_keyed(ctx, "toy", "%s %s" % (name, cfg["ver"]), nm, res, expect, case)
                    lines.append(T.recv_line(cfg, pr, seq, cs, False, 0, 0, limit, t, v, body))
                    exp.append(rr)
                    meta.append(case)
    if lc is not None and lines:
        out = lc.batch(lines)
        for o, e, m in zip(out, exp, meta):
            ctx.compared()
            mo = T.parse_recv_reply(o)
            e2 = ("ok", e[1], T.norm_cs(e[2])) + tuple(e[3:]) if e[0] == "ok" else e
            if mo != e2:
                ctx.disagree("toy-keyed-recvRecord", m, o[:200], repr(e2)[:200])


def peer_write_state(L, receiver):
    sender = "client" if receiver == "server" else "server"
    return snap_state(L.end(sender).conn._recordLayer._writeState)

# ------------------------------------------------------------------------------------------------
# (L2) connection level: alert on the wire, closed, not resumable, no data delivered

L2_CLASSES = ["flip", "flip-last", "type", "trunc", "ext", "replay", "swap", "drop", "reflect", "other-connection",
              "plaintext-appdata", "plaintext-handshake", "garbage", "oversize", "sslv2-framed", "plaintext-ccs",
              "plaintext-ccs-after-data"]
L2_CLASSES_13 = ["outer-type", "outer-version", "zero-body", "append-zeros", "all-zero-inner",
                 "plaintext-alert-after-data", "old-key-after-keyupdate", "old-key-after-2-keyupdates",
                 "old-key-after-3-keyupdates", "plaintext-alert-at-seq0",
                 "plaintext-alert-mid-handshake"]


def build_l2(cls, sent, refl, other, rng, cfg):
    """-> (list of records to deliver, number of leading honest records, expected alert names)"""
    r0 = sent[0]
    t, v, b = r0
    bad = {"bad_record_mac", "decryption_failed"}
    if cls == "flip":
        x = bytearray(b)
        x[rng.randrange(len(x))] ^= 1 << rng.randrange(8)
        return [(t, v, bytes(x))], 0, bad
    if cls == "flip-last":
        x = bytearray(b)
        x[-1] ^= 1
        return [(t, v, bytes(x))], 0, bad
    if cls == "type":
        return [(22 if cfg["ver"] < (3, 4) else 23, v, b)] if cfg["ver"] < (3, 4) else None, 0, bad
    if cls == "trunc":
        return [(t, v, b[:len(b) - rng.randrange(1, len(b) + 1)])], 0, bad
    if cls == "ext":
        return [(t, v, b + rb(rng, rng.choice([1, 8, 16])))], 0, bad
    if cls == "replay":
        return [r0, r0], 1, bad
    if cls == "swap":
        return [sent[1], r0], 0, bad
    if cls == "drop":
        return [r0, sent[2]], 1, bad
    if cls == "reflect":
        return [refl[0]], 0, bad
    if cls == "other-connection":
        return ([other[0]] if other else None), 0, bad
    if cls == "plaintext-appdata":
        return [(23, v, b"attacker data")], 0, bad | {"unexpected_message"}
    if cls == "plaintext-handshake":
        return [(22, v, bytes([1, 0, 0, 2, 3, 3]))], 0, bad | {"unexpected_message"}
    if cls == "garbage":
        return [(t, v, rb(rng, rng.choice([0, 1, 31, 32, 33, 200])))], 0, bad | {"unexpected_message"}
    if cls == "oversize":
        return [(t, v, rb(rng, 2 ** 14 + 2049))], 0, {"record_overflow"}
    if cls == "sslv2-framed":
        # first byte is no ContentType: RecordSocket parses an SSLv2 header; raw bytes, see inject below
        n = rng.choice([5, 16, 24, 32])
        return [("raw", None, bytes([0x80, n]) + rb(rng, n))], 0, {"unexpected_message"}
    # TLS 1.3
    if cls == "outer-type":
        return [(rng.choice([21, 22, 24]), v, b)], 0, {"unexpected_message"}
    if cls == "outer-version":
        return [(t, rng.choice([(3, 1), (3, 4), (3, 2)]), b)], 0, {"illegal_parameter"}
    if cls == "zero-body":
        return [(t, v, b"")], 0, bad
    if cls == "append-zeros":
        return [(t, v, b + bytes(rng.choice([1, 16])))], 0, bad
    if cls == "all-zero-inner":
        return [(t, v, bytes(len(b)))], 0, bad | {"unexpected_message"}
    if cls == "plaintext-ccs":
        # an unprotected ChangeCipherSpec spliced in after the handshake: never to be skipped silently
        # (TLS 1.3: the record layer hands it up, the connection layer must refuse it; <= 1.2: it is
        # processed as a protected record and fails)
        return [(20, (3, 3) if cfg["ver"] >= (3, 4) else cfg["ver"], b"\x01")], 0, \
            ({"unexpected_message"} if cfg["ver"] >= (3, 4) else bad | {"unexpected_message"})
    if cls == "plaintext-ccs-after-data":
        return [r0, (20, (3, 3) if cfg["ver"] >= (3, 4) else cfg["ver"], b"\x01")], 1, \
            ({"unexpected_message"} if cfg["ver"] >= (3, 4) else bad | {"unexpected_message"})
    return None, 0, bad


def drive_read(L, who, mode):
    """read until something other than data happens; returns (delivered bytes, outcome, exception)"""
    delivered = bytearray()
    conn = L.end(who).conn
    if mode == "read":
        for _ in range(8):
            r = L.read(who, None, 1)
            if r[0] == "ok" and r[1]:
                delivered += r[1]
                continue
            return bytes(delivered), r[0], (r[1] if r[0] == "error" else None)
        return bytes(delivered), "ok", None
    # _getMsg driven directly (what every handshake step uses), bypassing readAsync's own handler
    from tlslite.constants import ContentType, HandshakeType
    from tlslite.messages import ApplicationData
    for _ in range(8):
        if conn.version > (3, 3):
            # what readAsync expects after a TLS 1.3 handshake
            sec = (HandshakeType.new_session_ticket, HandshakeType.key_update) if conn._client else (HandshakeType.key_update,)
            gen = conn._getMsg((ContentType.application_data, ContentType.handshake), sec)
        else:
            gen = conn._getMsg(ContentType.application_data)
        r = L.op(who, gen, pump_other=False)
        if r[0] == "ok" and isinstance(r[1], ApplicationData):
            delivered += bytes(r[1].write())
            continue
        return bytes(delivered), r[0], (r[1] if r[0] == "error" else None)
    return bytes(delivered), "ok", None


def mid_handshake_alert(ctx, cfg):
    """TLS 1.3 client in the middle of the server's encrypted flight (read sequence number > 0 under the
    handshake key): an injected unprotected alert must be fatal for the client, never taken as the peer's"""
    label = "%d.%d/%s" % (cfg["ver"][0], cfg["ver"][1], cfg["cipher"])
    state = {"n": 0, "injected": False}

    def flt(direction, t, v, b):
        out = [(t, v, b)]
        if direction == "s2c" and t == 23:
            state["n"] += 1
            if state["n"] == 2 and not state["injected"]:
                state["injected"] = True
                out.append((21, (3, 3), bytes([1, 0])))      # warning close_notify, in the clear
        return out

    accepted = []

    def before(L):
        L.link.record_filter = flt
        R.observe_recv(L.client.conn, accepted)     # what the client's record layer hands up
    # a small limit advertised by the client makes the server's flight span many records
    L = R.connect(dict(cfg, rsl=(64, "default"), before_run=before))
    if not state["injected"]:
        ctx.count("L2:mid-handshake-not-reached")
        return
    exc = L.client.exc
    ctx.case(key=("L2", label, "client", "plaintext-alert-mid-handshake"), sample=None)
    ctx.count("L2:plaintext-alert-mid-handshake:%s" % R.lab.exc_class(exc))
    from tlslite.errors import TLSLocalAlert
    problems = []
    if L.client.state != "error" or not isinstance(exc, TLSLocalAlert) or exc.level != 2 or \
            ALERT_NAME.get(exc.description) not in DOCUMENTED:
        problems.append("client outcome %s %s instead of a fatal integrity alert" % (L.client.state, R.lab.exc_class(exc)))
    if not L.client.conn.closed:
        problems.append("client connection not closed")
    if (21, 2) in accepted:
        # the server has sent no alert: the only 2-byte alert around is the attacker's
        problems.append("the record layer accepted the unprotected alert although 2 protected records had been received "
                        "under the current key")
    if problems:
        ctx.violation("c02:tls13-plaintext-alert-accepted-mid-handshake",
                      "unprotected alert injected after the first protected handshake record: %s [%s]" % ("; ".join(problems), label),
                      dict(stage="L2", cfg=jcfg(cfg), receiver="client", cls="plaintext-alert-mid-handshake", mode="read"))


def live_connection_case(ctx, cfg, receiver, cls, mode, payloads=None):
    if cls == "plaintext-alert-mid-handshake":
        return mid_handshake_alert(ctx, cfg)
    rng = ctx.rng
    label = "%d.%d/%s/etm=%s" % (cfg["ver"][0], cfg["ver"][1], cfg["cipher"], cfg["etm"])
    label += "".join("/" + k for k in ("hrr", "client_cert", "req_cert") if cfg.get(k))
    payloads = payloads or [b"first record", b"second", b"third rec", b"4"]
    sender = "client" if receiver == "server" else "server"
    d = "c2s" if sender == "client" else "s2c"
    rep = dict(stage="L2", cfg=jcfg(cfg), receiver=receiver, cls=cls, mode=mode)
    known_key = None
    if cls.startswith("keyed:"):
        L = R.connect(cfg)
        if L.client.state != "done" or L.server.state != "done":
            return
        R.drain_post_handshake(L)
        conn = L.end(receiver).conn
        ws = peer_write_state(L, receiver)
        chosen = [c for c in craft_keyed(ws, cfg["ver"], cfg["ver"] >= (3, 4), conn._recordLayer.recv_record_limit, rng,
                                         only=cls[6:])
                  if c[0] == cls[6:]]
        if not chosen or (chosen[0][2] != "reject" and chosen[0][2][0] == "accept"):
            return
        L.link.inject(d, wire(chosen[0][1]))
        expect = set(DOCUMENTED) if chosen[0][2] == "reject" else {"unexpected_message"}
        pre = b""
    elif cls in ("plaintext-alert-at-seq0", "plaintext-alert-after-data", "old-key-after-keyupdate",
                 "old-key-after-2-keyupdates", "old-key-after-3-keyupdates"):
        L = R.connect(cfg)
        if L.client.state != "done" or L.server.state != "done":
            return
        R.drain_post_handshake(L)
        conn = L.end(receiver).conn
        honest = 0
        if cls == "plaintext-alert-at-seq0":
            # by design while keys are fresh (early handshake); after the handshake: finding, see below
            L.link.inject(d, wire((21, (3, 3), bytes([1, 0]))))
            expect = {"bad_record_mac", "unexpected_message"}
            known_key = "c02:tls13-plaintext-alert-accepted-after-handshake"
        elif cls == "plaintext-alert-after-data":
            L.write(sender, payloads[0])
            expect = {"bad_record_mac", "unexpected_message"}
        else:
            from tlslite.constants import KeyUpdateMessageType
            seen = []

            def tap(direction, t, v, b):
                if direction == d:
                    seen.append((t, v, bytes(b)))
                return [(t, v, b)]
            L.link.record_filter = tap
            rounds = 2 if "-2-" in cls else (3 if "-3-" in cls else 1)
            stale = None
            for rnd in range(rounds):
                # one record in the current epoch (sequence number 0 when rnd > 0), then the key update
                del seen[:]
                L.write(sender, payloads[rnd % len(payloads)])
                got0 = L.read(receiver, None, len(payloads[rnd % len(payloads)]))
                if got0[0] != "ok" or got0[1] != payloads[rnd % len(payloads)]:
                    ctx.violation("c02:honest-rejected", "honest record in key epoch %d not delivered [%s]" % (rnd, label), rep)
                    return
                stale = seen[-1]
                mt = KeyUpdateMessageType.update_requested if rnd % 2 else KeyUpdateMessageType.update_not_requested
                L.op(sender, L.end(sender).conn.send_keyupdate_request(mt))
                L.read(receiver, None, 0)    # processes the KeyUpdate: new read key, sequence number 0
                if rnd % 2:
                    L.read(sender, None, 0)  # ... and the requested answer
            L.link.record_filter = None
            # the first record of the PREVIOUS epoch, replayed at the same sequence number of the new epoch
            L.link.inject(d, wire(stale))
            honest = 0
            expect = {"bad_record_mac"}
        if cls == "plaintext-alert-after-data":
            got0 = L.read(receiver, None, len(payloads[0]))
            if got0[0] != "ok" or got0[1] != payloads[0]:
                ctx.violation("c02:honest-rejected", "honest record not delivered [%s]" % label, rep)
                return
        if cls == "plaintext-alert-after-data":
            L.link.inject(d, wire((21, (3, 3), bytes([1, 0]))))
        pre = b""
    else:
        w = setup_window(ctx, cfg, receiver, payloads)
        if w is None:
            return
        L, cap, sent, refl = w
        other = []
        if cls == "other-connection":
            w2 = setup_window(ctx, cfg, receiver, payloads, reflect=False)
            other = w2[2] if w2 else []
        if len(sent) < 3 or not refl:
            return
        b = build_l2(cls, sent, refl, other, rng, cfg)
        if b is None or b[0] is None:
            return
        recs, honest, expect = b
        cap.hold = False
        L.link.record_filter = None
        for r in recs:
            L.link.inject(d, r[2] if r[0] == "raw" else wire(r))
        conn = L.end(receiver).conn
        # plaintext the honest prefix carries (TLS <= 1.0 CBC splits a write into 1 + (n-1) bytes)
        pre = b""
        if honest:
            pre = payloads[0][:1] if (cfg["ver"] <= (3, 1) and R.CIPHER_SHAPE[cfg["cipher"]][0] == "block" and len(sent) > len(payloads)) \
                else payloads[0]
    n_before = len(L.link.wire_log["c2s" if receiver == "client" else "s2c"])
    delivered, outcome, exc = drive_read(L, receiver, mode)
    ctx.case(key=("L2", label, receiver, cls, mode), sample=dict(stream="L2", cfg=label, cls=cls, mode=mode,
                                                                outcome=R.lab.exc_class(exc) if exc else outcome)
             if ctx.evaluations % 211 == 0 else None)
    ctx.count("L2:%s:%s" % (cls, R.lab.exc_class(exc) if exc is not None else outcome))
    from tlslite.errors import TLSLocalAlert
    problems = []
    if delivered != pre:
        problems.append("delivered %d bytes, the honest prefix carries %d" % (len(delivered), len(pre)))
    if not isinstance(exc, TLSLocalAlert):
        problems.append("no fatal local alert raised (outcome %s %s)" % (outcome, R.lab.exc_class(exc) if exc else ""))
    else:
        name = ALERT_NAME.get(exc.description, str(exc.description))
        if name not in DOCUMENTED or exc.level != 2:
            problems.append("alert %s level %s is not a documented fatal integrity/decoding alert" % (name, exc.level))
        elif name not in expect:
            ctx.compared()
            ctx.disagree("L2-alert-class", dict(cfg=jcfg(cfg), cls=cls, mode=mode), sorted(expect), name)
    if not conn.closed:
        problems.append("connection not closed")
    if conn.session is not None and conn.session.resumable:
        problems.append("session still resumable")
    # the alert is on the wire and the peer can read it
    new = L.link.wire_log["c2s" if receiver == "client" else "s2c"][n_before:]
    if isinstance(exc, TLSLocalAlert):
        if not new:
            problems.append("no alert record on the wire")
        else:
            pr = L.read(sender, None, 1)
            from tlslite.errors import TLSRemoteAlert
            if not (pr[0] == "error" and isinstance(pr[1], TLSRemoteAlert) and pr[1].description == exc.description
                    and pr[1].level == 2):
                problems.append("peer did not receive the same fatal alert (got %s)"
                                % (R.lab.exc_class(pr[1]) if pr[0] == "error" else pr[0]))
    # closed is final: nothing more is delivered, writes are refused
    if conn.closed:
        again = L.read(receiver, None, 1)
        if not (again[0] == "ok" and again[1] == b""):
            problems.append("read after close returned %r" % (again,))
        wr = L.write(receiver, b"x")
        if wr[0] != "error":
            problems.append("write after close did not raise")
    if cls == "sslv2-framed" and problems:
        known_key = "c02:sslv2-framed-record-not-rejected-with-alert"
    if problems:
        key = known_key or ("c02:reject-not-fatal:%s" % cls)
        ctx.violation(key, "mutation class %s presented to %s via %s: %s [%s]" % (cls, receiver, mode, "; ".join(problems), label),
                      rep)


def live_configs(ctx):
    thorough = ctx.thorough()
    for ver in R.VERSIONS:
        for cipher in R.ciphers_for(ver, thorough):
            kind = R.CIPHER_SHAPE[cipher][0]
            etms = [True, False] if (kind == "block" and ver >= (3, 1)) else [True]
            for etm in etms:
                yield dict(ver=ver, cipher=cipher, etm=etm, rsl=("default", "default"), cred="rsa")
    if thorough:
        seen = set()
        for (suite, vers, c, m, kx, cred) in R.suite_matrix():
            for ver in vers:
                key = (ver, c, m)
                if key in seen:
                    continue
                seen.add(key)
                yield dict(ver=ver, cipher=c, etm=True, rsl=("default", "default"), cred=cred, macs=[m],
                           kx=[kx] if kx else None, suite=suite)


# ------------------------------------------------------------------------------------------------
# the early-data window: TLS 1.3 server after a ClientHello that offers 0-RTT

ED_PSK = [(b"c02-identity", bytearray(b"\x5a" * 32), "sha256")]


class OfferEarlyData(object):
    """make the library client put an (empty) early_data extension next to its pre_shared_key, before the
    binders are computed (tlslite's client never offers 0-RTT itself); restored on exit"""
    def __enter__(self):
        from tlslite.handshakehelpers import HandshakeHelpers
        from tlslite.extensions import TLSExtension
        from tlslite.constants import ExtensionType
        self.hh = HandshakeHelpers
        self.orig = HandshakeHelpers.__dict__["update_binders"]
        orig = HandshakeHelpers.update_binders

        def patched(client_hello, *a, **kw):
            if not client_hello.getExtension(ExtensionType.early_data):
                ext = TLSExtension(extType=ExtensionType.early_data).create(ExtensionType.early_data, bytearray(0))
                client_hello.extensions.insert(len(client_hello.extensions) - 1, ext)   # pre_shared_key stays last
            return orig(client_hello, *a, **kw)
        HandshakeHelpers.update_binders = staticmethod(patched)
        return self

    def __exit__(self, *a):
        self.hh.update_binders = self.orig


def ed_handshake(cipher, rs, max_early, inject=None):
    """PSK handshake, client offering 0-RTT and fragmenting its second flight to `rs` bytes.
    inject = (position, [records]): the records are put on the wire just before the client's record
    number `position` (0 = the ClientHello); position None: nothing.  Returns (lab, client records seen)."""
    seen = []

    def mk(who):
        st = R.make_settings((3, 4), cipher)
        st.pskConfigs = list(ED_PSK)
        if who == "server":
            st.max_early_data = max_early
        return st
    L = R.lab.Lab()

    def flt(direction, t, v, b):
        out = []
        if direction == "c2s":
            if inject is not None and inject[0] == len(seen):
                out += list(inject[1])
            seen.append((t, v, bytes(b)))
            if len(seen) == 1:
                L.client.conn.recordSize = rs        # everything after the ClientHello is fragmented
        out.append((t, v, b))
        return out
    L.link.record_filter = flt
    with OfferEarlyData():
        L.start_client(lambda c: c.handshakeClientCert(settings=mk("client"), async_=True))
        L.start_server(lambda c: c.handshakeServerAsync(settings=mk("server")))
        L.run()
    return L, seen


def early_data_case(ctx, cipher, rs, max_early, pos, kind, size):
    """one undecryptable record of `size` bytes (optionally with an unprotected CCS before / after it) at
    position `pos` of the client's second flight ('after' = behind the Finished).  Ideal behaviour: while no
    record has decrypted under the handshake key the server may skip it if fewer than max_early_data bytes
    were skipped in total; from the first decrypted record on it is fatal bad_record_mac, for good."""
    rng = ctx.rng
    label = "3.4/%s/0-RTT offered/recordSize=%d/max_early_data=%d" % (cipher, rs, max_early)
    rep = dict(stage="ED", cipher=cipher, rs=rs, max_early=max_early, pos=pos, kind=kind, size=size)
    ctrl, flight = ed_handshake(cipher, rs, max_early)
    if ctrl.client.state != "done" or ctrl.server.state != "done":
        ctx.violation("c02:early-data-control-failed", "0-RTT-offering PSK handshake with a fragmented second flight fails "
                      "without any injection: client %s, server %s [%s]"
                      % (R.lab.exc_class(ctrl.client.exc), R.lab.exc_class(ctrl.server.exc), label), rep)
        return
    enc = [i for i, r in enumerate(flight) if i > 0 and r[0] == 23]
    if not enc:
        return
    first_enc = enc[0]
    forged = (23, (3, 3), rb(rng, size))
    ccs = (20, (3, 3), b"\x01")
    recs = {"forged": [forged], "ccs+forged": [ccs, forged], "forged+ccs": [forged, ccs]}[kind]
    from tlslite.errors import TLSLocalAlert
    ctx.case(key=("ED", cipher, rs, max_early, pos, kind, size), sample=None)
    if pos == "after":
        L = ctrl
        for r in recs:
            L.link.inject("c2s", wire(r))
        delivered, outcome, exc = drive_read(L, "server", "read")
        window_open = False
    else:
        if pos > len(flight) - 1:
            return
        L, _ = ed_handshake(cipher, rs, max_early, inject=(pos, recs))
        exc = L.server.exc
        delivered = b""
        window_open = pos <= first_enc           # nothing has decrypted under the handshake key yet
    may_skip = window_open and size < max_early
    fatal = isinstance(exc, TLSLocalAlert) and exc.level == 2 and ALERT_NAME.get(exc.description) == "bad_record_mac"
    if pos == "after" and kind != "forged":
        # behind the Finished an unprotected CCS is itself fatal (unexpected_message), whichever comes first
        fatal = isinstance(exc, TLSLocalAlert) and exc.level == 2 and \
            ALERT_NAME.get(exc.description) in ("bad_record_mac", "unexpected_message")
    conn = L.server.conn
    ctx.count("ED:%s:%s:%s" % ("window-open" if window_open else "window-closed", kind,
                               R.lab.exc_class(exc) if exc is not None else L.server.state))
    problems = []
    if not window_open:
        # the mutant-proof part: a record has decrypted already, skipping is over for good
        if not fatal:
            problems.append("an undecryptable record AFTER a record had decrypted was not fatal bad_record_mac "
                            "(server: %s %s)" % (L.server.state, R.lab.exc_class(exc) if exc else ""))
        if not conn.closed:
            problems.append("server connection not closed")
        if delivered:
            problems.append("%d bytes delivered" % len(delivered))
    else:
        if fatal and conn.closed:
            skipped = False
        elif exc is None and L.server.state == "done" and L.client.state == "done":
            skipped = True
            # the skipped record yields nothing and the stream continues exactly
            L.link.record_filter = None
            L.write("client", b"after the skipped record")
            r = L.read("server", None, 24)
            if r[0] != "ok" or r[1] != b"after the skipped record":
                problems.append("after skipping, the server read %r" % (r[1] if r[0] == "ok" else R.lab.exc_class(r[1]),))
        else:
            skipped = None
            problems.append("neither skipped nor fatal bad_record_mac: server %s %s, client %s"
                            % (L.server.state, R.lab.exc_class(exc) if exc else "", L.client.state))
        if skipped is not None:
            ctx.compared()
            if skipped != may_skip:
                ctx.disagree("early-data-window", dict(rep), "skip" if may_skip else "bad_record_mac",
                             "skip" if skipped else "bad_record_mac")
    if problems:
        ctx.violation("c02:early-data-skip-unsafe:%s" % ("after-decrypt" if not window_open else "window"),
                      "0-RTT offered, %s of %d bytes at position %s of the client's second flight (first protected record "
                      "is number %d): %s [%s]" % (kind, size, pos, first_enc, "; ".join(problems), label), rep)


def early_data_stream(ctx):
    """every position of the client's second flight x {forged, CCS+forged, forged+CCS} x sizes within and
    beyond max_early_data x fragmentations; deterministic, outside any time budget"""
    ciphers = ["aes128gcm"] + (["chacha20-poly1305"] if ctx.thorough() else [])
    for cipher in ciphers:
        for rs, max_early in ((20, 2 ** 14 + 16), (10, 100), (16384, 100)):
            _, flight = ed_handshake(cipher, rs, max_early)
            n = len(flight)
            sizes = [40, max_early - 1, max_early] if max_early <= 100 else [40, 16399, 16400]
            for pos in list(range(1, n)) + ["after"]:
                for kind in ("forged", "ccs+forged", "forged+ccs"):
                    for size in sizes:
                        if size > 16384 + 256:
                            continue
                        try:
                            early_data_case(ctx, cipher, rs, max_early, pos, kind, size)
                        except Exception as e:  # noqa: B902
                            import traceback
                            ctx.violation("c02:exception", "exception in the early-data stream: %s: %s" % (type(e).__name__, e),
                                          dict(stage="exception", traceback=traceback.format_exc()[-1500:]))



def directed_classes(ctx, cfg, i):
    """every directed mutation class of one configuration at connection level (fresh handshake each)"""
    rng = ctx.rng
    classes = list(L2_CLASSES) + (L2_CLASSES_13 if cfg["ver"] >= (3, 4) else [])
    if not ctx.thorough() and cfg["cipher"] in R.SLOW:
        classes = ["flip", "replay", "trunc", "reflect"]
    for n, cls in enumerate(classes):
        modes = ["read", "getmsg"] if ctx.thorough() else [("read", "getmsg")[(n + i) % 2]]
        if cls in ("flip", "oversize", "outer-type", "outer-version", "trunc"):
            modes = ["read", "getmsg"]
        for mode in modes:
            who = rng.choice(["client", "server"])
            live_connection_case(ctx, cfg, who, cls, mode)
    # keyed faulty peer at connection level: every must-reject / bad-type record of this path
    probe = R.connect(cfg)
    if probe.client.state == "done" and probe.server.state == "done":
        names = [c[0] for c in craft_keyed(peer_write_state(probe, "server"), cfg["ver"], cfg["ver"] >= (3, 4), 16384, rng, only="")
                 if c[2] == "reject" or c[2][0] == "conn-reject"]
        lp = [x for x in names if "longpad" in x]
        names = [x for x in names if "longpad" not in x] + rng.sample(lp, min(len(lp), 3 if not ctx.thorough() else 12))
        if not ctx.thorough() and cfg["cipher"] in R.SLOW:
            names = names[:3] + names[-1:]
        for n, nm in enumerate(names):
            live_connection_case(ctx, cfg, ("client", "server")[(n + i) % 2], "keyed:" + nm,
                                 ("read", "getmsg")[(n // 2 + i) % 2])
    if cfg["ver"] >= (3, 4):
        # unprotected ChangeCipherSpec after the handshake: both roles x {client with / without a
        # certificate, server with / without reqCert} x {before / after the first protected record}
        n = 0
        for who in ("client", "server"):
            for (cc, rq) in ((False, False), (True, True), (False, True)):
                for cls in ("plaintext-ccs", "plaintext-ccs-after-data"):
                    n += 1
                    live_connection_case(ctx, dict(cfg, client_cert=cc, req_cert=rq), who, cls,
                                         ("read", "getmsg")[(n + i) % 2])
            # ... and after a handshake that went through a HelloRetryRequest (the client's
            # compatibility CCS is sent early there)
            for cls in ("plaintext-ccs", "plaintext-ccs-after-data"):
                n += 1
                live_connection_case(ctx, dict(cfg, hrr=True), who, cls, ("read", "getmsg")[(n + i) % 2])


def guarded(ctx, cfg, fn):
    try:
        fn()
    except Exception as e:  # noqa: B902 - the machinery must not die on one configuration
        import traceback
        ctx.violation("c02:exception", "exception in the receive path or the harness: %s: %s" % (type(e).__name__, e),
                      dict(stage="exception", cfg=jcfg(cfg), traceback=traceback.format_exc()[-1500:]))


def live_streams(ctx):
    """Order: (1) every directed class of every configuration at connection level — TLS 1.3 first — and
    (2) the record-layer windows with the deterministic families (keyed faulty peer incl. long paddings,
    truncation inside a run of equal bytes, all replay / reorder pairs, every bit flip of the first record)
    run whatever the machine load, outside any time budget.  Only (3) the additional windows of the thorough
    tier (other receiver, longer records) are cut by time; what was cut is recorded in the evidence."""
    rng = ctx.rng
    budget = ctx.pick(140, 1000)
    cfgs = list(live_configs(ctx))
    cfgs.sort(key=lambda c: 0 if c["ver"] >= (3, 4) else 1)       # stable: TLS 1.3 window classes first
    cut = ctx.extra.setdefault("streams_cut_by_time", [])
    recvs = {}
    for i, cfg in enumerate(cfgs, 1):
        guarded(ctx, cfg, lambda: directed_classes(ctx, cfg, i))
    for i, cfg in enumerate(cfgs, 1):
        recv = "server" if (i + ctx.seed) % 2 else "client"
        recvs[i] = recv

        def windows():
            live_recordlayer(ctx, cfg, recv)
            if R.CIPHER_SHAPE[cfg["cipher"]][0] == "block" and (not cfg["etm"] or cfg["ver"] == (3, 0) or ctx.thorough()):
                live_recordlayer(ctx, cfg, recv, variant=3)
        guarded(ctx, cfg, windows)
    if ctx.thorough():
        order = list(enumerate(cfgs, 1))
        rng.shuffle(order)
        for i, cfg in order:
            if _since_run(ctx) > budget:
                ctx.count("live:skipped-out-of-time")
                if "L1: additional windows (other receiver, longer records) dropped" not in cut:
                    cut.append("L1: additional windows (other receiver, longer records) dropped")
                continue
            recv = recvs[i]

            def more():
                live_recordlayer(ctx, cfg, "client" if recv == "server" else "server", variant=1)
                live_recordlayer(ctx, cfg, recv, variant=2)
            guarded(ctx, cfg, more)


def _since_run(ctx):
    import time as _time
    return _time.time() - getattr(ctx, "_t_run", ctx.t0)


def run(ctx):
    import time as _time
    ctx._t_run = _time.time()      # budgets count from here: the Lean build before it does not eat them
    ctx.rule = ("toy stream: path x version x content type x payload length (incl. padding-length-0 records) x mutation (all bit "
                "flips of short records, all truncations, extensions, seq+-1, type, version, chaining state, random, zeros) x "
                "early-data window x receive limit; L1: version x cipher path x EtM, 4-record honest windows, every bit flip and "
                "truncation of the first record, extensions, all replay/reorder/drop pairs, reflection, other connection, TLS 1.3 "
                "forgeries at record-layer level; L2: one fresh handshake per mutation class, public read() and _getMsg; "
                "distinct = distinct (configuration, receiver, mutation); non-trivial = all")
    ctx.assumptions = ["payloads of a window are distinct, so (type, plaintext) equality identifies the record",
                       "documented rejection set: bad_record_mac, decryption_failed, record_overflow, unexpected_message, "
                       "illegal_parameter, decode_error (all fatal)",
                       "early_data_ok (TLS 1.3 server right after ClientHello) makes undecryptable records non-fatal by design; "
                       "covered by the toy stream and early_data_skip_safe, not by the live streams (which start after the handshake)"]
    # directed / deterministic families first and outside any time budget; the random toy bulk last
    early_data_stream(ctx)
    live_streams(ctx)
    ctx.extra.pop("_variant", None)
    toy_keyed(ctx)
    toy_decisions(ctx)


def replay(ctx, rep):
    inp = rep["input"]
    st = inp.get("stage")
    if st == "L1":
        live_recordlayer(ctx, ucfg(inp["cfg"]), inp["receiver"], only_spec=inp["spec"], variant=inp.get("variant", 0))
    elif st == "ED":
        early_data_case(ctx, inp["cipher"], inp["rs"], inp["max_early"], inp["pos"], inp["kind"], inp["size"])
    elif st == "toy-keyed":
        toy_keyed(ctx)
    elif st == "L2":
        live_connection_case(ctx, ucfg(inp["cfg"]), inp["receiver"], inp["cls"], inp["mode"])
    else:
        print("replay of stage %r: re-running the whole check" % st)
        run(ctx)
    for v in ctx.violations:
        print("  ", v["key"], v["what"][:300])
    return bool(ctx.violations or ctx.disagreements)
