"""C05 helper: live scenarios for the signature sites (ServerKeyExchange, CertificateVerify of
TLS <= 1.2 / TLS 1.3 both directions, post-handshake authentication, delegated credential).

Site names are by VERIFIER:  ske (client), cv12 (server), cv13c (TLS 1.3 client checks the server's
CertificateVerify), cv13s (TLS 1.3 server checks the client's), pha (server), dc (TLS 1.3 client).
"""
from .. import lab
from . import c05_peer as P

SERVER_PROVES = ("ske", "cv13c", "dc")


def tls13_settings(s):
    s.eccCurves = [c for c in s.eccCurves if "brainpool" not in c]
    return s


def mk_settings(case, role_is_verifier):
    ver = (3, case["ver"])
    minv = ver
    if role_is_verifier and case.get("vmix"):
        minv = (3, 3)
    s = lab.settings(minv=minv, maxv=ver)
    # plain Certificate messages (the peer edits them); compression is C08's subject
    s.certificate_compression_send = []
    if case["ver"] == 4:
        keep_bp = case.get("present") in ("brainpool256",) or case.get("cred") in ("brainpool256",)
        if not keep_bp:
            tls13_settings(s)
    if case.get("kx") == "dhe":
        s.keyExchangeNames = ["dhe_rsa", "dhe_dsa"]
    if role_is_verifier:
        for k, v in (case.get("restrict") or {}).items():
            setattr(s, k, v)
    return s


def signer_key(case):
    shown = case.get("present") or case["cred"]
    who = case.get("signer", "cred")
    if who == "ee":
        return P.key_of(shown)
    if who == "cred":
        return P.key_of(case["cred"])
    if who == "other":
        return P.key_of(P.OTHER[shown])
    return P.key_of(who)


class Capture(object):
    def __init__(self):
        self.cr = self.sr = None
        self.suite = None
        self.ch_sigalgs = None
        self.ch_dcalgs = None
        self.creq_algs = None
        self.creq_bytes = None
        self.cert_bytes = None
        self.orig_sig = None
        self.orig_label = None
        self.sent_sig = None
        self.sent_label = None
        self.touched = False
        self.harness_error = None

    def see(self, msg):
        from tlslite.constants import ExtensionType
        n = type(msg).__name__
        if n == "ClientHello":
            self.cr = bytes(msg.random)
            e = msg.getExtension(ExtensionType.signature_algorithms)
            self.ch_sigalgs = [tuple(x) for x in e.sigalgs] if e is not None and e.sigalgs else []
            d = msg.getExtension(ExtensionType.delegated_credential)
            self.ch_dcalgs = [tuple(x) for x in d.sigalgs] if d is not None and d.sigalgs else []
        elif n == "ServerHello":
            self.sr = bytes(msg.random)
            self.suite = msg.cipher_suite
        elif n == "CertificateRequest":
            self.creq_algs = [tuple(x) for x in (msg.supported_signature_algs or [])]
            self.creq_bytes = bytes(msg.write())

    def prf(self):
        from tlslite.constants import CipherSuite
        return "sha384" if self.suite in CipherSuite.sha384PrfSuites else "sha256"


def _new_sig(case, cap, M_this, M_alt, legacy, rng, replay_sig):
    """signature bytes to send instead of the honest ones (None = keep)"""
    label = tuple(case["label"]) if case.get("label") else None
    salg = case.get("salg")
    msg = case.get("msg", "this")
    sig = None
    if msg == "replay":
        sig = replay_sig
    elif salg is not None or case.get("signer", "cred") != "cred" or msg != "this":
        if salg == "label":
            sid = label
        elif salg is not None:
            sid = tuple(salg)
        else:
            sid = cap.orig_label
        M = M_this if msg == "this" else M_alt
        try:
            sig = P.sign_msg(signer_key(case), sid, M, legacy=legacy)
        except TypeError as e:
            cap.harness_error = "cannot sign: %s" % e
            sig = None
    base = sig if sig is not None else cap.orig_sig
    shown = case.get("present") or case["cred"]
    return P.mutate(case.get("form", "ok"), base, rng, P.key_of(shown))


def run_handshake_site(case, rng, replay_sig=None):
    """ske / cv12 / cv13c / cv13s: one full handshake with the target message edited on the prover"""
    site = case["site"]
    server_proves = site in SERVER_PROVES
    cs = mk_settings(case, server_proves)        # client verifies when the server proves
    ss = mk_settings(case, not server_proves)
    chain, key = lab.creds(case["cred"])
    spy = P.Spy(key)
    L = lab.Lab()
    if server_proves:
        L.start_client(lambda c: c.handshakeClientCert(settings=cs, async_=True))
        L.start_server(lambda c: c.handshakeServerAsync(certChain=chain, privateKey=spy.key, settings=ss))
        prover, verifier = L.server, L.client
    else:
        schain, skey = lab.creds("rsa")
        L.start_client(lambda c: c.handshakeClientCert(certChain=chain, privateKey=spy.key, settings=cs, async_=True))
        L.start_server(lambda c: c.handshakeServerAsync(certChain=schain, privateKey=skey, settings=ss, reqCert=True))
        prover, verifier = L.client, L.server
    if case.get("force_client_sigalg") and not server_proves:
        orig = prover.conn._sigHashesToList
        forced = [tuple(case["force_client_sigalg"])]
        prover.conn._sigHashesToList = lambda settings, privateKey=None, certList=None, version=(3, 3): \
            (forced if privateKey is not None else orig(settings, privateKey, certList, version))
    want = "ServerKeyExchange" if site == "ske" else "CertificateVerify"
    cap = Capture()
    intact = (case.get("form", "ok") == "ok" and not case.get("label") and case.get("salg") is None and
              case.get("signer", "cred") == "cred" and not case.get("present") and case.get("msg", "this") == "this")

    def pfn(kind, msg):
        cap.see(msg)
        n = type(msg).__name__
        if n == "Certificate" and case.get("present"):
            newchain = lab.creds(case["present"])[0]
            ctxb = getattr(msg, "certificate_request_context", None)
            msg.create(newchain, ctxb if ctxb is not None else b"")
            cap.cert_bytes = bytes(msg.write())
        if n == want and spy.calls and not cap.touched:
            cap.touched = True
            conn = prover.conn
            transcript = bytes(conn._handshake_hash._handshake_buffer)
            if case.get("form") == "omit":
                return []
            if site == "ske":
                cap.orig_label = (msg.hashAlg, msg.signAlg) if case["ver"] >= 3 else None
                cap.orig_sig = bytes(msg.signature)
                if intact:
                    cap.sent_label, cap.sent_sig = cap.orig_label, cap.orig_sig
                    return [msg]
                if case.get("label"):
                    msg.hashAlg, msg.signAlg = tuple(case["label"])
                cr_alt = bytes([cap.cr[0] ^ 1]) + cap.cr[1:]
                M = cap.cr + cap.sr + bytes(msg.writeParams())
                M_alt = cr_alt + cap.sr + bytes(msg.writeParams())
                msg.signature = bytearray(_new_sig(case, cap, M, M_alt, "ske", rng, replay_sig))
                cap.sent_label = (msg.hashAlg, msg.signAlg) if case["ver"] >= 3 else None
            else:
                cap.orig_label = tuple(msg.signatureAlgorithm) if msg.signatureAlgorithm else None
                cap.orig_sig = bytes(msg.signature)
                if intact:
                    cap.sent_label, cap.sent_sig = cap.orig_label, cap.orig_sig
                    return [msg]
                if case.get("label"):
                    msg.signatureAlgorithm = tuple(case["label"])
                if case["ver"] == 4:
                    tag, alt = (b"server", b"client") if server_proves else (b"client", b"server")
                    M = P.tbs13(transcript, cap.prf(), tag)
                    M_alt = P.tbs13(transcript, cap.prf(), alt)
                else:
                    M = transcript
                    M_alt = transcript[:-1] + bytes([transcript[-1] ^ 1])
                msg.signature = bytearray(_new_sig(case, cap, M, M_alt, "cv", rng, replay_sig))
                cap.sent_label = tuple(msg.signatureAlgorithm) if msg.signatureAlgorithm else None
            cap.sent_sig = bytes(msg.signature)
        return [msg]

    def vfn(kind, msg):
        cap.see(msg)
        return [msg]
    lab.hook_messages(prover.conn, pfn)
    lab.hook_messages(verifier.conn, vfn)
    L.run()
    return L, verifier, prover, cap


def observe(L, verifier, prover, cap, site):
    conn = verifier.conn
    se = conn.session
    if site in SERVER_PROVES:
        chain = se.serverCertChain if se is not None else None
        offered = cap.ch_sigalgs
    else:
        chain = se.clientCertChain if se is not None else None
        offered = cap.creq_algs
    vexc = lab.exc_class(verifier.exc)
    if verifier.state == "done":
        out = "ok"
    elif vexc.startswith("local_alert:"):
        out = "alert:" + vexc.split(":")[1]
    elif vexc.startswith("remote_alert:"):
        out = "peer_alert:" + vexc.split(":")[1]
    else:
        out = "raise:" + vexc.split(":")[-1]
    pexc = lab.exc_class(prover.exc)
    return {"outcome": out, "completed": verifier.state == "done", "identity": bool(chain),
            "closed": bool(conn.closed), "resumable": (se.resumable if se is not None else None),
            "session": se is not None, "offered": offered, "prover": prover.state + ":" + pexc,
            "alert_seen_by_prover": pexc.startswith("remote_alert:"), "touched": cap.touched,
            "harness_error": cap.harness_error, "orig_label": cap.orig_label, "sent_label": cap.sent_label,
            "sent_sig": cap.sent_sig, "orig_sig": cap.orig_sig}


# ------------------------------------------------------------------------------------------------
def run_pha(case, rng):
    """TLS 1.3 handshake without client auth, then `rounds` post-handshake authentications.
    The client's CertificateVerify is edited in the message hook and its Finished recomputed over
    what is really sent, so only the signature is wrong."""
    from tlslite.utils.cryptomath import HKDF_expand_label, secureHMAC
    base = dict(case, ver=4)
    cs = mk_settings(base, False)
    ss = mk_settings(base, False)       # `restrict` applies to the post-handshake request only
    chain, key = lab.creds(case["cred"])
    spy = P.Spy(key)
    schain, skey = lab.creds("rsa")
    L = lab.Lab()
    L.start_client(lambda c: c.handshakeClientCert(certChain=chain, privateKey=spy.key, settings=cs, async_=True))
    L.start_server(lambda c: c.handshakeServerAsync(certChain=schain, privateKey=skey, settings=ss))
    if case.get("force_client_sigalg"):
        orig = L.client.conn._sigHashesToList
        forced = [tuple(case["force_client_sigalg"])]
        L.client.conn._sigHashesToList = lambda settings, privateKey=None, certList=None, version=(3, 3): \
            (forced if privateKey is not None else orig(settings, privateKey, certList, version))
    cap = Capture()
    state = {"round": 0, "cert": None, "cv": None, "first_sig": None}

    def cfn(kind, msg):
        cap.see(msg)
        n = type(msg).__name__
        if state["round"] == 0:
            return [msg]
        conn = L.client.conn
        if n == "Certificate":
            if case.get("present"):
                msg.create(lab.creds(case["present"])[0], msg.certificate_request_context)
            if case.get("ctx") == "other":
                msg.certificate_request_context = bytearray(b"\x5a" * 32)
            if case.get("ctx") == "empty":
                msg.certificate_request_context = bytearray()
            state["cert"] = bytes(msg.write())
        elif n == "CertificateVerify":
            cap.touched = True
            cap.orig_label = tuple(msg.signatureAlgorithm)
            cap.orig_sig = bytes(msg.signature)
            if state["first_sig"] is None:
                state["first_sig"] = cap.orig_sig
            fh = bytes(conn._first_handshake_hashes._handshake_buffer)
            t_this = fh + cap.creq_bytes + state["cert"]
            if case.get("form") == "omit":
                state["cv"] = b""
                return []
            target = case.get("round", 1)
            if state["round"] == target:
                if case.get("label"):
                    msg.signatureAlgorithm = tuple(case["label"])
                mm = case.get("msg", "this")
                M = P.tbs13(t_this, cap.prf(), b"client")
                if mm == "swaptag":
                    M_alt = P.tbs13(t_this, cap.prf(), b"server")
                elif mm == "nocontext":
                    M_alt = P.tbs13(fh + state["cert"], cap.prf(), b"client")
                else:
                    M_alt = P.tbs13(fh, cap.prf(), b"client")
                rs = state["first_sig"] if mm == "replay" else None
                msg.signature = bytearray(_new_sig(case, cap, M, M_alt, "cv", rng, rs))
            cap.sent_label = tuple(msg.signatureAlgorithm)
            cap.sent_sig = bytes(msg.signature)
            state["cv"] = bytes(msg.write())
        elif n == "Finished" and state["cert"] is not None:
            fh = bytes(conn._first_handshake_hashes._handshake_buffer)
            ctx = fh + cap.creq_bytes + state["cert"] + (state["cv"] or b"")
            prf = cap.prf()
            size = 48 if prf == "sha384" else 32
            fk = HKDF_expand_label(conn.session.cl_app_secret, b"finished", b"", size, prf)
            vd = secureHMAC(fk, bytearray(P.H(prf, ctx)), prf)
            if case.get("fin") == "bad" and state["round"] == case.get("round", 1):
                vd = bytearray(vd)
                vd[0] ^= 1
            msg.verify_data = bytearray(vd)
            state["cert"] = None
            state["cv"] = None
        return [msg]

    def sfn(kind, msg):
        cap.see(msg)
        return [msg]
    lab.hook_messages(L.client.conn, cfn)
    lab.hook_messages(L.server.conn, sfn)
    L.run()
    if L.client.state != "done" or L.server.state != "done":
        return L, cap, [{"outcome": "setup-failed", "completed": False, "identity": False}]
    sconn = L.server.conn
    results = []
    rounds = case.get("rounds", 1)
    pha_settings = mk_settings(base, True)
    # the request must carry a non-empty compress_certificate list; naming only an algorithm the client
    # lacks makes it answer with a plain Certificate message (which the faulty peer can edit)
    pha_settings.certificate_compression_receive = ["brotli"]
    for r in range(1, rounds + 1):
        state["round"] = r
        before = sconn.session.clientCertChain
        r1 = L.op("server", sconn.request_post_handshake_auth(pha_settings))
        r2 = L.read("client", max=0, min=0)
        r3 = L.read("server", max=0, min=0)
        after = sconn.session.clientCertChain
        if r1[0] != "ok" or r2[0] == "error":
            out = "prover-failed"
        elif r3[0] == "error":
            e = lab.exc_class(r3[1])
            out = "alert:" + e.split(":")[1] if e.startswith("local_alert:") else "raise:" + e.split(":")[-1]
        elif False:
            out = "prover-failed"
        else:
            out = "ok"
        results.append({"outcome": out, "completed": out == "ok", "identity": after is not None and after is not before,
                        "chain_set": bool(after), "closed": bool(sconn.closed), "offered": cap.creq_algs,
                        "resumable": sconn.session.resumable, "touched": cap.touched,
                        "harness_error": cap.harness_error, "orig_label": cap.orig_label,
                        "sent_label": cap.sent_label,
                        "prover": r2[0] + (":" + lab.exc_class(r2[1]) + ":" + str(r2[1]) if r2[0] == "error" else "")})
        if out != "ok":
            break
    return L, cap, results


# ------------------------------------------------------------------------------------------------
DC_SCHEMES = {"dc_rsapss": (8, 9), "dc_ed25519": (8, 7), "dc_p256": (4, 3), "dc_p384": (5, 3)}
DC_ALGS = {"dc_rsapss": "rsapss", "dc_ed25519": "ed25519", "dc_p256": "ecdsa", "dc_p384": "ecdsa"}
DC_CURVES = {"dc_p256": "nist256", "dc_p384": "nist384"}


def run_dc(case, rng):
    """TLS 1.3 server with a delegated credential.  case: cred (certificate), dckind, cert_sig (scheme of
    the delegation signature), dcform (ok|bitflip|empty|otherkey), cvform (ok|bitflip|certkey|otherkey),
    offer_dc (list the client puts in the delegated_credential extension), restrict."""
    from tlslite.x509 import DelegatedCredential, Credential
    from tlslite.handshakesettings import DC_VALID_TIME
    base = dict(case, ver=4)
    cs = mk_settings(base, True)
    ss = mk_settings(base, False)
    dckind = case["dckind"]
    dc_sig = DC_SCHEMES[dckind]
    cs.dc_sig_algs = [tuple(x) for x in case.get("offer_dc", [dc_sig])]
    chain, key = lab.creds(case["cred"])
    dkey = P.key_of(dckind)
    pub = P.dc_pub(dckind)
    cert_sig = tuple(case["cert_sig"])
    cred_bytes = Credential.marshal(DC_VALID_TIME, dc_sig, pub)
    cred = Credential(valid_time=DC_VALID_TIME, dc_cert_verify_algorithm=dc_sig,
                      subject_public_key_info=pub, bytes=cred_bytes)
    tbs = b" " * 64 + b"TLS, server delegated credentials\x00" + bytes(chain.x509List[0].bytes) + \
        bytes(cred_bytes) + bytes(cert_sig)
    dcform = case.get("dcform", "ok")
    signer = P.key_of(P.OTHER[case["cred"]]) if dcform == "otherkey" else key
    sig = P.sign_msg(signer, cert_sig, tbs)
    if dcform in ("bitflip", "empty", "short") or dcform.startswith("deg:"):
        sig = P.mutate(dcform, sig, rng, key)
    dc = DelegatedCredential(cred=cred, algorithm=cert_sig, signature=bytearray(sig))
    spy = P.Spy(dkey)
    L = lab.Lab()
    L.start_client(lambda c: c.handshakeClientCert(settings=cs, async_=True))
    L.start_server(lambda c: c.handshakeServerAsync(certChain=chain, privateKey=None, dc_key=spy.key,
                                                       del_cred=dc, settings=ss))
    cap = Capture()
    cvform = case.get("cvform", "ok")

    def sfn(kind, msg):
        cap.see(msg)
        if type(msg).__name__ == "CertificateVerify" and not cap.touched:
            cap.touched = True
            cap.orig_label = tuple(msg.signatureAlgorithm)
            cap.orig_sig = bytes(msg.signature)
            transcript = bytes(L.server.conn._handshake_hash._handshake_buffer)
            M = P.tbs13(transcript, cap.prf(), b"server")
            try:
                if cvform == "certkey":
                    # sign with the certificate key under a scheme that key can do, keep the DC label
                    msg.signature = bytearray(P.sign_msg(key, cert_sig, M))
                elif cvform == "otherkey":
                    msg.signature = bytearray(P.sign_msg(P.key_of(P.OTHER.get(dckind, "ed25519_other")
                                                         if dckind == "dc_ed25519" else dckind), dc_sig, M))
                elif cvform in ("bitflip", "empty", "short") or cvform.startswith("deg:"):
                    msg.signature = bytearray(P.mutate(cvform, msg.signature, rng, dkey))
            except TypeError as e:
                cap.harness_error = str(e)
            cap.sent_label = tuple(msg.signatureAlgorithm)
            cap.sent_sig = bytes(msg.signature)
        return [msg]

    def cfn(kind, msg):
        cap.see(msg)
        return [msg]
    lab.hook_messages(L.server.conn, sfn)
    lab.hook_messages(L.client.conn, cfn)
    L.run()
    o = observe(L, L.client, L.server, cap, "dc")
    se = L.client.conn.session
    o["dc_recorded"] = bool(getattr(se, "delegated_credential", None)) if se is not None else False
    return L, cap, o
