"""Toy primitives for the record-layer differential of C01 / C02.

The classes below are duck-typed `encContext` / `macContext` objects that a real
`tlslite.recordlayer.RecordLayer` accepts; lean/TlsModel/RecordToy.lean implements the very same
functions, so the bytes produced by `RecordLayer.sendRecord` / accepted by `RecordLayer.recvRecord`
can be compared one to one with the Lean model (`Tls.Rec.sendRecord` / `recvRecord`).
They are not cryptography.  Shared by harness/props/c01.py and c02.py.
"""
from ..leanclient import hx, unhx

MODP = 2 ** 31 - 1


def roll(key, x):
    a = 0x1234
    for b in bytes(key) + bytes(x):
        a = (a * 16777619 + b + 7) % MODP
    return a


def tag_bytes(a, n):
    return bytes(((a // 256 ** (i % 4)) + i * 17) % 256 for i in range(n))


class ToyMac(object):
    def __init__(self, key, dlen, mblock, acc=b""):
        self.key = bytes(key)
        self.digest_size = dlen
        self.block_size = mblock
        self.name = "toymac"
        self.acc = bytes(acc)

    def copy(self):
        return ToyMac(self.key, self.digest_size, self.block_size, self.acc)

    def update(self, b):
        self.acc = self.acc + bytes(b)

    def digest(self):
        return tag_bytes(roll(self.key, self.acc), self.digest_size)


def ks_byte(key, i):
    return (key[i % len(key)] + i * 7 + i // 256) % 256


class ToyStream(object):
    isBlockCipher = False
    isAEAD = False
    implementation = "toy"
    name = "toystream"

    def __init__(self, key, pos=0):
        self.key = bytes(key)
        self.pos = pos

    def encrypt(self, data):
        out = bytearray(b ^ ks_byte(self.key, self.pos + i) for i, b in enumerate(data))
        self.pos += len(data)
        return out

    decrypt = encrypt

    def state(self):
        return self.pos.to_bytes(8, "big")


class ToyCBC(object):
    isBlockCipher = True
    isAEAD = False
    implementation = "toy"
    name = "toycbc"

    def __init__(self, key, bs, iv):
        self.key = bytes(key)
        self.block_size = bs
        self.IV = bytes(iv)

    def _E(self, b):
        bs = self.block_size
        return bytes((b[(i + 1) % bs] + self.key[i % len(self.key)]) % 256 for i in range(bs))

    def _D(self, c):
        bs = self.block_size
        out = []
        for j in range(bs):
            i = (j + bs - 1) % bs
            out.append((c[i] - self.key[i % len(self.key)]) % 256)
        return bytes(out)

    def encrypt(self, data):
        bs = self.block_size
        data = bytes(data)
        assert len(data) % bs == 0
        iv = self.IV
        out = bytearray()
        for k in range(len(data) // bs):
            blk = data[k * bs:(k + 1) * bs]
            c = self._E(bytes(x ^ y for x, y in zip(blk, iv)))
            out += c
            iv = c
        self.IV = iv
        return out

    def decrypt(self, data):
        bs = self.block_size
        data = bytes(data)
        assert len(data) % bs == 0
        iv = self.IV
        out = bytearray()
        for k in range(len(data) // bs):
            c = data[k * bs:(k + 1) * bs]
            out += bytes(x ^ y for x, y in zip(self._D(c), iv))
            iv = c
        self.IV = iv
        return out

    def state(self):
        return bytes(self.IV)


class ToyAEAD(object):
    isBlockCipher = False
    isAEAD = True
    implementation = "toy"

    def __init__(self, key, tag_len, nonce_len, name):
        self.key = bytes(key)
        self.tagLength = tag_len
        self.nonceLength = nonce_len
        self.name = name

    def _xor(self, nonce, data):
        k = self.key
        return bytes(b ^ ((k[i % len(k)] + nonce[i % len(nonce)] + i) % 256) for i, b in enumerate(data))

    def _tag(self, nonce, aad, ct):
        return tag_bytes(roll(self.key, bytes(nonce) + len(aad).to_bytes(2, "big") + bytes(aad) + bytes(ct)),
                         self.tagLength)

    def seal(self, nonce, plaintext, data):
        nonce = bytes(nonce)
        ct = self._xor(nonce, bytes(plaintext))
        return bytearray(ct + self._tag(nonce, bytes(data), ct))

    def open(self, nonce, ciphertext, data):
        nonce = bytes(nonce)
        c = bytes(ciphertext)
        if len(c) < self.tagLength:
            return None
        ct, tag = c[:len(c) - self.tagLength], c[len(c) - self.tagLength:]
        if self._tag(nonce, bytes(data), ct) != tag:
            return None
        return bytearray(self._xor(nonce, ct))

    def state(self):
        return b""


# ------------------------------------------------------------------------------------------------
# configuration <-> tokens of the Lean driver (see lean/TlsModel/RecordDrv.lean)

def cfg_tokens(cfg):
    return "%d %d %d %s %d %d %d %d %s %s" % (
        cfg["ver"][0], cfg["ver"][1], int(cfg["tls13record"]), cfg["cipher"], int(cfg["hasMac"]),
        int(cfg["etm"]), int(cfg["aes"]), int(cfg["chacha"]), hx(cfg["fixedNonce"]), hx(cfg["fixedIV"]))


def prims_tokens(pr):
    return "%s %d %d %d %s %d" % (hx(pr["macKey"]), pr["dlen"], pr["mblock"], pr["bs"], hx(pr["key"]), pr["tagLen"])


def pad_cb(spec):
    """padding callback for a PAD token (`none`, `max`, `mod:k`)"""
    if spec == "none":
        return None
    if spec == "max":
        return lambda length, ct, mx: max(0, mx)
    k = int(spec.split(":")[1])
    return lambda length, ct, mx: 0 if mx < 0 else (7 * length + k) % (mx + 1)


def aead_name(cfg):
    if cfg["chacha"]:
        return "chacha20-poly1305"
    if cfg["aes"]:
        return "toyaes128gcm"
    return "toydraft00"


def make_state(cfg, pr, seq, cs):
    """a ConnectionState with the toy objects in the given state"""
    from tlslite.recordlayer import ConnectionState
    st = ConnectionState()
    st.seqnum = seq
    st.encryptThenMAC = bool(cfg["etm"])
    if cfg["hasMac"]:
        st.macContext = ToyMac(pr["macKey"], pr["dlen"], pr["mblock"])
    if cfg["cipher"] == "stream":
        st.encContext = ToyStream(pr["key"], int.from_bytes(cs, "big"))
    elif cfg["cipher"] == "block":
        st.encContext = ToyCBC(pr["key"], pr["bs"], cs)
    elif cfg["cipher"] == "aead":
        st.encContext = ToyAEAD(pr["key"], pr["tagLen"], len(cfg["fixedNonce"]) + (0 if xor_nonce(cfg) else 8),
                                aead_name(cfg))
        st.fixedNonce = bytearray(cfg["fixedNonce"])
    return st


def is13(cfg):
    return tuple(cfg["ver"]) > (3, 3) and cfg["tls13record"]


def xor_nonce(cfg):
    return (cfg["chacha"] and len(cfg["fixedNonce"]) == 12) or is13(cfg)


def state_bytes(st):
    return st.encContext.state() if st.encContext is not None else None


class CaptureSock(object):
    def __init__(self, feed=b""):
        self.sent = bytearray()
        self.feed = bytearray(feed)

    def send(self, data):
        self.sent += bytes(data)
        return len(data)

    def sendall(self, data):
        self.sent += bytes(data)

    def recv(self, n):
        out = bytes(self.feed[:n])
        del self.feed[:n]
        return out


def make_layer(cfg, sock):
    from tlslite.recordlayer import RecordLayer
    rl = RecordLayer(sock)
    rl.version = tuple(cfg["ver"])
    rl.tls13record = bool(cfg["tls13record"])
    return rl


def exc_name(e):
    from tlslite import errors
    table = [(errors.TLSBadRecordMAC, "bad_record_mac"), (errors.TLSDecryptionFailed, "decryption_failed"),
             (errors.TLSRecordOverflow, "record_overflow"), (errors.TLSUnexpectedMessage, "unexpected_message"),
             (errors.TLSIllegalParameterException, "illegal_parameter"), (errors.TLSAbruptCloseError, "abrupt_close")]
    for cls, n in table:
        if isinstance(e, cls):
            return n
    return "python:" + type(e).__name__


def real_send(cfg, pr, pad, send_limit, seq, cs, ctype, data):
    """RecordLayer.sendRecord with toy objects -> ('ok', seq', cs', htype, (vmaj,vmin), body) | ('exc', name)"""
    from tlslite.messages import Message
    sock = CaptureSock()
    rl = make_layer(cfg, sock)
    rl._writeState = make_state(cfg, pr, seq, cs)
    rl.fixedIVBlock = bytearray(cfg["fixedIV"])
    rl.padding_cb = pad_cb(pad)
    rl.send_record_limit = send_limit
    try:
        for _ in rl.sendRecord(Message(ctype, bytearray(data))):
            pass
    except Exception as e:  # noqa: B902 - classified
        return ("exc", exc_name(e))
    w = bytes(sock.sent)
    if len(w) < 5 or len(w) != 5 + ((w[3] << 8) | w[4]):
        return ("exc", "malformed-wire")
    st = rl._writeState
    return ("ok", st.seqnum, state_bytes(st), w[0], (w[1], w[2]), w[5:])


def send_line(cfg, pr, pad, send_limit, seq, cs, ctype, data):
    return "send %s %s %s %d %d %s %d %s" % (cfg_tokens(cfg), prims_tokens(pr), pad, send_limit, seq,
                                            hx(cs if cs is not None else b""), ctype, hx(data))


def parse_send_reply(r):
    t = r.split()
    if t[0] != "ok":
        return (t[0],)
    return ("ok", int(t[1]), unhx(t[2]), int(t[3]), (int(t[4]), int(t[5])), unhx(t[6]))


def real_recv(cfg, pr, seq, cs, early_ok, max_early, processed, recv_limit, htype, hver, body, pa_ok=False):
    """RecordLayer.recvRecord on ONE record with toy objects.
    -> ('ok', seq', cs', earlyOk', processed', type, data) | ('skip', processed') | ('err', name)"""
    wire = bytes([htype, hver[0], hver[1], len(body) >> 8, len(body) & 0xff]) + bytes(body)
    sock = CaptureSock(wire)
    rl = make_layer(cfg, sock)
    rl._readState = make_state(cfg, pr, seq, cs)
    rl.recv_record_limit = recv_limit
    rl.max_early_data = max_early
    rl.early_data_ok = early_ok
    rl._early_data_processed = processed
    rl.plaintext_alerts_ok = bool(pa_ok)
    try:
        res = None
        for res in rl.recvRecord():
            if res in (0, 1):
                raise RuntimeError("would block")
            break
    except Exception as e:  # noqa: B902 - classified
        n = exc_name(e)
        if n == "abrupt_close" and rl.early_data_ok and not sock.feed:
            # the record was skipped and recvRecord went on to read the next one (none is there)
            return ("skip", rl._early_data_processed)
        return ("err", n)
    header, parser = res
    st = rl._readState
    return ("ok", st.seqnum, state_bytes(st), bool(rl.early_data_ok), rl._early_data_processed,
            header.type, bytes(parser.bytes))


def real_recv_raw(cfg, pr, seq, cs, raw):
    """RecordLayer.recvRecord on raw wire bytes (used for SSLv2-framed input) -> ('ok', ...) | ('err', name)"""
    sock = CaptureSock(raw)
    rl = make_layer(cfg, sock)
    rl._readState = make_state(cfg, pr, seq, cs)
    rl.plaintext_alerts_ok = False
    try:
        res = None
        for res in rl.recvRecord():
            if res in (0, 1):
                return ("err", "would-block")
            break
    except Exception as e:  # noqa: B902 - classified
        return ("err", exc_name(e))
    return ("ok", res[0].type, bytes(res[1].bytes))


def recv_line(cfg, pr, seq, cs, early_ok, max_early, processed, recv_limit, htype, hver, body, pa_ok=False):
    return "recv %s %s %d %s %d %d %d %d %d %d %d %d %s" % (
        cfg_tokens(cfg), prims_tokens(pr), seq, hx(cs if cs is not None else b""), int(early_ok), max_early,
        processed, recv_limit, int(pa_ok), htype, hver[0], hver[1], hx(body))


def parse_recv_reply(r):
    t = r.split()
    if t[0] == "ok":
        return ("ok", int(t[1]), unhx(t[2]), t[3] == "1", int(t[4]), int(t[5]), unhx(t[6]))
    if t[0] == "skip":
        return ("skip", int(t[1]))
    return ("err", t[1]) if len(t) > 1 else (t[0],)


def norm_cs(x):
    return b"" if x is None else bytes(x)


# ------------------------------------------------------------------------------------------------
# the configurations of the five protect paths x versions, with toy parameters

def path_configs(rng, thorough=False):
    """yield (name, cfg, prims) over path x version (the combinations the real dispatch can reach)"""
    def rb(n):
        return bytes(rng.getrandbits(8) for _ in range(n))

    vers12 = [(3, 0), (3, 1), (3, 2), (3, 3)]
    for ver in vers12:
        for dlen, mblock in ([(20, 64)] if not thorough else [(16, 64), (20, 64), (32, 64), (48, 128)]):
            base = dict(ver=ver, tls13record=False, hasMac=True, etm=False, aes=False, chacha=False,
                        fixedNonce=b"", fixedIV=b"")
            pr = dict(macKey=rb(dlen), dlen=dlen, mblock=mblock, bs=1, key=rb(13), tagLen=0)
            yield ("mte-null", dict(base, cipher="null"), dict(pr))
            yield ("mte-stream", dict(base, cipher="stream"), dict(pr))
            for bs in (8, 16):
                iv = rb(bs) if ver >= (3, 2) else b""
                yield ("mte-cbc%d" % bs, dict(base, cipher="block", fixedIV=iv), dict(pr, bs=bs))
                if ver >= (3, 1):
                    yield ("etm-cbc%d" % bs, dict(base, cipher="block", etm=True, fixedIV=iv), dict(pr, bs=bs))
    # plaintext state (no keys yet)
    for ver in vers12 + [(3, 4)]:
        yield ("plain", dict(ver=ver, tls13record=(ver == (3, 4)), hasMac=False, etm=False, aes=False, chacha=False,
                             fixedNonce=b"", fixedIV=b"", cipher="null"),
               dict(macKey=b"", dlen=0, mblock=64, bs=1, key=b"k", tagLen=0))
    for tag in ((16, 8) if thorough else (16,)):
        a = dict(ver=(3, 3), tls13record=False, hasMac=False, etm=False, fixedIV=b"", cipher="aead")
        pr = dict(macKey=b"", dlen=0, mblock=64, bs=1, key=rb(16), tagLen=tag)
        yield ("aead12-explicit", dict(a, aes=True, chacha=False, fixedNonce=rb(4)), dict(pr))
        yield ("aead12-xor", dict(a, aes=False, chacha=True, fixedNonce=rb(12)), dict(pr))
        yield ("aead12-draft", dict(a, aes=False, chacha=False, fixedNonce=rb(4)), dict(pr))
        b = dict(a, ver=(3, 4), tls13record=True)
        yield ("tls13-aes", dict(b, aes=True, chacha=False, fixedNonce=rb(12)), dict(pr))
        yield ("tls13-chacha", dict(b, aes=False, chacha=True, fixedNonce=rb(12)), dict(pr))
