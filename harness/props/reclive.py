"""Live-connection helpers shared by C01 and C02: build settings for a (version, cipher, EtM,
record_size_limit, …) configuration, run the handshake in the lab, read the negotiated record-layer
parameters in the vocabulary of the Lean model, observe what the receiving record layer returns."""
from .. import lab

VERSIONS = [(3, 0), (3, 1), (3, 2), (3, 3), (3, 4)]

# cipher name -> (kind, block size, tag length); what the property text calls "protect path"
CIPHER_SHAPE = {
    "aes128": ("block", 16, 0), "aes256": ("block", 16, 0), "3des": ("block", 8, 0),
    "rc4": ("stream", 0, 0), "null": ("null", 0, 0),
    "aes128gcm": ("aead", 0, 16), "aes256gcm": ("aead", 0, 16),
    "aes128ccm": ("aead", 0, 16), "aes256ccm": ("aead", 0, 16),
    "aes128ccm_8": ("aead", 0, 8), "aes256ccm_8": ("aead", 0, 8),
    "chacha20-poly1305": ("aead", 0, 16), "chacha20-poly1305_draft00": ("aead", 0, 16),
}
MAC_LEN = {"md5": 16, "sha": 20, "sha256": 32, "sha384": 48, "aead": 0}
SLOW = {"3des"}

ALERTS = {10: "unexpected_message", 20: "bad_record_mac", 21: "decryption_failed", 22: "record_overflow",
          47: "illegal_parameter", 50: "decode_error"}


def ciphers_for(ver, thorough):
    if ver == (3, 4):
        return ["aes128gcm", "chacha20-poly1305", "aes128ccm_8"] + (["aes256gcm", "aes128ccm"] if thorough else [])
    base = ["aes128", "3des", "rc4", "null"] + (["aes256"] if thorough else [])
    if ver == (3, 3):
        base += ["aes128gcm", "chacha20-poly1305", "aes128ccm_8"]
        if thorough:
            base += ["aes256gcm", "aes128ccm", "aes256ccm", "aes256ccm_8", "chacha20-poly1305_draft00"]
    return base


def make_settings(ver, cipher, etm=True, rsl="default", macs=None, kx=None, ticket_count=0, padding_cb=None,
                  ticket_keys=None, key_shares=None):
    kw = dict(minv=ver, maxv=ver, cipherNames=[cipher], useEncryptThenMAC=bool(etm))
    s = lab.settings(**kw)
    if macs is not None:
        s.macNames = list(macs)
    if kx is not None:
        s.keyExchangeNames = list(kx)
    if ver == (3, 4):
        s.eccCurves = [c for c in s.eccCurves if not c.startswith("brainpool")]
    if rsl != "default":
        s.record_size_limit = rsl
    s.ticket_count = ticket_count
    s.padding_cb = padding_cb
    if ticket_keys is not None:
        s.ticketKeys = [bytearray(k) for k in ticket_keys]
    if key_shares is not None:
        s.keyShares = list(key_shares)
    return s


TICKET_KEY = bytes(range(32))


def connect(cfg):
    """cfg: dict(ver, cipher, etm, rsl=(client, server) with 'default'/None/int, cred, macs, kx, and optionally
    client_cert / req_cert, hrr (TLS 1.3 client offers no key share: HelloRetryRequest), resume in
    {'id', 'ticket', 'psk'} (a full handshake first, then the returned lab is the RESUMED connection;
    the first one is kept as L.first)).
    Returns the lab after the handshake (check L.client.state / L.server.state)."""
    rc, rs = cfg.get("rsl", ("default", "default"))
    cbs = cfg.get("padding_cbs", (None, None))
    resume = cfg.get("resume")
    tkeys = [TICKET_KEY] if resume in ("ticket", "psk") else None
    tcount = 1 if resume in ("ticket", "psk") else 0

    def sets():
        cs = make_settings(cfg["ver"], cfg["cipher"], cfg.get("etm", True), rc, cfg.get("macs"), cfg.get("kx"),
                           padding_cb=cbs[0], key_shares=[] if cfg.get("hrr") else None)
        ss = make_settings(cfg["ver"], cfg["cipher"], cfg.get("etm", True), rs, cfg.get("macs"), cfg.get("kx"),
                           padding_cb=cbs[1], ticket_keys=tkeys, ticket_count=tcount)
        return cs, ss
    ckw, skw = {}, {}
    if cfg.get("client_cert"):
        chain, key = lab.creds("client_rsa")
        ckw = dict(certChain=chain, privateKey=key)
    if cfg.get("req_cert"):
        skw = dict(reqCert=True)
    first = None
    if resume:
        from tlslite.sessioncache import SessionCache
        if resume == "id":
            skw["sessionCache"] = SessionCache()
        cs, ss = sets()
        first = lab.handshake(cs, ss, cred=cfg.get("cred", "rsa"), client_kw=dict(ckw), server_kw=dict(skw))
        if first.client.state != "done" or first.server.state != "done":
            return first
        drain_post_handshake(first)          # TLS 1.3: the client picks up the NewSessionTicket
        ckw["session"] = first.client.conn.session
    cs, ss = sets()
    L = lab.handshake(cs, ss, cred=cfg.get("cred", "rsa"), client_kw=ckw, server_kw=skw,
                      before_run=cfg.get("before_run"))
    L.first = first
    return L


def went_through_hrr(L):
    """two ClientHello records in the clear on the wire"""
    n = 0
    for (t, v, b) in L.link.records("c2s"):
        if t == 22 and b[:1] == b"\x01":
            n += 1
    return n >= 2


def drain_post_handshake(L):
    """let each side consume post-handshake control records (TLS 1.3 NewSessionTicket) so that the
    channels are empty before the data phase"""
    for who, d in (("client", "s2c"), ("server", "c2s")):
        for _ in range(8):
            if not L.link.q[d]:
                break
            L.read(who, max=0, min=0)


def advertised(cfg, who):
    """record_size_limit value `who` advertises to its peer, from the settings alone (RFC 8449);
    None when the extension is not in use for this connection"""
    rc, rs = cfg.get("rsl", ("default", "default"))
    rc = 2 ** 14 + 1 if rc == "default" else rc
    rs = 2 ** 14 + 1 if rs == "default" else rs
    if rc is None or rs is None or cfg["ver"] == (3, 0):
        return None       # SSLv3 carries no extensions
    cap = 2 ** 14 + 1 if cfg["ver"] >= (3, 4) else 2 ** 14
    return min(cap, rc if who == "client" else rs)


def limit_in_force(cfg, sender, user_record_size):
    """plaintext fragment limit for records sent by `sender`, stated from the property text:
    min(user recordSize, what the PEER advertised [minus the content-type byte in TLS 1.3], 2^14)"""
    peer = "server" if sender == "client" else "client"
    adv = advertised(cfg, peer)
    lim = 2 ** 14
    if adv is not None:
        lim = min(lim, adv - 1 if cfg["ver"] >= (3, 4) else adv)
    if user_record_size is not None:
        lim = min(lim, user_record_size)
    return lim


def model_cfg(conn, write=True):
    """(cfg, prims) dictionaries for rectoy.cfg_tokens / prims_tokens describing the real
    connection state of one direction (lengths only matter for `wirelen`)"""
    rl = conn._recordLayer
    st = rl._writeState if write else rl._readState
    enc = st.encContext
    ver = tuple(rl.version)
    if enc is None:
        cipher = "null"
    elif enc.isAEAD:
        cipher = "aead"
    elif enc.isBlockCipher:
        cipher = "block"
    else:
        cipher = "stream"
    name = enc.name if enc is not None else ""
    bs = enc.block_size if cipher == "block" else 1
    cfg = dict(ver=ver, tls13record=bool(rl.tls13record), cipher=cipher, hasMac=st.macContext is not None,
               etm=bool(st.encryptThenMAC), aes=("aes" in name), chacha=(name == "chacha20-poly1305"),
               fixedNonce=bytes(st.fixedNonce) if st.fixedNonce else b"",
               fixedIV=bytes(rl.fixedIVBlock) if (cipher == "block" and ver >= (3, 2) and rl.fixedIVBlock) else b"")
    pr = dict(macKey=b"", dlen=st.macContext.digest_size if st.macContext is not None else 0,
              mblock=getattr(st.macContext, "block_size", 64) if st.macContext is not None else 64,
              bs=bs, key=b"k", tagLen=enc.tagLength if cipher == "aead" else 0)
    return cfg, pr


def observe_recv(conn, log):
    """append (content type, plaintext length) of every record the endpoint's record layer
    returns to `log` (the receiving endpoint's own unprotect)"""
    rl = conn._recordLayer
    orig = rl.recvRecord

    def wrapped():
        for r in orig():
            if r not in (0, 1):
                try:
                    log.append((r[0].type, len(r[1].bytes)))
                except Exception:  # noqa: B902 - observation only
                    pass
            yield r
    rl.recvRecord = wrapped


def suite_matrix():
    """every cipher suite negotiable with certificate credentials:
    [(suite id, versions, cipherName, macName, kx, cred)]"""
    from tlslite.constants import CipherSuite as C
    res = []

    def cname(s):
        for n, lst in (("aes128gcm", C.aes128GcmSuites), ("aes256gcm", C.aes256GcmSuites),
                       ("aes128ccm", C.aes128CcmSuites), ("aes256ccm", C.aes256CcmSuites),
                       ("aes128ccm_8", C.aes128Ccm_8Suites), ("aes256ccm_8", C.aes256Ccm_8Suites),
                       ("chacha20-poly1305", C.chacha20Suites), ("chacha20-poly1305_draft00", C.chacha20draft00Suites),
                       ("aes128", C.aes128Suites), ("aes256", C.aes256Suites), ("3des", C.tripleDESSuites),
                       ("rc4", C.rc4Suites), ("null", C.nullSuites)):
            if s in lst:
                return n
        return None

    def mname(s):
        if s in C.aeadSuites:
            return "aead"
        for n, lst in (("sha", C.shaSuites), ("sha256", C.sha256Suites), ("sha384", C.sha384Suites),
                       ("md5", C.md5Suites)):
            if s in lst:
                return n
        return None

    for s in C.tls13Suites:
        res.append((s, [(3, 4)], cname(s), "aead", None, "rsa"))
    for kx, lst, cred in (("rsa", C.certSuites, "rsa"), ("dhe_rsa", C.dheCertSuites, "rsa"),
                          ("ecdhe_rsa", C.ecdheCertSuites, "rsa"), ("ecdhe_ecdsa", C.ecdheEcdsaSuites, "ecdsa")):
        for s in lst:
            c, m = cname(s), mname(s)
            if c is None or m is None:
                continue
            if s in C.tls12Suites:
                vers = [(3, 3)]
            elif s in C.ssl3Suites:
                vers = [(3, 0), (3, 1), (3, 2), (3, 3)]
            else:
                vers = [(3, 1), (3, 2), (3, 3)]
            res.append((s, vers, c, m, kx, cred))
    return res
