"""C05 helper: SRP, PSK binder, Finished and Checker streams (live endpoints + model comparison)."""
import hashlib
import random

from .. import lab


def _idn(conn):
    se = conn.session
    if se is None:
        return "nosession"
    return "scc=%d,ccc=%d,srp=%d" % (1 if se.serverCertChain else 0, 1 if se.clientCertChain else 0,
                                      1 if se.srpUsername else 0)


def _out(end):
    e = lab.exc_class(end.exc)
    if end.state == "done":
        return "done"
    if e.startswith("local_alert:"):
        return "alert:" + e.split(":")[1]
    if e.startswith("remote_alert:"):
        return "peer_alert:" + e.split(":")[1]
    n = e.split(":")[-1]
    if n in ("TLSFingerprintError", "TLSNoAuthenticationError", "TLSAuthenticationTypeError"):
        n = "TLSAuthenticationError"
    return "raise:" + (n if n.startswith("TLS") else "py")


def _live_cached(cache):
    """number of sessions a resuming client could still get out of the cache"""
    n = 0
    for sid in list(cache.entriesDict.keys()):
        try:
            cache[sid]
            n += 1
        except KeyError:
            pass
    return n


def _settings(ver):
    v = (3, ver)
    s = lab.settings(minv=v, maxv=v)
    s.certificate_compression_send = []
    if ver == 4:
        s.eccCurves = [c for c in s.eccCurves if "brainpool" not in c]
    return s


# ------------------------------------------------------------------------------------------------ SRP
def _sha1(b):
    return hashlib.sha1(bytes(b)).digest()


def _nb(n):
    return n.to_bytes((n.bit_length() + 7) // 8 or 0, "big") if n else b""


def _pad(N, x):
    b = _nb(x)
    return b"\0" * (len(_nb(N)) - len(b)) + b


def srp_formulas(ctx):
    """SRPKeyExchange.processServerKeyExchange / processClientKeyExchange vs the model's premaster
    functions; k, u, x computed here from RFC 5054 (SHA-1), a and b injected through getRandomBytes."""
    from tlslite import keyexchange as KX
    from tlslite.mathtls import goodGroupParameters
    from tlslite.messages import ClientKeyExchange, ServerKeyExchange
    from tlslite.constants import CipherSuite
    from tlslite.errors import TLSIllegalParameterException
    from tlslite.handshakesettings import HandshakeSettings
    lc = ctx.lean()
    rng = ctx.rng
    suite = CipherSuite.TLS_SRP_SHA_WITH_AES_128_CBC_SHA
    lines, impls, cases = [], [], []
    n = ctx.pick(24, 320)
    real_rand = KX.getRandomBytes
    try:
        for i in range(n):
            g, N = goodGroupParameters[0 if i % 3 else 1]
            user, pw = b"alice", bytes([97 + rng.randrange(26) for _ in range(8)])
            salt = bytes(rng.randrange(256) for _ in range(16))
            x = int.from_bytes(_sha1(salt + _sha1(user + b":" + pw)), "big")
            mode = ["honest", "honest", "wrongpw", "A0", "AkN", "B0", "BkN", "othersalt"][i % 8]
            xs = x if mode != "wrongpw" else int.from_bytes(_sha1(salt + _sha1(user + b":" + pw + b"!")), "big")
            v = pow(g, xs, N)
            a = int.from_bytes(bytes(rng.randrange(256) for _ in range(32)), "big")
            b = int.from_bytes(bytes(rng.randrange(256) for _ in range(32)), "big")
            k = int.from_bytes(_sha1(_nb(N) + _pad(N, g)), "big")

            class CH(object):
                srp_username = bytearray(user)
                random = bytearray(32)

            class SH(object):
                server_version = (3, 3)
                random = bytearray(32)
            # server: ServerKeyExchange
            KX.getRandomBytes = lambda nbytes, b=b: bytearray(b.to_bytes(32, "big"))
            skx = KX.SRPKeyExchange(suite, CH(), SH(), None, {bytes(user): (N, g, bytearray(salt), v)})
            ske = skx.makeServerKeyExchange()
            B = B_s = ske.srp_B
            if mode == "B0":
                ske.srp_B = B = 0
            if mode == "BkN":
                ske.srp_B = B = 3 * N
            # client
            KX.getRandomBytes = lambda nbytes, a=a: bytearray(a.to_bytes(32, "big"))
            ckx = KX.SRPKeyExchange(suite, CH(), SH(), None, None, bytearray(user), bytearray(pw), HandshakeSettings())
            try:
                cS = int.from_bytes(bytes(ckx.processServerKeyExchange(None, ske)), "big")
                A = ckx.A
                cres = str(cS)
            except TLSIllegalParameterException:
                cres, A = "alert:47", pow(g, a, N)
            if mode == "A0":
                A = 0
            if mode == "AkN":
                A = 2 * N
            cke = ClientKeyExchange(suite, (3, 3)).createSRP(A)
            try:
                sres = str(int.from_bytes(bytes(skx.processClientKeyExchange(cke)), "big"))
            except TLSIllegalParameterException:
                sres = "alert:47"
            uc = int.from_bytes(_sha1(_pad(N, pow(g, a, N)) + _pad(N, B)), "big")
            us = int.from_bytes(_sha1(_pad(N, A) + _pad(N, B_s)), "big")
            lines.append("srp N:%d g:%d k:%d x:%d a:%d b:%d u:%d uc:%d us:%d v:%d A:%d B:%d"
                         % (N, g, k, x, a, b, uc, uc, us, v, A, B))
            impls.append(cres + " " + sres)
            cases.append({"mode": mode, "i": i})
            ctx.case(key=("srpf", i, a, b), nontrivial=True)
            # independent oracle: with the right verifier and untouched A, B both sides agree; with a wrong
            # password they must not
            if mode == "honest" and cres != sres:
                ctx.violation("c05:srp-premaster-disagree", "honest SRP run: client and server premaster differ",
                              {"kind": "srpf", "line": lines[-1]})
            if mode == "wrongpw" and cres == sres:
                ctx.violation("c05:srp-wrong-password-same-premaster", "wrong password gives the server's premaster",
                              {"kind": "srpf", "line": lines[-1]})
            if mode in ("A0", "AkN") and sres != "alert:47":
                ctx.violation("c05:srp-server-accepts-A-multiple-of-N", "server computed a premaster from A = 0 mod N",
                              {"kind": "srpf", "line": lines[-1]})
            if mode in ("B0", "BkN") and cres != "alert:47":
                ctx.violation("c05:srp-client-accepts-B-multiple-of-N", "client computed a premaster from B = 0 mod N",
                              {"kind": "srpf", "line": lines[-1]})
    finally:
        KX.getRandomBytes = real_rand
    ctx.count("stream:srp-formulas", n)
    if lc is None:
        return
    for case, line, impl, mo in zip(cases, lines, impls, lc.batch(lines)):
        if mo != impl:
            ctx.disagree("srp", dict(case, line=line[:200]), mo[:200], impl[:200])
    ctx.compared(n)


_DB = {}


def _db(pw):
    from tlslite.verifierdb import VerifierDB
    if pw not in _DB:
        d = VerifierDB()
        d.create()
        d[b"alice"] = VerifierDB.makeVerifier(b"alice", bytearray(pw), 1024)
        _DB[pw] = d
    return _DB[pw]


def srp_live_case(ctx, case):
    from tlslite.sessioncache import SessionCache
    mode, ver = case["mode"], case["ver"]
    L = lab.Lab()
    cs, ss = _settings(ver), _settings(ver)
    user = b"bob" if mode == "unknown-user" else b"alice"
    pw = b"passwore" if mode == "wrong-password" else b"password"
    cache = SessionCache()
    L.start_client(lambda c: c.handshakeClientSRP(bytearray(user), bytearray(pw), settings=cs, async_=True))
    L.start_server(lambda c: c.handshakeServerAsync(verifierDB=_db(b"other" if mode == "server-other-verifier" else b"password"),
                                                       settings=ss, sessionCache=cache))

    def chook(kind, msg):
        if type(msg).__name__ == "ClientKeyExchange":
            from tlslite.mathtls import goodGroupParameters
            N = goodGroupParameters[0][1]
            if mode == "A-zero":
                msg.srp_A = 0
            elif mode == "A-2N":
                msg.srp_A = 2 * N
            elif mode == "A-tampered":
                msg.srp_A ^= 2
        return [msg]

    def shook(kind, msg):
        if type(msg).__name__ == "ServerKeyExchange":
            if mode == "B-zero":
                msg.srp_B = 0
            elif mode == "B-tampered":
                msg.srp_B ^= 4
        return [msg]
    lab.hook_messages(L.client.conn, chook)
    lab.hook_messages(L.server.conn, shook)
    L.run()
    so, co = _out(L.server), _out(L.client)
    ctx.count("site:srp")
    ctx.count("class:srp-" + mode)
    ctx.case(key=("srp", mode, ver), nontrivial=mode != "honest")
    sse = L.server.conn.session
    if mode == "honest":
        if so != "done" or co != "done" or not sse.srpUsername:
            ctx.disagree("srp-live", case, "done", so + "/" + co)
        ctx.compared(1)
        return
    # server side: the user name may be attributed only in a completed handshake with the right password
    if so == "done" and sse is not None and sse.srpUsername and mode != "B-tampered-ok":
        ctx.violation("c05:srp-server-accepts-" + mode,
                      "SRP server completed and recorded srpUsername although the client did not prove the password (%s)" % mode,
                      {"kind": "srp", "case": case})
    if co == "done" and mode in ("server-other-verifier", "B-zero", "B-tampered"):
        ctx.violation("c05:srp-client-accepts-" + mode, "SRP client completed although the server does not hold the verifier (%s)" % mode,
                      {"kind": "srp", "case": case})
    if so != "done":
        if not L.server.conn.closed or (sse is not None and sse.resumable) or _live_cached(cache):
            ctx.violation("c05:srp-server-rejected-but-session-usable",
                          "failed SRP handshake left an open connection / resumable or cached session (%s)" % mode,
                          {"kind": "srp", "case": case})
        if sse is not None and sse.srpUsername:
            ctx.count("observation:failed-handshake-leaves-identity-on-closed-session:srp")
    ctx.compared(1)
    want = {"wrong-password": "alert:20", "unknown-user": "alert:115", "A-zero": "alert:47", "A-2N": "alert:47",
            "A-tampered": "alert:20", "B-zero": "peer_alert:47", "B-tampered": "alert:20",
            "server-other-verifier": "alert:20"}[mode]
    if so != want:
        ctx.disagree("srp-live", case, want, so)


# ------------------------------------------------------------------------------------------------ PSK
def psk_live_case(ctx, case, pending):
    """TLS 1.3 external PSK: the client is the prover (binder)."""
    mode = case["mode"]
    h = case.get("hash", "sha256")
    cs, ss = _settings(4), _settings(4)
    secret = b"k" * 32
    csecret = b"j" * 32 if mode == "wrong-key" else secret
    cid = b"id2" if mode == "unknown-id" else b"id1"
    cs.pskConfigs = [(cid, csecret, h)]
    if mode in ("first-unknown-second-good", "first-bad-second-good"):
        cs.pskConfigs = [(b"idX" if mode == "first-unknown-second-good" else b"id0", b"x" * 32, h), (b"id1", secret, h)]
    ss.pskConfigs = [(b"id0", b"z" * 32, h), (b"id1", secret, h)]
    if case.get("kemode"):
        cs.psk_modes = [case["kemode"]]
        ss.psk_modes = [case["kemode"]]
    if h == "sha384":
        cs.cipherNames = ["aes256gcm"]
        ss.cipherNames = ["aes256gcm"]
    ch, k = lab.creds("rsa")
    L = lab.Lab()
    L.start_client(lambda c: c.handshakeClientCert(settings=cs, async_=True))
    L.start_server(lambda c: c.handshakeServerAsync(certChain=ch, privateKey=k, settings=ss))
    seen = {"server_cert": False, "forms": None}

    def chook(kind, msg):
        if type(msg).__name__ == "ClientHello" and msg.extensions and \
                type(msg.extensions[-1]).__name__ == "PreSharedKeyExtension":
            ext = msg.extensions[-1]
            b = ext.binders[0]
            if mode == "binder-flip-first":
                b[0] ^= 1
            elif mode == "binder-flip-last":
                b[-1] ^= 0x80
            elif mode == "binder-trunc":
                ext.binders[0] = b[:-1]
            elif mode == "binder-zero":
                ext.binders[0] = bytearray(len(b))
            seen["ids"] = [bytes(i.identity) for i in ext.identities]
        return [msg]

    def shook(kind, msg):
        if type(msg).__name__ == "Certificate":
            seen["server_cert"] = True
        return [msg]
    lab.hook_messages(L.client.conn, chook)
    lab.hook_messages(L.server.conn, shook)
    L.run()
    so, co = _out(L.server), _out(L.client)
    psk_used = so == "done" and not seen["server_cert"]
    ctx.count("site:psk")
    ctx.count("class:psk-" + mode)
    ctx.case(key=("psk", mode, h, case.get("kemode")), nontrivial=mode != "honest")
    proved = mode in ("honest", "first-unknown-second-good")
    if psk_used and not proved:
        ctx.violation("c05:psk-server-accepts-" + mode,
                      "TLS 1.3 server completed a PSK handshake although the binder was not a correct proof of the PSK (%s)" % mode,
                      {"kind": "psk", "case": case})
    if so != "done" and not L.server.conn.closed:
        ctx.violation("c05:psk-server-rejected-but-open", "binder rejected but connection open", {"kind": "psk", "case": case})
    # model
    sx = {"sha256": "sha256", "sha384": "sha384"}[h]
    cfg = "%s=%s=%s,%s=%s=%s" % (b"id0".hex(), (b"z" * 32).hex(), sx, b"id1".hex(), secret.hex(), sx)
    ids = []
    for n, (ident, sec, _) in enumerate(cs.pskConfigs):
        form = "ok=%s=%s=1" % (bytes(sec).hex(), sx)
        if n == 0 and mode in ("binder-flip-first", "binder-flip-last", "binder-zero"):
            form = "bad"
        if n == 0 and mode == "binder-trunc":
            form = "prefix=%s=%s" % (bytes(sec).hex(), sx)
        ids.append("%s=%s" % (bytes(ident).hex(), form))
    line = "psk prf:%s last:1 cfg:%s ids:%s" % (sx, cfg, ",".join(ids))
    if psk_used:
        impl = "sel"
    elif so == "done":
        impl = "none"
    else:
        impl = so
    pending.append((case, line, impl))


def flush_psk(ctx, pending):
    lc = ctx.lean()
    if lc is None or not pending:
        del pending[:]
        return
    for (case, line, impl), mo in zip(pending, lc.batch([p[1] for p in pending])):
        m = "sel" if mo.startswith("sel:") else mo
        if m != impl:
            ctx.disagree("psk", dict(case, line=line), mo, impl)
    ctx.compared(len(pending))
    del pending[:]


# ------------------------------------------------------------------------------------------------ Finished / Checker
def fin_checker_case(ctx, case, pending):
    """who: which side sends a wrong Finished (or None); checker: (side, pin) or None with pin in
    'ok' (fingerprint of the peer's END-ENTITY certificate), 'second' (fingerprint of the extra certificate V
    the peer appends to its chain when case['multi'] — the attacker's chain [A, V] against a pin on V),
    'bad' (a certificate that is nowhere in the chain), 'nocert' (right pin, peer sends no certificate)."""
    from tlslite.checker import Checker
    from tlslite.sessioncache import SessionCache
    ver, who, chk = case["ver"], case.get("who"), case.get("checker")
    cs, ss = _settings(ver), _settings(ver)
    ch, k = lab.creds("rsa")
    cch, ck = lab.creds("client_rsa")
    ckw, skw = {}, {}
    client_auth = not (chk and chk[1] == "nocert")
    multi = bool(case.get("multi"))
    if chk:
        from tlslite.x509certchain import X509CertChain
        side, good = chk
        victim = lab.creds("ecdsa")[0].x509List[0]          # V: a certificate whose key the peer does not hold
        absent = lab.creds("ed25519")[0].x509List[0]        # never part of any chain here
        if side == "client":
            if multi:
                ch = X509CertChain(list(ch.x509List) + [victim])
            ee = ch.x509List[0]
        else:
            if multi:
                cch = X509CertChain(list(cch.x509List) + [victim])
            ee = cch.x509List[0]
        pin = {"ok": ee, "nocert": ee, "second": victim, "bad": absent}[good].getFingerprint()
        if side == "client":
            ckw["checker"] = Checker(x509Fingerprint=pin)
        else:
            skw["checker"] = Checker(x509Fingerprint=pin)
    cache = SessionCache()
    L = lab.Lab()
    if client_auth:
        L.start_client(lambda c: c.handshakeClientCert(certChain=cch, privateKey=ck, settings=cs, async_=True, **ckw))
    else:
        L.start_client(lambda c: c.handshakeClientCert(settings=cs, async_=True, **ckw))
    L.start_server(lambda c: c.handshakeServerAsync(certChain=ch, privateKey=k, settings=ss, reqCert=True,
                                                       sessionCache=cache, **skw))
    if who:
        def hk(kind, msg):
            if type(msg).__name__ == "Finished":
                msg.verify_data = bytearray(msg.verify_data)
                msg.verify_data[case.get("byte", 0) % len(msg.verify_data)] ^= 1
            return [msg]
        lab.hook_messages(L.end(who).conn, hk)
    L.run()
    vname = ("server" if who == "client" else "client") if who else (chk[0] if chk else "server")
    v = L.end(vname)
    out = _out(v)
    se = v.conn.session
    ctx.count("site:" + ("checker" if chk else "finished"))
    ctx.count("class:%s" % (("checker-%s-%s" % chk + ("-multi" if multi else "")) if chk else ("fin-bad-from-" + who if who else "fin-honest")))
    ctx.case(key=("fin", ver, who, chk, case.get("byte"), multi), nontrivial=bool(who or (chk and chk[1] != "ok")))
    must_fail = bool(who) or (chk is not None and chk[1] != "ok")
    if must_fail and out == "done":
        key = "c05:checker-mismatch-ignored" if chk else "c05:finished-mismatch-accepted"
        if chk and chk[1] == "second" and multi:
            key = "c05:checker-accepts-pin-on-non-end-entity-certificate"
        ctx.violation(key, "%s completed although %s" % (vname, "the Checker fingerprint does not match" if chk
                                                          else "the peer's Finished was wrong"),
                      {"kind": "fin", "case": case})
    if must_fail and out != "done":
        cached = _live_cached(cache) if vname == "server" else 0
        if not v.conn.closed or (se is not None and se.resumable) or cached:
            ctx.violation("c05:%s-failed-but-session-usable" % ("checker" if chk else "finished"),
                          "call failed (%s) but the connection is open or the session resumable/cached" % out,
                          {"kind": "fin", "case": case})
        if se is not None and (se.clientCertChain if vname == "server" else se.serverCertChain) and not chk:
            ctx.count("observation:failed-handshake-leaves-identity-on-closed-session:finished")
        if chk:
            # the peer must see the connection end
            other = L.end("client" if vname == "server" else "server")
            r = L.read(other.name, max=1, min=1)
            if r[0] == "ok" and r[1]:
                ctx.violation("c05:checker-mismatch-connection-open", "peer could still read data", {"kind": "fin", "case": case})
    # model
    fin = "bad" if who else "ok"
    if vname == "server":
        op = "hs13s mode:cert cv:%s" % ("ok" if client_auth else "none") if ver == 4 else \
            "hs12s ver:%d cv:%s" % (ver, "ok" if client_auth else "none")
    else:
        op = "hs13c cv:ok" if ver == 4 else "hs12c ver:%d ske:ok" % ver
    ctok = None
    if chk:
        ctok = {"ok": "ok", "nocert": "bad", "bad": "bad", "second": "second" if multi else "bad"}[chk[1]]
    line = "%s fin:%s" % (op, fin) + (" checker:%s" % ctok if chk else "") + (" extra:1" if (chk and multi) else "")
    if chk and chk[1] == "nocert":
        line = line.replace("checker:bad", "checker:ok")      # right fingerprint, but there is no chain to compare
    impl = ("done" if out == "done" else "fail " + out) + " " + \
        ("nosession" if se is None else "scc=%d,ccc=%d" % (1 if se.serverCertChain else 0,
                                                            1 if (se.clientCertChain and vname == "server") else 0)) + \
        (" res=%d" % (1 if se.resumable else 0) if se is not None else "") + " closed=%d" % (1 if v.conn.closed else 0)
    pending.append((case, line, impl))


def flush_fin(ctx, pending):
    lc = ctx.lean()
    if lc is None or not pending:
        del pending[:]
        return
    for (case, line, impl), mo in zip(pending, lc.batch([p[1] for p in pending])):
        # model: "<done|fail> <reject|-> scc=..,ccc=..,srp=..,psk=..,res=.. closed=.."
        t = mo.split(" ")
        if len(t) < 4:
            ctx.disagree("finished", dict(case, line=line), mo, impl)
            continue
        idn = t[2]
        if idn != "nosession":
            f = dict(x.split("=") for x in idn.split(","))
            idn = "scc=%s,ccc=%s res=%s" % (f["scc"], f["ccc"], f["res"])
        m = ("done" if t[0] == "done" else "fail " + t[1]) + " " + idn + " " + t[3]
        if m != impl:
            ctx.disagree("finished", dict(case, line=line), m, impl)
    ctx.compared(len(pending))
    del pending[:]


# ------------------------------------------------------------------------------------------------ tickets
_TKEY = [bytearray(b"K" * 32)]


def _victim_session(h="sha256"):
    """a victim with client certificate completes TLS 1.3 and receives session tickets; returns its Session"""
    cs, ss = _settings(4), _settings(4)
    if h == "sha384":
        cs.cipherNames = ["aes256gcm"]
        ss.cipherNames = ["aes256gcm"]
    else:
        cs.cipherNames = ["aes128gcm"]
        ss.cipherNames = ["aes128gcm"]
    ss.ticketKeys = [bytearray(k) for k in _TKEY]
    ch, k = lab.creds("rsa")
    vch, vk = lab.creds("client_rsa")
    L = lab.Lab()
    L.start_client(lambda c: c.handshakeClientCert(certChain=vch, privateKey=vk, settings=cs, async_=True))
    L.start_server(lambda c: c.handshakeServerAsync(certChain=ch, privateKey=k, settings=ss, reqCert=True))
    L.run()
    if L.client.state != "done" or L.server.state != "done":
        return None
    L.read("client", max=0, min=0)          # NewSessionTicket messages
    se = L.client.conn.session
    return se if se.tickets else None


def ticket_case(ctx, case, pending):
    """An attacker (no resumption secret unless mode == 'honest') offers the victim's ticket.
    mode: honest | badbinder | hash | expired | rotated ; own: attacker's own client certificate or None."""
    import copy
    import time as _time
    from tlslite import tlsconnection as TC
    mode, own = case["mode"], case.get("own")
    vs = _victim_session()
    if vs is None:
        ctx.count("not-exercised:ticket")
        return
    victim_fp = lab.creds("client_rsa")[0].getFingerprint()
    sess = copy.copy(vs)
    sess.tickets = list(vs.tickets)
    if mode != "honest":
        # the attacker saw the ticket on the wire but does not know the resumption master secret
        sess.resumptionMasterSecret = bytearray(b"\x5a" * len(vs.resumptionMasterSecret))
    cs, ss = _settings(4), _settings(4)
    cs.cipherNames = ["aes256gcm"] if mode == "hash" else ["aes128gcm"]
    ss.cipherNames = list(cs.cipherNames)
    ss.ticketKeys = [bytearray(b"R" * 32)] if mode == "rotated" else [bytearray(k) for k in _TKEY]
    if mode == "expired":
        ss.ticketLifetime = 1
    ch, k = lab.creds("rsa")
    ckw = {}
    if own:
        och, ok_ = lab.creds(own)
        ckw = dict(certChain=och, privateKey=ok_)
    L = lab.Lab()
    L.start_client(lambda c: c.handshakeClientCert(session=sess, settings=cs, async_=True, **ckw))
    L.start_server(lambda c: c.handshakeServerAsync(certChain=ch, privateKey=k, settings=ss, reqCert=True))
    seen = {"psk_ext": False}

    def chook(kind, msg):
        if type(msg).__name__ == "ClientHello" and msg.extensions and \
                type(msg.extensions[-1]).__name__ == "PreSharedKeyExtension":
            seen["psk_ext"] = True
        return [msg]
    lab.hook_messages(L.client.conn, chook)
    real_time = TC.time

    class _T(object):
        def __getattr__(self, n):
            return getattr(real_time, n)

        @staticmethod
        def time():
            return real_time.time() + (100 if mode == "expired" else 0)
    TC.time = _T()
    try:
        L.run()
    finally:
        TC.time = real_time
    so = _out(L.server)
    se = L.server.conn.session
    chain = se.clientCertChain if se is not None else None
    if not seen["psk_ext"]:
        ctx.count("not-exercised:ticket")
        return
    who = "none"
    if chain:
        who = "victim" if chain.getFingerprint() == victim_fp else "own"
    ctx.count("site:ticket")
    ctx.count("class:ticket-%s-%s" % (mode, "owncert" if own else "nocert"))
    ctx.case(key=("ticket", mode, own), nontrivial=mode != "honest")
    # oracle: the victim's chain may be attributed only when the resumption binder was a proof (honest run)
    if so == "done" and who == "victim" and mode != "honest":
        ctx.violation("c05:tls13-server-attributes-ticket-chain-without-binder",
                      "TLS 1.3 server completed and recorded the client chain stored in an offered session ticket although the "
                      "peer did not prove the ticket's resumption secret (%s, attacker %s client certificate)"
                      % (mode, "with own" if own else "without"), {"kind": "ticket", "case": case})
    if so == "done" and who == "own" and not own:
        ctx.violation("c05:tls13-server-attributes-unpresented-chain", "chain recorded that nobody presented",
                      {"kind": "ticket", "case": case})
    if mode == "honest" and (so != "done" or who != "victim"):
        ctx.disagree("ticket", case, "done who=victim", so + " who=" + who)
    tk = {"honest": "good", "badbinder": "badbinder", "hash": "hash", "expired": "expired", "rotated": "unknown"}[mode]
    line = "hs13t tk:%s own:%s" % (tk, "cert" if own else "none")
    impl = ("done" if so == "done" else "fail " + so) + " who=" + who
    pending.append((case, line, impl))


def flush_ticket(ctx, pending):
    lc = ctx.lean()
    if lc is None or not pending:
        del pending[:]
        return
    for (case, line, impl), mo in zip(pending, lc.batch([p[1] for p in pending])):
        t = mo.split(" ")
        m = ("done" if t[0] == "done" else "fail " + t[1]) + " " + t[-1]
        if m != impl:
            ctx.disagree("ticket", dict(case, line=line), m, impl)
    ctx.compared(len(pending))
    del pending[:]


# ------------------------------------------------------------------------------------------------
def plan_other(thorough):
    srp = [{"mode": m, "ver": v} for v in ((1, 3) if not thorough else (1, 2, 3))
           for m in ("honest", "wrong-password", "unknown-user", "A-zero", "A-2N", "A-tampered", "B-zero", "B-tampered",
                     "server-other-verifier")]
    psk = []
    for h in ("sha256", "sha384"):
        for ke in (None, "psk_ke"):
            for m in ("honest", "wrong-key", "binder-flip-first", "binder-flip-last", "binder-trunc", "binder-zero",
                      "unknown-id", "first-unknown-second-good", "first-bad-second-good"):
                if (h == "sha384" or ke) and not thorough and m not in ("honest", "binder-flip-last", "wrong-key"):
                    continue
                psk.append({"mode": m, "hash": h, "kemode": ke})
    fin = []
    for ver in (1, 2, 3, 4) if thorough else (1, 3, 4):
        fin.append({"ver": ver})
        for who in ("client", "server"):
            for byte in ((0, 5, 11, -1) if thorough else (0, -1)):
                fin.append({"ver": ver, "who": who, "byte": byte})
        for side in ("client", "server"):
            for good in ("ok", "bad"):
                fin.append({"ver": ver, "checker": (side, good)})
            for good in ("ok", "second", "bad"):
                fin.append({"ver": ver, "checker": (side, good), "multi": True})
            fin.append({"ver": ver, "checker": (side, "second")})
        fin.append({"ver": ver, "checker": ("server", "nocert")})
    return srp, psk, fin


def run_other(ctx):
    srp, psk, fin = plan_other(ctx.thorough())
    srp_formulas(ctx)
    for c in srp:
        srp_live_case(ctx, c)
    pend = []
    for c in psk:
        psk_live_case(ctx, c, pend)
    flush_psk(ctx, pend)
    for c in fin:
        fin_checker_case(ctx, c, pend)
    flush_fin(ctx, pend)
    for mode in ("honest", "badbinder", "hash", "expired", "rotated"):
        for own in (None, "client_ecdsa"):
            ticket_case(ctx, {"mode": mode, "own": own}, pend)
    flush_ticket(ctx, pend)


def replay_other(ctx, inp):
    kind = inp.get("kind")
    case = inp.get("case")
    if isinstance(case, dict) and isinstance(case.get("checker"), list):
        case["checker"] = tuple(case["checker"])
    if kind == "srp":
        srp_live_case(ctx, case)
    elif kind == "psk":
        psk_live_case(ctx, case, [])
    elif kind == "fin":
        fin_checker_case(ctx, case, [])
    elif kind == "srpf":
        srp_formulas(ctx)
    elif kind == "ticket":
        ticket_case(ctx, case, [])
