"""C05 helper: the cooperating faulty peer (independent signer, credentials, DER check).

Everything here builds the PROVER side of a handshake; the judgement (oracle) is in c05.py.
tlslite is imported inside functions only.
"""
import copy
import hashlib
import os

from .. import lab
from ..core import REPO

HN = {1: "md5", 2: "sha1", 3: "sha224", 4: "sha256", 5: "sha384", 6: "sha512"}
PSS_RSAE = {4: "sha256", 5: "sha384", 6: "sha512"}
PSS_PSS = {9: "sha256", 10: "sha384", 11: "sha512"}
BP13 = {0x1A: "sha256", 0x1B: "sha384", 0x1C: "sha512"}

# extra credentials (kind -> (cert pem or None, key pem)) beyond lab.CRED_FILES
EXTRA_KEYS = {
    "rsa_other": "serverRSANonCAKey.pem",
    "rsapss_other": "serverDelCredRSAPSSKey.pem",
    "ecdsa_other": "serverECDSANonCAKey.pem",
    "ecdsa384_other": "serverDelCredSECP384r1Key.pem",
    "ed25519_other": "serverDelCredEd25519Key.pem",
    "dc_rsapss": "serverDelCredRSAPSSKey.pem",
    "dc_ed25519": "serverDelCredEd25519Key.pem",
    "dc_p256": "serverDelCredSECP256r1Key.pem",
    "dc_p384": "serverDelCredSECP384r1Key.pem",
}
DC_PUBS = {"dc_rsapss": "serverDelCredRSAPSSPub.pem", "dc_ed25519": "serverDelCredEd25519Pub.pem",
           "dc_p256": "serverDelCredSECP256r1Pub.pem", "dc_p384": "serverDelCredSECP384r1Pub.pem"}
OTHER = {"rsa": "rsa_other", "client_rsa": "rsa", "rsapss": "rsapss_other", "ecdsa": "ecdsa_other",
         "client_ecdsa": "ecdsa", "ecdsa384": "ecdsa384_other", "ed25519": "ed25519_other",
         "client_ed25519": "ed25519", "dsa": "client_dsa", "client_dsa": "dsa", "ed448": "ed448_gen",
         "brainpool256": "ecdsa_other", "ecdsa521": "ecdsa_other"}
_KEYS = {}


def key_of(kind):
    """private key object for a credential kind (lab kinds, EXTRA_KEYS, or the generated Ed448 key)"""
    if kind in _KEYS:
        return _KEYS[kind]
    if kind in lab.CRED_FILES:
        k = lab.creds(kind)[1]
    elif kind == "ed448_gen":
        import ecdsa
        from tlslite.utils.python_eddsakey import Python_EdDSAKey
        sk = ecdsa.SigningKey.from_string(bytes(range(57)), curve=ecdsa.Ed448)
        k = Python_EdDSAKey(None, sk)
    else:
        from tlslite.api import parsePEMKey
        with open(os.path.join(REPO, "tests", EXTRA_KEYS[kind])) as f:
            k = parsePEMKey(f.read(), private=True, implementations=["python"])
    _KEYS[kind] = k
    return k


def dc_pub(kind):
    from tlslite.utils.pem import dePem
    with open(os.path.join(REPO, "tests", DC_PUBS[kind])) as f:
        return dePem(f.read(), "PUBLIC KEY")


CURVES = {"NIST256p": ("nist256", 32), "NIST384p": ("nist384", 48), "NIST521p": ("nist521", 66),
          "BRAINPOOLP256r1": ("bp256", 32), "BRAINPOOLP384r1": ("bp384", 48), "BRAINPOOLP512r1": ("bp512", 64)}
ALGS = {"rsa": "rsa", "rsa-pss": "rsapss", "ecdsa": "ecdsa", "Ed25519": "ed25519", "Ed448": "ed448", "dsa": "dsa"}


def cert_token(kind):
    """`alg:curve:baselen:bits` of the end-entity certificate of a lab credential (model input)"""
    chain = lab.creds(kind)[0]
    x = chain.x509List[0]
    alg = ALGS[x.certAlg]
    pk = x.publicKey
    curve, bl = ("-", 0)
    if alg == "ecdsa":
        curve, bl = CURVES.get(pk.curve_name, ("other", 0))
    return "%s:%s:%d:%d" % (alg, curve, bl, len(pk))


def cert_alg(kind):
    return ALGS[lab.creds(kind)[0].x509List[0].certAlg]


def scheme_family(sid):
    """(family, hash) of a scheme id from RFC 8446 4.2.3 / RFC 5246 7.4.1.4.1 / RFC 8734 (independent table)"""
    h, s = sid
    if sid == (8, 7):
        return ("ed25519", None)
    if sid == (8, 8):
        return ("ed448", None)
    if h == 8 and s in PSS_RSAE:
        return ("pss_rsae", PSS_RSAE[s])
    if h == 8 and s in PSS_PSS:
        return ("pss_pss", PSS_PSS[s])
    if h == 8 and s in BP13:
        return ("ecdsa_bp13", BP13[s])
    if h in HN and s == 1:
        return ("pkcs1", HN[h])
    if h in HN and s == 3:
        return ("ecdsa", HN[h])
    if h in HN and s == 2:
        return ("dsa", HN[h])
    return (None, None)


def compatible(sid, alg, curve, ver):
    """RFC view: may a peer whose end-entity key is (alg, curve) use scheme `sid` in version (3, ver)?"""
    fam, h = scheme_family(sid)
    if fam is None:
        return False
    if alg == "rsa":
        return fam == "pss_rsae" or (fam == "pkcs1" and ver <= 3)
    if alg == "rsapss":
        return fam == "pss_pss"
    if alg == "ed25519":
        return fam == "ed25519" and ver >= 3
    if alg == "ed448":
        return fam == "ed448" and ver >= 3
    if alg == "dsa":
        return fam == "dsa" and ver <= 3
    if alg == "ecdsa":
        if ver <= 3:
            return fam == "ecdsa"
        want = {"nist256": ("ecdsa", "sha256"), "nist384": ("ecdsa", "sha384"), "nist521": ("ecdsa", "sha512"),
                "bp256": ("ecdsa_bp13", "sha256"), "bp384": ("ecdsa_bp13", "sha384"),
                "bp512": ("ecdsa_bp13", "sha512")}.get(curve)
        return want == (fam, h)
    return False


def H(name, data):
    return getattr(hashlib, name)(bytes(data)).digest()


def sign_msg(key, sid, M, legacy=None):
    """hash-then-sign message M as a holder of `key` using scheme `sid` (None + legacy='ske'|'cv' for
    TLS < 1.2).  Raises TypeError when the key cannot produce that family."""
    kt = key.key_type
    M = bytes(M)
    if sid is None:
        if kt in ("rsa", "rsa-pss"):
            return bytes(key.sign(bytearray(H("md5", M) + H("sha1", M))))
        if kt == "ecdsa":
            return bytes(key.sign(bytearray(H("sha1", M)), None, "sha1"))
        if kt == "dsa":
            # tlslite's TLS 1.0/1.1 DSA CertificateVerify covers MD5||SHA-1; ServerKeyExchange SHA-1
            d = H("md5", M) + H("sha1", M) if legacy == "cv" else H("sha1", M)
            return bytes(key.sign(bytearray(d)))
        raise TypeError("legacy signing with " + kt)
    fam, h = scheme_family(sid)
    if fam in ("pss_rsae", "pss_pss", "pkcs1"):
        if kt not in ("rsa", "rsa-pss"):
            raise TypeError("key")
        if fam == "pkcs1":
            return bytes(key.hashAndSign(bytearray(M), "PKCS1", h, 0))
        return bytes(key.hashAndSign(bytearray(M), "PSS", h, getattr(hashlib, h)().digest_size))
    if fam in ("ecdsa", "ecdsa_bp13"):
        if kt != "ecdsa":
            raise TypeError("key")
        d = H(h, M)[:key.private_key.curve.baselen]
        return bytes(key.sign(bytearray(d), None, h))
    if fam in ("ed25519", "ed448"):
        if kt.lower() != fam:
            raise TypeError("key")
        return bytes(key.hashAndSign(bytearray(M)))
    if fam == "dsa":
        if kt != "dsa":
            raise TypeError("key")
        return bytes(key.sign(bytearray(H(h, M))))
    raise TypeError("scheme")


def tbs13(transcript, prf, tag):
    return b" " * 64 + b"TLS 1.3, " + tag + b" CertificateVerify\x00" + H(prf, transcript)


def der_ok(sig):
    """does a DSA signature parse as DER SEQUENCE{INTEGER, INTEGER} without raising (python-ecdsa)?"""
    from ecdsa.der import remove_sequence, remove_integer
    try:
        body, rest = remove_sequence(bytes(sig))
        r, rest2 = remove_integer(body)
        s, rest3 = remove_integer(rest2)
        return True
    except Exception:
        return False


ED_L = {"Ed25519": 2 ** 252 + 27742317777372353535851937790883648493,
        "Ed448": 2 ** 446 - 13818066809895115352007386748515426880336692474882178609894547503885}
ED_LEN = {"Ed25519": 32, "Ed448": 57}


def _der_int(n, pad=0):
    """DER INTEGER (two's complement, minimal unless `pad` extra leading bytes are asked for)"""
    if n >= 0:
        b = n.to_bytes(n.bit_length() // 8 + 1, "big")
        b = b"\x00" * pad + b
    else:
        ln = ((-n - 1).bit_length()) // 8 + 1
        b = b"\xff" * pad + (n + (1 << (8 * ln))).to_bytes(ln, "big")
    ln = len(b)
    hdr = bytes([ln]) if ln < 128 else bytes([0x80 | len(ln.to_bytes((ln.bit_length() + 7) // 8, "big"))]) + \
        ln.to_bytes((ln.bit_length() + 7) // 8, "big")
    return b"\x02" + hdr + b


def _der_seq(body):
    ln = len(body)
    hdr = bytes([ln]) if ln < 128 else bytes([0x80 | len(ln.to_bytes((ln.bit_length() + 7) // 8, "big"))]) + \
        ln.to_bytes((ln.bit_length() + 7) // 8, "big")
    return b"\x30" + hdr + body


def _order(key):
    if key.key_type == "dsa":
        return int(key.q)
    return int(key.public_key.curve.order)


def degenerate_forms(key):
    """names of the algebraically special / degenerate signatures for the key type of `key`"""
    kt = key.key_type
    if kt in ("dsa", "ecdsa"):
        return ["rs:0:0", "rs:1:0", "rs:0:1", "rs:1:1", "rs:q:1", "rs:1:q", "rs:q-1:q-1", "rs:q+1:1", "rs:1:q+1",
                "rs:-1:1", "rs:1:-1", "rs:r:0", "rs:0:s", "rs:r:s+q", "rs:r+q:s", "rs:pad"]
    if kt in ("rsa", "rsa-pss"):
        return ["rsa:0", "rsa:1", "rsa:n-1", "rsa:n", "rsa:n+1", "rsa:s+n"]
    if kt in ("Ed25519", "Ed448"):
        return ["ed:zero", "ed:identityR-zeroS", "ed:R-zeroS", "ed:S+L", "ed:identityR-S"]
    return []


def degenerate(name, key, honest):
    """the degenerate signature `name` for the public parameters of `key`; `honest` is a valid signature
    (used where the form keeps one component)"""
    kt = key.key_type
    honest = bytes(honest)
    if name.startswith("rs:"):
        q = _order(key)
        try:
            from ecdsa.der import remove_sequence, remove_integer
            body, _ = remove_sequence(honest)
            hr, rest = remove_integer(body)
            hs, _ = remove_integer(rest)
        except Exception:
            hr, hs = 2, 3
        if name == "rs:pad":
            return _der_seq(_der_int(hr, pad=2) + _der_int(hs, pad=2))
        _, a, b = name.split(":")
        val = {"0": 0, "1": 1, "q": q, "q-1": q - 1, "q+1": q + 1, "-1": -1, "r": hr, "s": hs, "s+q": hs + q, "r+q": hr + q}
        return _der_seq(_der_int(val[a]) + _der_int(val[b]))
    if name.startswith("rsa:"):
        n = int(key.n)
        k = (n.bit_length() + 7) // 8
        hsig = int.from_bytes(honest, "big") if honest else 2
        v = {"0": 0, "1": 1, "n-1": n - 1, "n": n, "n+1": n + 1, "s+n": hsig + n}[name.split(":")[1]]
        return v.to_bytes(max(k, (v.bit_length() + 7) // 8), "big")
    if name.startswith("ed:"):
        ln = ED_LEN[kt]
        L = ED_L[kt]
        R, S = honest[:ln], honest[ln:2 * ln]
        ident = b"\x01" + b"\x00" * (ln - 1)
        if name == "ed:zero":
            return b"\x00" * (2 * ln)
        if name == "ed:identityR-zeroS":
            return ident + b"\x00" * ln
        if name == "ed:R-zeroS":
            return R + b"\x00" * ln
        if name == "ed:identityR-S":
            return ident + S
        if name == "ed:S+L":
            v = int.from_bytes(S, "little") + L
            return R + v.to_bytes(max(ln, (v.bit_length() + 7) // 8), "little")[:ln + 1].ljust(ln, b"\x00")
    raise ValueError(name)


def mutate(form, sig, rng, key=None):
    sig = bytes(sig)
    if form == "ok":
        return sig
    if form.startswith("deg:"):
        return degenerate(form[4:], key, sig)
    if form == "bitflip":
        if not sig:
            return b"\x01"
        i = rng.randrange(len(sig))
        return sig[:i] + bytes([sig[i] ^ (1 << rng.randrange(8))]) + sig[i + 1:]
    if form == "empty":
        return b""
    if form == "short":
        return sig[:-1]
    if form == "long":
        return sig + b"\x00"
    raise ValueError(form)


class Spy(object):
    """shallow copy of a private key whose sign / hashAndSign calls are recorded; `patch` lets the
    harness replace what the calls return (PHA), the key's own self-check then always passes."""
    def __init__(self, key):
        self.real = key
        self.key = copy.copy(key)
        self.calls = []
        self.patch = None
        spy = self

        def mk(name):
            def f(data, *a, **kw):
                sig = getattr(spy.real, name)(data, *a, **kw)
                spy.calls.append((name, bytes(data), a, kw, bytes(sig)))
                if spy.patch is not None:
                    sig = bytearray(spy.patch(bytes(sig)))
                return sig
            return f
        self.key.sign = mk("sign")
        self.key.hashAndSign = mk("hashAndSign")

    def always_selfcheck(self):
        self.key.verify = lambda *a, **kw: True
        self.key.hashAndVerify = lambda *a, **kw: True
