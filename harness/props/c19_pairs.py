"""C19, second half — "Any two endpoints configured from validated settings that share a protocol
version and, for it, a cipher suite, group and signature scheme usable with the server's
credentials complete a handshake with each other."

Pairs of validated settings from the lattice x server credential kinds are run in the live lab;
the expectation `compatible()` below is written from the property text, the TLS RFCs and the IANA
suite names (CipherSuite.ietfNames is used as the name table only) and never calls the library's
selection code.

Reading of the property: the protocol negotiates the version first (the highest one both ends
enable) and everything else for that version, so "share a protocol version and, for it, ..." is
evaluated at the highest common version.  Pairs that are compatible only at a lower common version
are run and counted (`info:pair-only-lower-version-*`) but not judged.
"""
import copy

V30, V31, V32, V33, V34 = (3, 0), (3, 1), (3, 2), (3, 3), (3, 4)
ALL_VERSIONS = [V30, V31, V32, V33, V34]

# credential kind -> (key type, detail); detail = bits for rsa/dsa, curve for ecdsa
CRED_FACTS = {
    "rsa": ("rsa", 2048), "rsapss": ("rsa-pss", 2048), "dsa": ("dsa", 2048),
    "ecdsa": ("ecdsa", "secp256r1"), "ecdsa384": ("ecdsa", "secp384r1"), "ecdsa521": ("ecdsa", "secp521r1"),
    "ed25519": ("ed25519", None), "ed448": ("ed448", None),
}
# RFC 8446 4.2.3: in TLS 1.3 an ECDSA scheme names its curve
TLS13_ECDSA_HASH = {"secp256r1": "sha256", "secp384r1": "sha384", "secp521r1": "sha512"}
# RFC 8446 4.2.7 (+ RFC 8734 brainpool*tls13, ML-KEM hybrids)
TLS13_GROUPS = ["secp256r1", "secp384r1", "secp521r1", "x25519", "x448", "ffdhe2048", "ffdhe3072", "ffdhe4096",
                "ffdhe6144", "ffdhe8192", "brainpoolP256r1tls13", "brainpoolP384r1tls13", "brainpoolP512r1tls13",
                "secp256r1mlkem768", "x25519mlkem768", "secp384r1mlkem1024"]
TLS13_ONLY_GROUPS = ["brainpoolP256r1tls13", "brainpoolP384r1tls13", "brainpoolP512r1tls13",
                     "secp256r1mlkem768", "x25519mlkem768", "secp384r1mlkem1024"]
FFDHE_BITS = {"ffdhe2048": 2048, "ffdhe3072": 3072, "ffdhe4096": 4096, "ffdhe6144": 6144, "ffdhe8192": 8192}
PSS_HASHES = ["sha256", "sha384", "sha512"]


# ---------------------------------------------------------------------------------------------
# IANA names -> (key exchange, cipher, mac, versions)
# ---------------------------------------------------------------------------------------------
def parse_suite(name):
    """{'kex','cipher','mac','tls13'} from an IANA cipher-suite name; None for names outside the
    certificate-based families of HandshakeSettings.keyExchangeNames"""
    if not name.startswith("TLS_") or name.endswith("_SCSV"):
        return None
    body = name[4:]
    if "_WITH_" in body:
        kx, rest = body.split("_WITH_", 1)
        kex = {"RSA": "rsa", "DHE_RSA": "dhe_rsa", "ECDHE_RSA": "ecdhe_rsa", "ECDHE_ECDSA": "ecdhe_ecdsa",
               "DHE_DSS": "dhe_dsa"}.get(kx)
        if kex is None:
            return None
        tls13 = False
    else:
        kex, rest, tls13 = None, body, True
    aead = {"AES_128_GCM_SHA256": "aes128gcm", "AES_256_GCM_SHA384": "aes256gcm",
            "CHACHA20_POLY1305_SHA256": "chacha20-poly1305", "CHACHA20_POLY1305_draft_00": "chacha20-poly1305_draft00",
            "AES_128_CCM": "aes128ccm", "AES_256_CCM": "aes256ccm", "AES_128_CCM_8": "aes128ccm_8",
            "AES_256_CCM_8": "aes256ccm_8", "AES_128_CCM_SHA256": "aes128ccm", "AES_128_CCM_8_SHA256": "aes128ccm_8"}
    if rest in aead:
        return {"kex": kex, "cipher": aead[rest], "mac": "aead", "tls13": tls13}
    if tls13:
        return None
    for pre, cname in (("AES_128_CBC_", "aes128"), ("AES_256_CBC_", "aes256"), ("3DES_EDE_CBC_", "3des"),
                       ("RC4_128_", "rc4"), ("NULL_", "null")):
        if rest.startswith(pre):
            mac = {"SHA": "sha", "MD5": "md5", "SHA256": "sha256", "SHA384": "sha384"}.get(rest[len(pre):])
            if mac is None:
                return None
            return {"kex": kex, "cipher": cname, "mac": mac, "tls13": False}
    return None


# Named in the table but marked "# unsupported" in tlslite/constants.py: they are in no MAC list, so no
# settings ever offer or select them (TLS_DHE_DSS_WITH_AES_{128,256}_CBC_SHA256).  Not "shared" by anybody.
DECLARED_UNSUPPORTED = (0x0040, 0x006A)


def suite_table():
    from tlslite.constants import CipherSuite
    res = {}
    for sid, name in CipherSuite.ietfNames.items():
        if sid in DECLARED_UNSUPPORTED:
            continue
        p = parse_suite(name)
        if p is not None:
            p["name"] = name
            res[sid] = p
    return res


def suite_ok_at(p, v):
    if p["tls13"]:
        return v == V34
    if v == V34:
        return False
    if p["mac"] in ("aead", "sha256", "sha384"):      # RFC 5246: new MACs / AEAD only from TLS 1.2
        return v == V33
    return True


def enabled_suites(table, st, v):
    """suite ids a certificate-handshake endpoint with (validated) settings `st` can use at version v"""
    res = set()
    for sid, p in table.items():
        if not suite_ok_at(p, v):
            continue
        if p["cipher"] not in st["cipherNames"] or p["mac"] not in st["macNames"]:
            continue
        if not p["tls13"] and p["kex"] not in st["keyExchangeNames"]:
            continue
        res.add(sid)
    return res


# ---------------------------------------------------------------------------------------------
# signature schemes
# ---------------------------------------------------------------------------------------------
def sig_schemes(st, v):
    """scheme names an endpoint with settings `st` produces / accepts at version v (v >= TLS 1.2)"""
    res = set()
    for h in st["rsaSigHashes"]:
        if "pkcs1" in st["rsaSchemes"] and v == V33:
            res.add("rsa_pkcs1_" + h)
        if "pss" in st["rsaSchemes"] and h in PSS_HASHES:
            res.add("rsa_pss_rsae_" + h)
            res.add("rsa_pss_pss_" + h)
    for h in st["ecdsaSigHashes"]:
        res.add("ecdsa_" + h)
    if v == V33:
        for h in st["dsaSigHashes"]:
            res.add("dsa_" + h)
    for s in st["more_sig_schemes"]:
        res.add(s)
    return res


def cred_schemes(cred, v):
    """schemes the server key can produce at version v"""
    kt, detail = CRED_FACTS[cred]
    hashes = ["sha1", "sha224", "sha256", "sha384", "sha512", "md5"]
    if kt == "rsa":
        res = set("rsa_pss_rsae_" + h for h in PSS_HASHES)
        if v == V33:
            res |= set("rsa_pkcs1_" + h for h in hashes)
        return res
    if kt == "rsa-pss":
        return set("rsa_pss_pss_" + h for h in PSS_HASHES)
    if kt == "ecdsa":
        if v == V34:
            return set(["ecdsa_" + TLS13_ECDSA_HASH[detail]])
        return set("ecdsa_" + h for h in hashes)
    if kt == "ed25519":
        return set(["Ed25519"])
    if kt == "ed448":
        return set(["Ed448"])
    if kt == "dsa":
        return set("dsa_" + h for h in hashes) if v == V33 else set()
    return set()


def cred_kex(cred):
    kt = CRED_FACTS[cred][0]
    return {"rsa": ["rsa", "dhe_rsa", "ecdhe_rsa"], "rsa-pss": ["dhe_rsa", "ecdhe_rsa"], "ecdsa": ["ecdhe_ecdsa"],
            "ed25519": ["ecdhe_ecdsa"], "ed448": ["ecdhe_ecdsa"], "dsa": ["dhe_dsa"]}[kt]


# ---------------------------------------------------------------------------------------------
# the expectation
# ---------------------------------------------------------------------------------------------
def versions_of(st):
    return [v for v in ALL_VERSIONS if st["minVersion"] <= v <= st["maxVersion"] and v in st["versions"]] \
        if st["maxVersion"] >= V34 else [v for v in ALL_VERSIONS if st["minVersion"] <= v <= st["maxVersion"]]


def common_versions(cs, ss):
    vc, vs = versions_of(cs), versions_of(ss)
    com = [v for v in vc if v in vs]
    if cs["maxVersion"] >= V34:
        # a TLS 1.3 capable ClientHello carries supported_versions and other extensions: it is not an
        # SSLv3 hello (RFC 8446 D.5: SSL 3.0 MUST NOT be negotiated)
        com = [v for v in com if v != V30]
    return com


def compatible_at(table, cs, ss, cred, v):
    """(True|False|None, reason): can the pair complete at version v?  None = the standards leave it
    to the implementation (not judged)"""
    kt, detail = CRED_FACTS[cred]
    both = enabled_suites(table, cs, v) & enabled_suites(table, ss, v)
    if not both:
        return False, "no-common-suite"
    if kt in ("rsa", "rsa-pss", "dsa"):
        if not (cs["minKeySize"] <= detail <= cs["maxKeySize"]):
            return False, "server-key-size-outside-client-limits"
    if v == V34:
        shared = [g for g in cs["eccCurves"] + cs["dhGroups"] if g in ss["eccCurves"] + ss["dhGroups"]]
        groups = [g for g in shared if g in TLS13_GROUPS]
        groups = [g for g in groups if g not in FFDHE_BITS or cs["minKeySize"] <= FFDHE_BITS[g] <= cs["maxKeySize"]]
        if not groups:
            if shared:
                # both ends list the group, RFC 8446 does not allow it (secp256k1, RFC 5639 brainpool
                # code points) or the client's key-size limits exclude it: not judged either way
                return None, "common-group-not-usable-in-tls13"
            return False, "no-common-group"
        sch = sig_schemes(cs, v) & sig_schemes(ss, v) & cred_schemes(cred, v)
        if not sch:
            return False, "no-common-signature-scheme"
        return True, "ok"
    # ---- TLS 1.2 and earlier
    if v == V30 and (cs["requireExtendedMasterSecret"] or ss["requireExtendedMasterSecret"]):
        return None, "sslv3-has-no-extensions"
    if (cs["requireExtendedMasterSecret"] and not ss["useExtendedMasterSecret"]) or \
            (ss["requireExtendedMasterSecret"] and not cs["useExtendedMasterSecret"]):
        return False, "extended-master-secret-required-but-not-offered"
    if v == V33:
        sch = sig_schemes(cs, v) & sig_schemes(ss, v) & cred_schemes(cred, v)
    elif kt in ("rsa", "ecdsa", "dsa"):
        # below TLS 1.2 the ServerKeyExchange signature is fixed (MD5+SHA1 for RSA, SHA-1 otherwise,
        # RFC 4346 7.4.3) and not negotiated: the signature hash / scheme lists of the settings (documented
        # for TLS 1.2, RFC 5246 7.4.1.4.1: "not meaningful for TLS versions prior to 1.2") play no role,
        # even when a client that also enables TLS 1.2+ sends them
        sch = set(["fixed"])
    else:
        # EdDSA and RSA-PSS keys have no signature format below TLS 1.2: such a key serves no suite there
        sch = set()
    verdicts = []
    for sid in sorted(both):
        p = table[sid]
        if p["kex"] not in cred_kex(cred):
            continue
        if p["kex"] == "rsa":
            # key transport needs no signature; but a pair without any common signature scheme is
            # outside the property's premise ("share ... a signature scheme"), so it is not judged
            verdicts.append((True, "ok") if sch else (None, "key-transport-without-common-signature-scheme"))
            continue
        if not sch:
            verdicts.append((False, "no-common-signature-scheme"))
            continue
        if p["kex"] in ("ecdhe_rsa", "ecdhe_ecdsa"):
            if v == V30:
                verdicts.append((None, "ecc-in-sslv3"))
                continue
            curves = [g for g in cs["eccCurves"] if g in ss["eccCurves"] and g not in TLS13_ONLY_GROUPS]
            if not curves:
                verdicts.append((False, "no-common-group"))
                continue
            if kt == "ecdsa" and detail not in cs["eccCurves"]:
                # RFC 8422 5.1.1/5.3: the certificate's curve must be one the client listed — whether
                # an implementation enforces it is not part of the property
                verdicts.append((None, "certificate-curve-not-offered"))
                continue
            verdicts.append((True, "ok"))
        else:
            # DHE: RFC 7919
            if not cs["dhGroups"] and ss.get("dhParamsBits"):
                # the client names no RFC 7919 group: the server uses its own parameters
                bits = ss["dhParamsBits"]
                verdicts.append((True, "ok") if cs["minKeySize"] <= bits <= cs["maxKeySize"]
                                else (False, "dh-group-size-outside-client-limits"))
                continue
            if not cs["dhGroups"] or not ss["dhGroups"]:
                verdicts.append((None, "dhe-without-named-groups"))
                continue
            groups = [g for g in cs["dhGroups"] if g in ss["dhGroups"]]
            if not groups:
                verdicts.append((None, "dhe-no-common-named-group"))
                continue
            if not [g for g in groups if cs["minKeySize"] <= FFDHE_BITS[g] <= cs["maxKeySize"]]:
                verdicts.append((None, "dhe-group-size-outside-client-limits"))
                continue
            if [g for g in groups if not cs["minKeySize"] <= FFDHE_BITS[g] <= cs["maxKeySize"]]:
                verdicts.append((None, "dhe-some-group-outside-client-limits"))
                continue
            verdicts.append((True, "ok"))
    if not verdicts:
        return False, "no-suite-usable-with-server-key"
    # the server is free to pick any usable common suite: the pair must complete if every candidate
    # the server may pick works; it cannot complete if none does
    if all(x[0] is True for x in verdicts):
        return True, "ok"
    if all(x[0] is False for x in verdicts):
        return False, verdicts[0][1]
    if any(x[0] is True for x in verdicts) and not any(x[0] is None for x in verdicts):
        # some common suites work, others cannot: a server that understands its own key picks a
        # working one (the property says such pairs complete)
        return True, "ok-some-suites"
    return None, [x[1] for x in verdicts if x[0] is None][0]


def compatible(table, cs, ss, cred):
    """(verdict, reason, version): verdict True = must complete, False = must not, None = not judged"""
    com = common_versions(cs, ss)
    if not com:
        return False, "no-common-version", None
    v = max(com)
    ok, why = compatible_at(table, cs, ss, cred, v)
    if ok is False:
        lower = [w for w in com if w != v and compatible_at(table, cs, ss, cred, w)[0] is True]
        if lower:
            return None, "only-lower-version:" + why, v
    return ok, why, v


# ---------------------------------------------------------------------------------------------
# pair generation
# ---------------------------------------------------------------------------------------------
def settings_dict(s):
    d = _settings_dict(s)
    if s.dhParams:
        from tlslite.utils.cryptomath import numBits
        d["dhParamsBits"] = numBits(s.dhParams[1])
    else:
        d["dhParamsBits"] = None
    return d


def _settings_dict(s):
    return {k: copy.deepcopy(v) for k, v in s.__dict__.items()
            if k in ("minVersion", "maxVersion", "versions", "cipherNames", "macNames", "keyExchangeNames",
                     "eccCurves", "dhGroups", "keyShares", "rsaSigHashes", "rsaSchemes", "dsaSigHashes",
                     "ecdsaSigHashes", "more_sig_schemes", "minKeySize", "maxKeySize", "useEncryptThenMAC",
                     "useExtendedMasterSecret", "requireExtendedMasterSecret", "record_size_limit")}


def mk_settings(spec):
    from tlslite.handshakesettings import HandshakeSettings
    s = HandshakeSettings()
    for k, v in spec.items():
        if k in ("minVersion", "maxVersion"):
            v = tuple(v)
        elif k == "versions":
            v = [tuple(x) for x in v]
        elif isinstance(v, list):
            v = list(v)
        setattr(s, k, v)
    return s


def one_common(rng, universe, allow_extra=True):
    """two sub-lists of `universe` with exactly one common element"""
    u = list(universe)
    rng.shuffle(u)
    c = u[0]
    rest = u[1:]
    a, b = [c], [c]
    if allow_extra:
        for x in rest:
            r = rng.random()
            if r < 0.3:
                a.append(x)
            elif r < 0.6:
                b.append(x)
    rng.shuffle(a)
    rng.shuffle(b)
    return a, b, c


def disjoint(rng, universe):
    u = list(universe)
    rng.shuffle(u)
    k = max(1, len(u) // 2)
    return u[:k], u[k:] or u[:1]


def vrange(lo, hi):
    return [list(v) for v in ALL_VERSIONS if lo <= v <= hi]


CIPHERS_12 = ["chacha20-poly1305", "aes256gcm", "aes128gcm", "aes256ccm", "aes128ccm", "aes256", "aes128", "3des"]
CIPHERS_13 = ["chacha20-poly1305", "aes256gcm", "aes128gcm", "aes128ccm"]
CURVES_COMMON = ["x25519", "x448", "secp256r1", "secp384r1", "secp521r1"]
CURVES_12ONLY = ["brainpoolP256r1", "brainpoolP384r1", "secp256k1"]
DHGROUPS = ["ffdhe2048", "ffdhe3072", "ffdhe4096"]
HASHES = ["sha512", "sha384", "sha256", "sha224", "sha1"]
KEX = ["ecdhe_ecdsa", "rsa", "dhe_rsa", "ecdhe_rsa", "dhe_dsa"]
CREDS = ["rsa", "rsa", "rsapss", "ecdsa", "ecdsa", "ecdsa384", "ed25519", "dsa", "ecdsa521", "ed448"]


def gen_pair(rng, focus=None):
    """(kind, client spec, server spec, cred, alpn or None) — specs are JSON-able field dicts"""
    c, s = {}, {}
    cred = rng.choice(CREDS)
    focus = focus or rng.choice(["version", "cipher", "mac", "kex", "group", "group13", "ffdhe13", "sig", "keysize",
                                 "ems", "mixed", "mixed", "default", "disjoint"])
    # ---- versions
    def pick_range():
        lo = rng.randrange(0, 5)
        hi = rng.randrange(lo, 5)
        return ALL_VERSIONS[lo], ALL_VERSIONS[hi]
    if focus == "version":
        # exactly one common version
        v = rng.choice(ALL_VERSIONS[1:])
        if rng.random() < 0.5:
            clo, chi = rng.choice([w for w in ALL_VERSIONS if w <= v]), v
            slo, shi = v, rng.choice([w for w in ALL_VERSIONS if w >= v])
        else:
            slo, shi = rng.choice([w for w in ALL_VERSIONS if w <= v]), v
            clo, chi = v, rng.choice([w for w in ALL_VERSIONS if w >= v])
    elif focus in ("group13", "ffdhe13"):
        clo, chi = rng.choice([(V34, V34), (V33, V34), (V31, V34)])
        slo, shi = rng.choice([(V34, V34), (V33, V34), (V31, V34)])
    elif focus in ("default",):
        clo, chi, slo, shi = V31, V34, V31, V34
    else:
        clo, chi = rng.choice([(V31, V34), (V33, V34), (V33, V33), (V31, V33), (V34, V34), (V31, V32), (V32, V33)] +
                              [pick_range()])
        slo, shi = rng.choice([(V31, V34), (V33, V34), (V33, V33), (V31, V33), (V34, V34), (V31, V32), (V32, V33)] +
                              [pick_range()])
    for d, lo, hi in ((c, clo, chi), (s, slo, shi)):
        d["minVersion"], d["maxVersion"] = list(lo), list(hi)
        d["versions"] = vrange(lo, hi)[::-1]
    # ---- dimensions
    def dim(field, universe, mode):
        if mode == "one":
            a, b, _ = one_common(rng, universe)
            c[field], s[field] = a, b
        elif mode == "disjoint":
            a, b = disjoint(rng, universe)
            c[field], s[field] = a, b
        elif mode == "random":
            for d in (c, s):
                l = [x for x in universe if rng.random() < 0.6] or [rng.choice(list(universe))]
                rng.shuffle(l)
                d[field] = l
    mixed = focus == "mixed"
    r = rng.random
    if focus == "cipher" or (mixed and r() < 0.5):
        dim("cipherNames", CIPHERS_12, "one" if focus == "cipher" or r() < 0.5 else "random")
    if focus == "mac" or (mixed and r() < 0.4):
        dim("macNames", ["sha", "sha256", "sha384", "aead"], "one" if focus == "mac" or r() < 0.5 else "random")
    if focus == "kex" or (mixed and r() < 0.5):
        dim("keyExchangeNames", KEX, "one" if focus == "kex" or r() < 0.5 else "random")
    if focus == "sig" or (mixed and r() < 0.5):
        which = rng.choice(["rsa", "ecdsa", "dsa", "more", "schemes", "all"])
        if which in ("rsa", "all"):
            dim("rsaSigHashes", HASHES, "one")
        if which in ("ecdsa", "all"):
            dim("ecdsaSigHashes", HASHES, "one")
        if which in ("dsa", "all"):
            dim("dsaSigHashes", HASHES, "one")
        if which == "schemes":
            c["rsaSchemes"], s["rsaSchemes"] = rng.choice([(["pss"], ["pss", "pkcs1"]), (["pkcs1"], ["pss", "pkcs1"]),
                                                            (["pkcs1", "pss"], ["pss"]), (["pss"], ["pkcs1"])])
        if which == "more":
            c["more_sig_schemes"], s["more_sig_schemes"] = rng.choice([(["Ed25519"], ["Ed25519", "Ed448"]),
                                                                        (["Ed448", "Ed25519"], ["Ed448"]),
                                                                        (["Ed25519"], ["Ed448"]), ([], ["Ed25519"])])
    if focus == "disjoint":
        f, u = rng.choice([("cipherNames", CIPHERS_12), ("macNames", ["sha", "sha256", "sha384", "aead"]),
                           ("keyExchangeNames", KEX), ("eccCurves", CURVES_COMMON), ("rsaSigHashes", HASHES),
                           ("ecdsaSigHashes", HASHES)])
        dim(f, u, "disjoint")
        if f == "eccCurves":
            c["dhGroups"], s["dhGroups"] = [], []
    # ---- groups
    if focus in ("group", "group13") or (mixed and r() < 0.5):
        universe = CURVES_COMMON + (CURVES_12ONLY if focus == "group" and r() < 0.3 else [])
        a, b, _ = one_common(rng, universe)
        c["eccCurves"], s["eccCurves"] = a, b
        mode = rng.choice(["none", "one", "disjoint", "default"])
        if mode == "none":
            c["dhGroups"], s["dhGroups"] = [], []
        elif mode == "one":
            c["dhGroups"], s["dhGroups"], _ = one_common(rng, DHGROUPS)
            if focus == "group13" and r() < 0.5:
                # ... and then the curves must not overlap at all: exactly one common group overall
                c["eccCurves"], s["eccCurves"] = disjoint(rng, CURVES_COMMON)
        elif mode == "disjoint":
            c["dhGroups"], s["dhGroups"] = ["ffdhe2048"], ["ffdhe3072"]
    if focus == "ffdhe13":
        # the only common group is a finite-field one
        c["eccCurves"], s["eccCurves"] = rng.choice([(["x25519"], ["secp256r1"]), ([], []), (["secp384r1", "x448"], ["x25519"]),
                                                     (["x25519", "secp256r1"], [])])
        c["dhGroups"], s["dhGroups"], _ = one_common(rng, DHGROUPS)
    # ---- key shares of both ends: subset of own groups; [] forces a HelloRetryRequest in TLS 1.3
    for d in (c, s):
        own = d.get("eccCurves", ["x25519", "secp256r1", "secp384r1"]) + d.get("dhGroups", DHGROUPS)
        own = [g for g in own]
        m = rng.choice(["first", "empty", "random", "last", "two"])
        if not own or m == "empty":
            d["keyShares"] = []
        elif m == "first":
            d["keyShares"] = own[:1]
        elif m == "last":
            d["keyShares"] = own[-1:]
        elif m == "two":
            d["keyShares"] = rng.sample(own, min(2, len(own)))
        else:
            d["keyShares"] = [rng.choice(own)]
    # ---- key sizes
    if focus == "keysize" or (mixed and r() < 0.2):
        lo, hi = rng.choice([(1023, 2048), (2048, 2048), (2048, 4096), (2049, 8193), (512, 2047), (1024, 3072),
                             (3072, 8192), (512, 16384)])
        c["minKeySize"], c["maxKeySize"] = lo, hi
    if focus == "ems" or (mixed and r() < 0.3):
        for d in (c, s):
            use = r() < 0.6
            d["useExtendedMasterSecret"] = use
            d["requireExtendedMasterSecret"] = use and r() < 0.5
            d["useEncryptThenMAC"] = r() < 0.5
    if mixed and r() < 0.3:
        for d in (c, s):
            d["record_size_limit"] = rng.choice([None, 64, 512, 2 ** 14, 2 ** 14 + 1])
    alpn = None
    if mixed and r() < 0.3:
        a, b, _ = one_common(rng, ["h2", "http/1.1", "spdy/3", "acme-tls/1"])
        alpn = (a, b)
    # ---- TLS 1.3-only ends may not list groups that TLS 1.3 forbids (validate() would raise)
    for d in (c, s):
        if tuple(d["minVersion"]) == V34 and "eccCurves" not in d:
            d["eccCurves"] = list(CURVES_COMMON)
        if tuple(d["minVersion"]) == V34:
            d["eccCurves"] = [g for g in d["eccCurves"] if g in TLS13_GROUPS]
        own = d.get("eccCurves", None)
        if own is not None or "dhGroups" in d:
            pool = (own if own is not None else CURVES_COMMON + CURVES_12ONLY + ["brainpoolP512r1"]) + d.get("dhGroups", DHGROUPS)
            d["keyShares"] = [g for g in d.get("keyShares", []) if g in pool]
    return focus, c, s, cred, alpn


# ---------------------------------------------------------------------------------------------
# running one pair
# ---------------------------------------------------------------------------------------------
def run_pair(cspec, sspec, cred, alpn=None, server_dh_bits=None):
    """returns dict: outcome 'complete' | 'fail' | 'invalid:<side>', details"""
    from harness import lab
    try:
        craw = mk_settings(cspec)
        cset = craw.validate()
    except ValueError as e:
        return {"outcome": "invalid:client", "why": str(e)[:120]}
    try:
        sraw = mk_settings(sspec)
        if server_dh_bits:
            from tlslite.mathtls import goodGroupParameters
            from tlslite.utils.cryptomath import numBits
            sraw.dhParams = [gp for gp in goodGroupParameters[:7] if numBits(gp[1]) == server_dh_bits][0]
        sset = sraw.validate()
    except ValueError as e:
        return {"outcome": "invalid:server", "why": str(e)[:120]}
    ckw, skw = {}, {}
    if alpn:
        ckw["alpn"] = [bytearray(x.encode("ascii")) for x in alpn[0]]
        skw["alpn"] = [bytearray(x.encode("ascii")) for x in alpn[1]]
    from .c19_use import Watch
    watch = Watch({"client": craw, "client.validated": cset, "server": sraw, "server.validated": sset})
    ref = {"cset": settings_dict(cset), "sset": settings_dict(sset)}
    L = lab.handshake(cset, sset, cred=cred, client_kw=ckw, server_kw=skw)
    res = {"cset": ref["cset"], "sset": ref["sset"], "watch": watch,
           "client": L.client.state, "server": L.server.state,
           "client_exc": lab.exc_class(L.client.exc), "server_exc": lab.exc_class(L.server.exc)}
    if L.client.state == "done" and L.server.state == "done":
        # both ends must also be able to talk
        ok = True
        w = L.write("client", b"ping from client")
        rd = L.read("server", max=100, min=16)
        ok = ok and w[0] == "ok" and rd[0] == "ok" and rd[1] == b"ping from client"
        w = L.write("server", b"pong from server")
        rd = L.read("client", max=100, min=16)
        ok = ok and w[0] == "ok" and rd[0] == "ok" and rd[1] == b"pong from server"
        res["outcome"] = "complete" if ok else "complete-but-no-data"
        res["version"] = tuple(L.client.conn.version)
        res["suite"] = L.client.conn.session.cipherSuite
        res["server_version"] = tuple(L.server.conn.version)
        res["server_suite"] = L.server.conn.session.cipherSuite
    else:
        res["outcome"] = "fail"
    res["settings_mutated"] = res.pop("watch").changed()
    return res


# ---------------------------------------------------------------------------------------------
# systematic "exactly one way to agree" pairs
# ---------------------------------------------------------------------------------------------
def systematic_pairs():
    """yield (kind, client spec, server spec, cred, alpn)"""
    def rng_spec(lo, hi, **kw):
        d = {"minVersion": list(lo), "maxVersion": list(hi), "versions": vrange(lo, hi)[::-1]}
        if lo == V34:
            d["eccCurves"] = list(CURVES_COMMON)
        d.update(kw)
        return d
    main_creds = ["rsa", "rsapss", "ecdsa", "ecdsa384", "ed25519", "dsa"]
    # one common version
    for v in ALL_VERSIONS[1:]:
        for cred in main_creds:
            yield ("sys:one-version", rng_spec(v, V34), rng_spec(V31, v), cred, None)
            yield ("sys:one-version", rng_spec(V31, v), rng_spec(v, V34), cred, None)
            yield ("sys:one-version", rng_spec(v, v), rng_spec(v, v), cred, None)
    # one common group in TLS 1.3 (finite field only / x25519 only / one NIST curve only), the client's
    # first flight carrying that share, another share, or none (HelloRetryRequest)
    cases = [("ffdhe2048", ["x25519"], ["secp256r1"], ["ffdhe2048", "ffdhe3072"], ["ffdhe4096", "ffdhe2048"]),
             ("ffdhe3072", [], [], ["ffdhe3072"], ["ffdhe2048", "ffdhe3072"]),
             ("ffdhe2048", ["secp384r1", "x448"], ["x25519", "secp521r1"], ["ffdhe2048"], ["ffdhe2048"]),
             ("x25519", ["x25519", "secp384r1"], ["secp256r1", "x25519"], ["ffdhe2048"], ["ffdhe3072"]),
             ("x25519", ["x25519"], ["x25519"], [], []),
             ("secp384r1", ["secp384r1", "x448"], ["secp256r1", "secp384r1"], [], ["ffdhe2048"]),
             ("x448", ["secp256r1", "x448"], ["x448", "secp521r1"], ["ffdhe4096"], [])]
    for common, cecc, secc, cdh, sdh in cases:
        for cred in ["rsa", "rsapss", "ecdsa", "ed25519"]:
            others = [g for g in cecc + cdh if g != common]
            for cshares in ([common], others[:1], [], others[:1] + [common]):
                for (clo, slo) in ((V34, V34), (V33, V33), (V31, V34)):
                    c = rng_spec(clo, V34, eccCurves=list(cecc), dhGroups=list(cdh), keyShares=list(cshares))
                    s = rng_spec(slo, V34, eccCurves=list(secc), dhGroups=list(sdh), keyShares=(secc + sdh)[:1])
                    yield ("sys:one-group13:" + ("ffdhe" if common in FFDHE_BITS else "ec"), c, s, cred, None)
    # one common group in TLS 1.2
    for common, cecc, secc in (("x25519", ["x25519", "secp384r1"], ["secp256r1", "x25519"]),
                               ("secp256r1", ["secp256r1"], ["secp256r1", "x25519"]),
                               ("secp521r1", ["x448", "secp521r1"], ["secp521r1"]),
                               ("brainpoolP256r1", ["brainpoolP256r1", "x25519"], ["secp256r1", "brainpoolP256r1"])):
        for cred, kex in (("rsa", ["ecdhe_rsa"]), ("rsapss", ["ecdhe_rsa"]), ("ed25519", ["ecdhe_ecdsa"])):
            yield ("sys:one-group12", rng_spec(V31, V33, eccCurves=cecc, keyExchangeNames=kex, keyShares=[]),
                   rng_spec(V33, V34, eccCurves=secc, keyShares=secc[:1]), cred, None)
    for g, cdh, sdh in (("ffdhe2048", ["ffdhe2048", "ffdhe3072"], ["ffdhe4096", "ffdhe2048"]), ("ffdhe3072", ["ffdhe3072"], ["ffdhe3072"])):
        for cred, kex in (("rsa", ["dhe_rsa"]), ("dsa", ["dhe_dsa"]), ("rsapss", ["dhe_rsa"])):
            yield ("sys:one-group12", rng_spec(V33, V33, dhGroups=cdh, keyExchangeNames=kex),
                   rng_spec(V31, V33, dhGroups=sdh), cred, None)
    # one common cipher / MAC
    for ciph in CIPHERS_13:
        for cred in ("rsa", "ecdsa"):
            yield ("sys:one-cipher13", rng_spec(V34, V34, cipherNames=[ciph, "aes256"]),
                   rng_spec(V33, V34, cipherNames=["3des", ciph]), cred, None)
    for ciph in CIPHERS_12:
        for cred in ("rsa", "ecdsa", "dsa"):
            yield ("sys:one-cipher12", rng_spec(V31, V33, cipherNames=[ciph]), rng_spec(V33, V34), cred, None)
            yield ("sys:one-cipher12", rng_spec(V33, V33), rng_spec(V33, V33, cipherNames=[ciph]), cred, None)
    for mac in ("sha", "sha256", "sha384", "aead"):
        for cred in ("rsa", "ecdsa", "dsa", "ed25519"):
            yield ("sys:one-mac", rng_spec(V33, V33, macNames=[mac]), rng_spec(V31, V34), cred, None)
            yield ("sys:one-mac", rng_spec(V31, V34), rng_spec(V33, V33, macNames=[mac]), cred, None)
    # one common suite: for every suite of the name table, a client that enables exactly its cipher,
    # MAC and key exchange against a server with everything (plus that cipher / MAC if not default)
    for sid, p in sorted(suite_table().items()):
        if p["tls13"]:
            vs, creds = [V34], ["rsa", "ecdsa"]
        else:
            vs = [V33] if p["mac"] in ("aead", "sha256", "sha384") else [V31, V33]
            creds = {"rsa": ["rsa"], "dhe_rsa": ["rsa", "rsapss"], "ecdhe_rsa": ["rsa", "rsapss"],
                     "ecdhe_ecdsa": ["ecdsa", "ed25519"], "dhe_dsa": ["dsa"]}[p["kex"]]
        for v in vs:
            for cred in creds:
                if cred in ("rsapss", "ed25519") and v < V33:
                    continue
                c = rng_spec(v, v, cipherNames=[p["cipher"]], macNames=[p["mac"]])
                if not p["tls13"]:
                    c["keyExchangeNames"] = [p["kex"]]
                srv = rng_spec(V31, V34)
                if p["cipher"] not in CIPHERS_12:
                    srv["cipherNames"] = CIPHERS_12 + [p["cipher"]]
                if p["mac"] == "md5":
                    srv["macNames"] = ["sha", "sha256", "sha384", "aead", "md5"]
                yield ("sys:one-suite", c, srv, cred, None)
    # one common key exchange
    for kex in KEX:
        for cred in main_creds:
            yield ("sys:one-kex", rng_spec(V31, V33, keyExchangeNames=[kex]), rng_spec(V31, V34), cred, None)
            yield ("sys:one-kex", rng_spec(V33, V34), rng_spec(V33, V33, keyExchangeNames=[kex]), cred, None)
    # one common signature scheme
    for v in (V33, V34):
        for h in HASHES:
            for schemes in (["pss"], ["pkcs1"], ["pss", "pkcs1"]):
                for cred in ("rsa", "rsapss"):
                    yield ("sys:one-sig-rsa", rng_spec(v, v, rsaSigHashes=[h], rsaSchemes=schemes),
                           rng_spec(V31, V34), cred, None)
                    yield ("sys:one-sig-rsa", rng_spec(V31, V34),
                           rng_spec(v, v, rsaSigHashes=[h, "sha1"], rsaSchemes=schemes), cred, None)
            for cred in ("ecdsa", "ecdsa384", "ecdsa521"):
                yield ("sys:one-sig-ecdsa", rng_spec(v, v, ecdsaSigHashes=[h]), rng_spec(V31, V34), cred, None)
                yield ("sys:one-sig-ecdsa", rng_spec(V31, V34), rng_spec(v, v, ecdsaSigHashes=[h]), cred, None)
        for ms in (["Ed25519"], ["Ed448"], []):
            for cred in ("ed25519", "ed448"):
                yield ("sys:one-sig-eddsa", rng_spec(v, v, more_sig_schemes=ms), rng_spec(V31, V34), cred, None)
                yield ("sys:one-sig-eddsa", rng_spec(V31, V34), rng_spec(v, v, more_sig_schemes=ms), cred, None)
    for h in HASHES:
        yield ("sys:one-sig-dsa", rng_spec(V33, V33, dsaSigHashes=[h]), rng_spec(V31, V34), "dsa", None)
    # below TLS 1.2 the signature is fixed: disjoint TLS 1.2 signature lists must not matter; EdDSA and
    # RSA-PSS keys serve nothing there
    for hi in (V31, V32):
        for cmax in (V33, V34):
            yield ("sys:sig-lists-below-tls12", rng_spec(V31, cmax, rsaSigHashes=["sha384", "sha256"]),
                   rng_spec(V31, hi, rsaSigHashes=["sha1", "sha512"]), "rsa", None)
            yield ("sys:sig-lists-below-tls12", rng_spec(V31, cmax, rsaSchemes=["pss"]),
                   rng_spec(V31, hi, rsaSchemes=["pkcs1"]), "rsa", None)
            yield ("sys:sig-lists-below-tls12", rng_spec(V31, cmax, ecdsaSigHashes=["sha384", "sha512"]),
                   rng_spec(V31, hi, ecdsaSigHashes=["sha224", "sha1", "sha256"]), "ecdsa", None)
            yield ("sys:sig-lists-below-tls12", rng_spec(V31, cmax, dsaSigHashes=["sha256"]),
                   rng_spec(V31, hi, dsaSigHashes=["sha1"]), "dsa", None)
            for cred in ("ed25519", "ed448", "rsapss"):
                yield ("sys:key-without-pre-tls12-signature", rng_spec(V31, cmax), rng_spec(V31, hi), cred, None)
    # EMS / EtM / record size limit / ALPN on otherwise default ends
    for cu, cr in ((True, True), (True, False), (False, False)):
        for su, sr in ((True, True), (True, False), (False, False)):
            for (lo, hi) in ((V31, V33), (V33, V34), (V34, V34)):
                yield ("sys:ems", rng_spec(lo, hi, useExtendedMasterSecret=cu, requireExtendedMasterSecret=cr),
                       rng_spec(lo, hi, useExtendedMasterSecret=su, requireExtendedMasterSecret=sr), "rsa", None)
    for etm_c in (True, False):
        for etm_s in (True, False):
            for rsl_c in (None, 64, 2 ** 14 + 1):
                for rsl_s in (None, 512):
                    for (lo, hi) in ((V33, V33), (V34, V34)):
                        yield ("sys:etm-rsl", rng_spec(lo, hi, useEncryptThenMAC=etm_c, record_size_limit=rsl_c, keyShares=[]),
                               rng_spec(lo, hi, useEncryptThenMAC=etm_s, record_size_limit=rsl_s), "ecdsa", None)
    for (lo, hi) in ((V33, V33), (V34, V34)):
        yield ("sys:alpn", rng_spec(lo, hi), rng_spec(lo, hi), "rsa", (["h2", "http/1.1"], ["spdy/3", "http/1.1"]))
        yield ("sys:alpn", rng_spec(lo, hi), rng_spec(lo, hi), "rsa", (["h2"], ["h2"]))


# ---------------------------------------------------------------------------------------------
# PSK / ticket dimension (TLS 1.3): settings that share an external PSK, or a client resuming with the
# ticket of an earlier connection, crossed with "share sent at once" / "HelloRetryRequest forced"
# ---------------------------------------------------------------------------------------------
PRF_OF_CIPHER13 = {"aes128gcm": "sha256", "aes256gcm": "sha384", "chacha20-poly1305": "sha256", "aes128ccm": "sha256"}


def psk_expectation(table, cs, ss, cred, psk_hash, cmodes, smodes):
    """(must_complete, psk_must_be_used, why).  RFC 8446 4.2.11: a PSK is bound to a hash and can only be
    selected together with a cipher suite whose PRF hash (the suffix of its IANA name) is that hash;
    4.2.9: a key-exchange mode both ends list is needed."""
    ok, why, v = compatible(table, cs, ss, cred)
    if ok is not True or v != V34:
        return ok, None, why
    both = enabled_suites(table, cs, V34) & enabled_suites(table, ss, V34)
    prfs = set("sha384" if table[sid]["name"].endswith("_SHA384") else "sha256" for sid in both)
    if not [m for m in cmodes if m in smodes]:
        return None, None, "no-common-psk-mode"
    if prfs == set([psk_hash]):
        return True, True, "ok"
    if psk_hash not in prfs:
        return True, False, "psk-hash-fits-no-common-suite"
    return True, None, "suite-choice-decides-whether-psk-fits"


def _trace_server(L, log):
    """record the classes of the messages the server sends and, for each ServerHello, whether it
    carries pre_shared_key (extension 41)"""
    from harness import lab

    def fn(kind, msg):
        n = type(msg).__name__
        if n == "ServerHello":
            try:
                from tlslite.constants import TLS_1_3_HRR
                if bytes(msg.random) == bytes(TLS_1_3_HRR):
                    log.append(("HelloRetryRequest", None))
                    return [msg]
                log.append(("ServerHello", msg.getExtension(41) is not None))
            except Exception:
                log.append(("ServerHello", None))
        else:
            log.append((n, None))
        return [msg]
    lab.hook_messages(L.server.conn, fn)


def _exchange(L):
    w = L.write("client", b"ping from client")
    rd = L.read("server", max=100, min=16)
    ok = w[0] == "ok" and rd[0] == "ok" and rd[1] == b"ping from client"
    w = L.write("server", b"pong from server")
    rd = L.read("client", max=100, min=16)
    return ok and w[0] == "ok" and rd[0] == "ok" and rd[1] == b"pong from server"


def _psk_tuple(p):
    t = (bytearray(p["identity"].encode("ascii")), bytearray((p.get("seed", 7) + i) % 256 for i in range(p["secret_len"])))
    if p.get("hash") is not None:
        t = t + (p["hash"],)
    return t


def run_psk_pair(spec):
    """spec: kind 'external' | 'ticket', client, server, cred, psk (external), client2 (ticket: settings of
    the resuming connection).  Returns dict with outcome and what was observed."""
    from harness import lab
    try:
        cset = mk_settings(spec["client"])
        sset = mk_settings(spec["server"])
        if spec["kind"] == "external":
            shared = _psk_tuple(spec["psk"])
            decoys = [_psk_tuple(d) for d in spec.get("client_decoys", [])]
            pos = spec.get("shared_position", 0)
            cl = list(decoys)
            cl.insert(min(pos, len(cl)), shared)
            cset.pskConfigs = cl
            sset.pskConfigs = [_psk_tuple(d) for d in spec.get("server_decoys", [])] + [shared]
        else:
            tc = spec.get("ticket_cipher", "aes256gcm")
            sset.ticketCipher = tc
            sset.ticketKeys = [bytearray(range(16 if tc.startswith("aes128") else 32))]
            sset.ticket_count = spec.get("ticket_count", 1)
        craw, sraw = cset, sset
        cset = cset.validate()
        sset = sset.validate()
    except ValueError as e:
        return {"outcome": "invalid", "why": str(e)[:120]}
    from .c19_use import Watch
    watch = Watch({"client": craw, "client.validated": cset, "server": sraw, "server.validated": sset})
    res = {"cset": settings_dict(cset), "sset": settings_dict(sset)}
    res["settings_mutated"] = []
    session = None
    if spec["kind"] == "ticket":
        # first connection: full handshake, then traffic so that the client reads its NewSessionTicket
        L0 = lab.handshake(cset, sset, cred=spec["cred"])
        res["settings_mutated"] = watch.changed()
        if not (L0.client.state == "done" and L0.server.state == "done" and _exchange(L0)):
            res.update(outcome="first-connection-failed", client_exc=lab.exc_class(L0.client.exc),
                       server_exc=lab.exc_class(L0.server.exc))
            return res
        session = L0.client.conn.session
        res["tickets_received"] = len(session.tickets or [])
        if not session.tickets:
            res["outcome"] = "no-ticket-received"
            return res
        try:
            c2 = mk_settings(spec["client2"])
            cset2 = c2.validate()
        except ValueError as e:
            return {"outcome": "invalid", "why": str(e)[:120]}
        res["cset2"] = settings_dict(cset2)
    else:
        cset2 = cset
    log = []
    ckw = {"session": session} if session is not None else {}
    L = lab.handshake(cset2, sset, cred=spec["cred"], client_kw=ckw, before_run=lambda LL: _trace_server(LL, log))
    res.update(client=L.client.state, server=L.server.state, client_exc=lab.exc_class(L.client.exc),
               server_exc=lab.exc_class(L.server.exc),
               server_msgs=[n for n, _ in log if n in ("ServerHello", "Certificate", "CertificateVerify")])
    hellos = [x for n, x in log if n == "ServerHello"]
    res["hrr"] = any(n == "HelloRetryRequest" for n, _ in log)
    res["psk_selected"] = bool(hellos and hellos[-1])
    res["server_sent_certificate"] = any(n == "Certificate" for n, _ in log)
    if L.client.state == "done" and L.server.state == "done":
        res["outcome"] = "complete" if _exchange(L) else "complete-but-no-data"
        res["version"] = tuple(L.client.conn.version)
        res["suite"] = L.client.conn.session.cipherSuite
        res["client_resumed"] = bool(L.client.conn.resumed)
        res["server_resumed"] = bool(L.server.conn.resumed)
    else:
        res["outcome"] = "fail"
    res["settings_mutated"] = sorted(set(res["settings_mutated"] + watch.changed()))
    return res


def psk_pairs(rng, n_random):
    """yield (kind label, spec) — every spec is meant to be compatible"""
    def base(lo, hi, **kw):
        d = {"minVersion": list(lo), "maxVersion": list(hi), "versions": vrange(lo, hi)[::-1]}
        if lo == V34:
            d["eccCurves"] = list(CURVES_COMMON)
        d.update(kw)
        return d
    # group layouts: (client curves, client ffdhe, server curves, server ffdhe, common groups)
    layouts = [
        (["x25519", "secp256r1"], ["ffdhe2048"], ["secp256r1", "x25519"], ["ffdhe2048"], ["x25519", "secp256r1", "ffdhe2048"]),
        (["x25519", "secp384r1"], [], ["secp256r1", "x25519"], [], ["x25519"]),
        (["x25519"], ["ffdhe2048", "ffdhe3072"], ["secp256r1"], ["ffdhe4096", "ffdhe2048"], ["ffdhe2048"]),
        (["secp384r1", "x448"], ["ffdhe3072"], ["secp521r1", "secp384r1"], [], ["secp384r1"]),
    ]
    ciphers_for = {"sha256": [["aes128gcm"], ["chacha20-poly1305"], ["aes128ccm", "aes128gcm"]], "sha384": [["aes256gcm"]]}

    def share_variants(cecc, cdh, common):
        own = cecc + cdh
        others = [g for g in own if g not in common]
        yield "share-at-once", [common[0]]
        yield "hrr-no-share", []
        if others:
            yield "hrr-other-share", others[:1]
            yield "other-then-common", others[:1] + [common[0]]

    # ---- systematic
    for li, (cecc, cdh, secc, sdh, common) in enumerate(layouts):
        for label, shares in share_variants(cecc, cdh, common):
            for h in ("sha256", "sha384", None):
                for modes in ((["psk_dhe_ke"], ["psk_dhe_ke", "psk_ke"]), (["psk_ke"], ["psk_ke", "psk_dhe_ke"]),
                              (["psk_dhe_ke", "psk_ke"], ["psk_dhe_ke"])):
                    ciph = ciphers_for[h or "sha256"][li % len(ciphers_for[h or "sha256"])]
                    for (clo, slo) in ((V34, V34), (V33, V33)) if li < 2 else ((V34, V33),):
                        c = base(clo, V34, eccCurves=list(cecc), dhGroups=list(cdh), keyShares=list(shares),
                                 cipherNames=ciph + (["aes128"] if clo < V34 else []), psk_modes=modes[0])
                        s = base(slo, V34, eccCurves=list(secc), dhGroups=list(sdh), keyShares=(secc + sdh)[:1],
                                 psk_modes=modes[1])
                        spec = {"kind": "external", "client": c, "server": s, "cred": ["rsa", "ecdsa", "ed25519", "rsapss"][li],
                                "psk": {"identity": "shared-psk", "secret_len": 32 if h != "sha384" else 48, "hash": h},
                                "client_decoys": [{"identity": "unknown-to-server", "secret_len": 32, "hash": h, "seed": 99}]
                                if (li + len(shares)) % 2 else [],
                                "shared_position": 1 if li % 2 else 0,
                                "server_decoys": [{"identity": "another", "secret_len": 32, "hash": "sha256", "seed": 3}] if li == 2 else []}
                        yield ("psk:external:" + label, spec)
            # ticket resumption: first connection sends a usable share, the resuming one varies
            for ciph in (["aes128gcm"], ["aes256gcm"], ["chacha20-poly1305", "aes256gcm"]):
                c1 = base(V33 if li % 2 else V34, V34, eccCurves=list(cecc), dhGroups=list(cdh), keyShares=[common[0]],
                          cipherNames=ciph + (["aes128"] if li % 2 else []))
                c2 = dict(c1, keyShares=list(shares))
                s = base(V33 if li < 2 else V34, V34, eccCurves=list(secc), dhGroups=list(sdh), keyShares=(secc + sdh)[:1])
                yield ("psk:ticket:" + label, {"kind": "ticket", "client": c1, "client2": c2, "server": s,
                                               "cred": ["rsa", "ecdsa", "ed25519", "rsapss"][li], "ticket_count": 1 + li % 2})
    # ---- random
    for _ in range(n_random):
        cecc, cdh, secc, sdh, common = rng.choice(layouts)
        label, shares = rng.choice(list(share_variants(cecc, cdh, common)))
        cred = rng.choice(["rsa", "rsapss", "ecdsa", "ecdsa384", "ed25519", "ed448"])
        clo, slo = rng.choice([V31, V33, V34]), rng.choice([V31, V33, V34])
        extra = {}
        if rng.random() < 0.3:
            extra["record_size_limit"] = rng.choice([64, 512, 2 ** 14])
        if rng.random() < 0.3:
            extra["useEncryptThenMAC"] = rng.random() < 0.5
        if rng.random() < 0.5:
            h = rng.choice(["sha256", "sha384", None])
            ciph = rng.choice(ciphers_for[h or "sha256"])
            modes = rng.choice([(["psk_dhe_ke"], ["psk_dhe_ke", "psk_ke"]), (["psk_ke"], ["psk_ke"]),
                                (["psk_ke", "psk_dhe_ke"], ["psk_dhe_ke", "psk_ke"]), (["psk_dhe_ke"], ["psk_dhe_ke"])])
            c = base(clo, V34, eccCurves=list(cecc), dhGroups=list(cdh), keyShares=list(shares),
                     cipherNames=ciph + (["aes128", "aes256"] if clo < V34 else []), psk_modes=modes[0], **extra)
            s = base(slo, V34, eccCurves=list(secc), dhGroups=list(sdh), keyShares=(secc + sdh)[:1], psk_modes=modes[1])
            nd = rng.randrange(0, 3)
            yield ("psk:external:" + label, {
                "kind": "external", "client": c, "server": s, "cred": cred,
                "psk": {"identity": "psk-%d" % rng.randrange(1000), "secret_len": rng.choice([16, 32, 48]), "hash": h,
                        "seed": rng.randrange(256)},
                "client_decoys": [{"identity": "decoy-%d" % k, "secret_len": 32, "hash": h, "seed": 50 + k} for k in range(nd)],
                "shared_position": rng.randrange(0, nd + 1),
                "server_decoys": [{"identity": "srv-only", "secret_len": 32, "hash": "sha256", "seed": 1}] if rng.random() < 0.3 else []})
        else:
            ciph = rng.choice([["aes128gcm"], ["aes256gcm"], ["chacha20-poly1305"], ["aes128ccm"], ["aes256gcm", "aes128gcm"]])
            c1 = base(clo, V34, eccCurves=list(cecc), dhGroups=list(cdh), keyShares=[common[0]],
                      cipherNames=ciph + (["aes128", "aes256"] if clo < V34 else []), **extra)
            c2 = dict(c1, keyShares=list(shares))
            s = base(slo, V34, eccCurves=list(secc), dhGroups=list(sdh), keyShares=(secc + sdh)[:1])
            yield ("psk:ticket:" + label, {"kind": "ticket", "client": c1, "client2": c2, "server": s, "cred": cred,
                                           "ticket_count": rng.choice([1, 2, 3]),
                                           "ticket_cipher": rng.choice(["aes256gcm", "aes128gcm", "chacha20-poly1305", "aes128ccm",
                                                                        "aes128ccm_8", "aes256ccm", "aes256ccm_8"])})
