"""Shared by c16.py / c17.py: live lab connections driven op by op next to the Lean model Tls.Conn.

An operation is a tuple (who, name, args...) with who in 'c','s':
    ('c','write',bytes) ('c','read',max|None,min) ('s','ku',0|1) ('s','pha') ('c','hb',bytes,pad)
    ('c','close') ('c','inject',msgspec...) ('c','kill',1|2[,tx_kind[,rx_kind]]) ('c','abort')
Both the implementation and the model answer with one canonical line
    <out> closed= res= rg= wg= tk= chain= reqs= hb= buf=
(out = done | bytes:<hex> | stall | err:<lab.exc_class>), built here for the implementation from
public attributes and, for the key generations, from an independent HKDF chain over the session's
traffic secrets.
"""
import errno
import hashlib
import hmac
import socket

from ..leanclient import hx

WHO = {"c": "client", "s": "server"}


# ------------------------------------------------------------------ independent HKDF (RFC 5869 / 8446 7.1)
def hkdf_expand_label(secret, label, context, length):
    h = hashlib.sha256 if len(secret) == 32 else hashlib.sha384
    full = b"tls13 " + label
    info = length.to_bytes(2, "big") + bytes([len(full)]) + full + bytes([len(context)]) + context
    out = b""
    t = b""
    i = 1
    while len(out) < length:
        t = hmac.new(bytes(secret), t + info + bytes([i]), h).digest()
        out += t
        i += 1
    return out[:length]


def next_secret(secret):
    return hkdf_expand_label(bytes(secret), b"traffic upd", b"", len(secret))


class GenTracker(object):
    """generation number of a traffic secret = how many times 'traffic upd' was applied to the
    secret the handshake produced (RFC 8446 7.2)"""

    def __init__(self, initial):
        self.chain = [bytes(initial)] if initial else None

    def index(self, secret):
        if self.chain is None:
            return 0
        secret = bytes(secret)
        for _ in range(400):
            if secret in self.chain:
                return self.chain.index(secret)
            self.chain.append(next_secret(self.chain[-1]))
        return "?"


# ------------------------------------------------------------------ transport that can die
def transport_error(kind):
    """the socket.error a dead transport reports, per fault kind"""
    if kind == "reset":
        return socket.error(errno.ECONNRESET, "Connection reset by peer")
    if kind == "timeout":
        return socket.timeout("timed out")
    if kind == "eio":
        return socket.error(errno.EIO, "Input/output error")
    return socket.error(errno.EPIPE, "Broken pipe")


class FaultSock(object):
    """proxy in front of a MemSock: when `rx_dead` is set, a receive that would block reports EOF
    ('eof') or raises the error of that kind ('reset', 'timeout', 'eio') instead; when `tx_dead`
    is set ('pipe', 'reset', 'timeout', 'eio'), every send raises that error"""

    def __init__(self, inner):
        self.inner = inner
        self.rx_dead = None
        self.tx_dead = None

    def recv(self, n):
        if self.rx_dead and not self.inner.link.q[self.inner.rx]:
            self.inner.recv_calls += 1
            self.inner.link.activity += 1
            if self.rx_dead == "eof":
                return b""
            raise transport_error(self.rx_dead)
        return self.inner.recv(n)

    def send(self, data):
        if self.tx_dead:
            self.inner.send_calls += 1
            self.inner.link.activity += 1
            raise transport_error(self.tx_dead)
        return self.inner.send(data)

    def sendall(self, data):
        if self.tx_dead:
            self.inner.send_calls += 1
            self.inner.link.activity += 1
            raise transport_error(self.tx_dead)
        return self.inner.sendall(data)

    def __getattr__(self, name):
        return getattr(self.inner, name)


# ------------------------------------------------------------------ connection flavours
def tls13_settings(**kw):
    from harness import lab
    s = lab.settings(minv=(3, 4), maxv=(3, 4), **kw)
    s.eccCurves = [c for c in s.eccCurves if not c.startswith("brainpool")]
    return s


class _NoDecref(object):
    def _decref_socketios(self):
        pass


class Conn(object):
    """a handshaken lab plus everything needed to run ops on it and describe it to the model"""

    def __init__(self, ver=(3, 4), client_cert=True, tickets=0, hb=True, hb_cb=(True, True),
                 close_socket=(True, True), ignore_abrupt=(False, False), cipher=None, tamper=0,
                 cert_required=False, record_size=None, rsl=None):
        from harness import lab
        self.lab_mod = lab
        self.ver = ver
        self.hblog = {"c": [], "s": []}
        self.tamper = tamper
        cs = tls13_settings() if ver == (3, 4) else lab.settings(minv=ver, maxv=ver)
        ss = tls13_settings() if ver == (3, 4) else lab.settings(minv=ver, maxv=ver)
        for s in (cs, ss):
            s.use_heartbeat_extension = bool(hb)
            if rsl:
                s.record_size_limit = rsl          # record_size_limit extension (RFC 8449) in force
            if cipher:
                s.cipherNames = [cipher]
        if hb and hb_cb[0]:
            cs.heartbeat_response_callback = lambda m: self.hblog["c"].append((bytes(m.payload), len(m.padding)))
        if hb and hb_cb[1]:
            ss.heartbeat_response_callback = lambda m: self.hblog["s"].append((bytes(m.payload), len(m.padding)))
        if tickets:
            ss.ticketKeys = [bytearray(b"\x42" * 32)]
            ss.ticket_count = tickets
        else:
            ss.ticket_count = 0
        kw = {}
        if client_cert:
            chain, key = lab.creds("client_rsa")
            kw = dict(certChain=chain, privateKey=key)
            self.client_chain = chain
        self.L = lab.handshake(cs, ss, client_kw=kw)
        L = self.L
        self.ok = L.client.state == "done" and L.server.state == "done"
        if not self.ok:
            return
        self.c, self.s = L.client.conn, L.server.conn
        self.cipher_cbc = self.c._recordLayer.isCBCMode()
        self.fs = {}
        for w, e in (("c", L.client), ("s", L.server)):
            fs = FaultSock(e.sock)
            e.conn.sock.socket = fs
            self.fs[w] = fs
        for i, w in enumerate("cs"):
            conn = self.conn(w)
            conn.closeSocket = close_socket[i]
            conn.ignoreAbruptClose = ignore_abrupt[i]
            if record_size:
                conn.recordSize = record_size
        self.s.client_cert_required = cert_required
        self.record_size = record_size
        self.files = []             # file objects from makefile(), kept alive (closing one is conn.close())
        if ver == (3, 4):
            self.track = {("c", "cl"): GenTracker(self.c.session.cl_app_secret), ("c", "sr"): GenTracker(self.c.session.sr_app_secret),
                          ("s", "cl"): GenTracker(self.s.session.cl_app_secret), ("s", "sr"): GenTracker(self.s.session.sr_app_secret)}
        else:
            self.track = None
        self.ctxs = []          # contexts of the server's CertificateRequests, in creation order
        self.tickets_sent = tickets if ver == (3, 4) else 0
        if tamper:
            self._install_tamper()

    def conn(self, w):
        return self.c if w == "c" else self.s

    # -------------------------------------------------------------- description for the model
    def model_init(self):
        lines = ["init %d" % (1 if self.ver == (3, 4) else 0)]
        for w in "cs":
            conn = self.conn(w)
            f = {"hbSupported": conn.heartbeat_supported, "hbCanSend": conn.heartbeat_can_send,
                 "hbCanRecv": conn.heartbeat_can_receive, "hbCallback": conn.heartbeat_response_callback is not None,
                 "closeSocket": conn.closeSocket, "ignoreAbruptClose": conn.ignoreAbruptClose,
                 "recordSize": conn.recordSize,
                 "beastSplit": self.ver <= (3, 1) and self.cipher_cbc}
            if w == "c":
                f["hasKeypair"] = bool(conn._client_keypair)
                f["myChain"] = 1 if conn._client_keypair else 0
                f["phaTamper"] = self.tamper
            else:
                f["phaSupported"] = bool(conn._pha_supported)
                f["certRequired"] = conn.client_cert_required
            for k, v in sorted(f.items()):
                lines.append("set %s %s %d" % (w, k, int(v)))
        for _ in range(self.tickets_sent):
            lines.append("op s inject nst")
        return lines

    # -------------------------------------------------------------- state line of the implementation
    def gens(self, w):
        if self.track is None:
            return 0, 0
        sess = self.conn(w).session
        cl = self.track[(w, "cl")].index(sess.cl_app_secret)
        sr = self.track[(w, "sr")].index(sess.sr_app_secret)
        return (sr, cl) if w == "c" else (cl, sr)     # (read generation, write generation)

    def state(self, w):
        conn = self.conn(w)
        rg, wg = self.gens(w)
        ch = conn.session.clientCertChain
        if w == "c" or ch is None:
            chain = "-"
        else:
            chain = "1" if ch == self.client_chain else "other"
        log = self.hblog[w]
        hb = "%d:%s:%d" % (len(log), hx(log[-1][0]), log[-1][1]) if log else "0"
        return "closed=%d res=%d rg=%s wg=%s tk=%d chain=%s reqs=%d hb=%s buf=%d rc=%d" % (
            conn.closed, bool(conn.session.resumable), rg, wg, len(conn.tickets), chain,
            len(conn._cert_requests), hb, len(conn._readBuffer), conn._refCount)

    def out_str(self, res):
        kind, val = res
        if kind == "ok":
            return "done" if val is None else "bytes:" + hx(val)
        if kind == "stall":
            return "stall"
        return "err:" + self.lab_mod.exc_class(val)

    # -------------------------------------------------------------- messages of a faulty peer
    def ctx_bytes(self, n):
        if 1 <= n <= len(self.ctxs):
            return self.ctxs[n - 1]
        return b"injected-context-%d" % n if n else b""

    def build_msg(self, w, spec):
        from tlslite import messages as M
        from tlslite.constants import ContentType, CertificateType
        from tlslite.x509certchain import X509CertChain
        k = spec[0]
        if k == "app":
            return M.ApplicationData().create(bytearray(spec[1]))
        if k == "ku":
            return M.KeyUpdate().create(spec[1])
        if k == "nst":
            return M.NewSessionTicket().create(3600, 7, bytearray(b"\x01"), bytearray(b"forged-ticket" * 3), [])
        if k == "creq":
            return M.CertificateRequest((3, 4)).create(context=self.ctx_bytes(spec[1]),
                                                       sig_algs=[[(8, 4), (8, 9)], [], [(4, 3), (8, 7)]][int(spec[2])],
                                                       extensions=[])
        if k == "cert":
            chain = self.lab_mod.creds("client_rsa")[0] if spec[2] else X509CertChain([])
            return M.Certificate(CertificateType.x509, (3, 4)).create(chain, self.ctx_bytes(spec[1]))
        if k == "cv":
            return M.CertificateVerify((3, 4)).create(bytearray(b"\x5a" * 256), (8, 4))
        if k == "fin":
            return M.Finished((3, 4), 32).create(bytearray(b"\xa5" * 32))
        if k == "hso":
            return M.Message(ContentType.handshake, bytearray([spec[1], 0, 0, 0]))
        if k == "hsm":
            return M.Message(ContentType.handshake, bytearray([spec[1], 0, 0, 2, 0, 0]))
        if k == "kuco":
            # KeyUpdate and a second handshake message in ONE record
            nst = M.NewSessionTicket().create(3600, 7, bytearray(b"\x01"), bytearray(b"forged-ticket" * 3), [])
            return M.Message(ContentType.handshake, M.KeyUpdate().create(spec[1]).write() + nst.write())
        if k == "hb":
            return M.Heartbeat().create(spec[1], bytearray(spec[2]), spec[3])
        if k == "hbbad":
            return M.Message(ContentType.heartbeat, bytearray([1, 0xff, 0xff, 1]))
        if k == "alert":
            return M.Alert().create(spec[2], spec[1])
        if k == "ccs":
            return M.ChangeCipherSpec().create()
        if k == "empty":
            return M.Message(ContentType.handshake, bytearray())
        if k == "unk":
            return M.Message(99, bytearray(b"x"))
        raise ValueError(spec)

    @staticmethod
    def msg_line(spec):
        k = spec[0]
        if k == "app":
            return "app " + hx(spec[1])
        if k == "hb":
            return "hb %d %s %d" % (spec[1], hx(spec[2]), spec[3])
        if k == "creq":
            return "creq %d %d" % (spec[1], int(spec[2]))
        if k == "cv":
            return "cv 1 1 0"
        if k == "fin":
            return "fin 0"
        return " ".join(str(int(x)) if isinstance(x, bool) else str(x) for x in spec)

    def _install_tamper(self):
        """the client answers CertificateRequests like a faulty implementation (phaTamper codes)"""
        from tlslite.messages import Certificate, CertificateVerify, Finished, CompressedCertificate
        conn = self.c
        orig = conn._sendMsgs
        t = self.tamper

        def send_msgs(msgs):
            out = []
            for m in msgs:
                if isinstance(m, CertificateVerify):
                    if t == 1:
                        m.signature = bytearray(m.signature)
                        m.signature[5] ^= 0x40
                    elif t == 3:
                        continue
                    elif t == 4:
                        m.signatureAlgorithm = (9, 9)
                    elif t == 5:
                        m.signatureAlgorithm = (4, 3)
                elif isinstance(m, Finished) and t == 2:
                    m.verify_data = bytearray(m.verify_data)
                    m.verify_data[0] ^= 1
                elif isinstance(m, Certificate) and t in (6, 7):
                    ctxb = b"" if t == 6 else b"\x77" * 32
                    if isinstance(m, CompressedCertificate):
                        m.create(m.compression_algo, m.cert_chain, ctxb)
                    else:
                        m.certificate_request_context = ctxb
                out.append(m)
            for r in orig(out):
                yield r
        conn._sendMsgs = send_msgs

    # -------------------------------------------------------------- run one op on the implementation
    def run_op(self, op):
        L = self.L
        w, name = op[0], op[1]
        who = WHO[w]
        conn = self.conn(w)
        if name == "write":
            res = L.write(who, op[2])
        elif name == "read":
            res = L.read(who, max=op[2], min=op[3])
        elif name == "ku":
            res = L.op(who, conn.send_keyupdate_request(op[2]), pump_other=False)
        elif name == "pha":
            before = set(conn._cert_requests.keys())
            st = None
            if len(op) > 2 and op[2] == 2:
                # a request whose signature_algorithms hold nothing an RSA key can use
                st = self.lab_mod.settings(rsaSigHashes=[], rsaSchemes=[])
            res = L.op(who, conn.request_post_handshake_auth(st), pump_other=False)
            for k in conn._cert_requests.keys():
                if k not in before:
                    self.ctxs.append(bytes(k))
        elif name == "hb":
            res = L.op(who, conn.write_heartbeat(bytearray(op[2]), op[3]), pump_other=False)
        elif name == "close":
            res = L.op(who, conn.closeAsync(), pump_other=False)
        elif name == "makefile":
            f = conn.makefile("rb")
            f._sock = _NoDecref()       # garbage collection of the file object must not close the connection
            self.files.append(f)
            res = ("ok", None)
        elif name == "inject":
            msg = self.build_msg(w, op[2:])
            fs = self.fs[w]
            if fs.tx_dead or conn.closed:
                res = ("ok", None)
            else:
                saved = conn._user_record_limit
                if op[2] == "kuco":
                    conn._user_record_limit = 16384      # the faulty peer puts both messages into ONE record
                try:
                    r = L.op(who, conn._sendMsg(msg), pump_other=False)
                finally:
                    conn._user_record_limit = saved
                res = ("ok", None) if r[0] == "ok" else r
        elif name == "kill":
            # ('c','kill',rx[,tx_kind[,rx_kind]]): rx 1 = EOF, 2 = error; the model only knows rx 1/2 and "sends fail"
            self.fs[w].tx_dead = op[3] if len(op) > 3 else "pipe"
            self.fs[w].rx_dead = "eof" if op[2] == 1 else (op[4] if len(op) > 4 else "reset")
            res = ("ok", None)
        elif name == "abort":
            self.fs[w].tx_dead = "pipe"
            L.link.closed[self.fs[w].inner.tx] = True
            L.link.activity += 1
            res = ("ok", None)
        else:
            raise ValueError(op)
        if res[0] == "ok" and name != "read":
            res = ("ok", None)
        return self.out_str(res) + " " + self.state(w), res

    @staticmethod
    def op_line(op):
        w, name = op[0], op[1]
        if name == "write":
            return "op %s write %s" % (w, hx(op[2]))
        if name == "read":
            return "op %s read %s %d" % (w, "-" if op[2] is None else op[2], op[3])
        if name == "ku":
            return "op %s ku %d" % (w, op[2])
        if name == "pha":
            return "op %s pha%s" % (w, " %d" % op[2] if len(op) > 2 else "")
        if name == "hb":
            return "op %s hb %s %d" % (w, hx(op[2]), op[3])
        if name == "close":
            return "op %s close" % w
        if name == "makefile":
            return "op %s makefile" % w
        if name == "inject":
            return "op %s inject %s" % (w, Conn.msg_line(op[2:]))
        if name == "kill":
            return "op %s kill %d" % (w, op[2])
        if name == "abort":
            return "op %s abort" % w
        raise ValueError(op)


def op_json(op):
    return [x.hex() if isinstance(x, (bytes, bytearray)) else x for x in op]


def op_unjson(j):
    op = list(j)
    name = op[1]
    if name == "write":
        op[2] = bytes.fromhex(op[2])
    elif name == "hb":
        op[2] = bytes.fromhex(op[2])
    elif name == "inject" and op[2] == "app":
        op[3] = bytes.fromhex(op[3])
    elif name == "inject" and op[2] == "hb":
        op[4] = bytes.fromhex(op[4])
    return tuple(op)


def run_history(cfg, ops, lc=None):
    """execute `ops` on a fresh connection of flavour `cfg` (kwargs of Conn) and on the model.
    Returns dict(conn=Conn, impl=[lines], model=[lines]|None, results=[raw results], final=(c,s) states)"""
    cn = Conn(**cfg)
    if not cn.ok:
        return {"conn": cn, "impl": None, "model": None, "results": None}
    impl, raw = [], []
    lines = cn.model_init()
    n_init = len(lines)
    for op in ops:
        line, res = cn.run_op(op)
        impl.append(line)
        raw.append(res)
        lines.append(Conn.op_line(op))
    impl_final = ["- " + cn.state("c"), "- " + cn.state("s")]
    lines += ["st c", "st s"]
    model = model_final = None
    if lc is not None:
        out = lc.batch(lines)
        model = out[n_init:n_init + len(ops)]
        model_final = out[n_init + len(ops):]
    return {"conn": cn, "impl": impl, "model": model, "results": raw,
            "impl_final": impl_final, "model_final": model_final}
