"""C18 — shared objects stay correct under every thread interleaving.

Lean side (lean/Props/C18.lean): the SessionCache model (dict + per-ID count + circular list,
`_purge`, `_remove`) refines the log specification on every history with a monotone clock
(cache_refines_spec), never raises internally, respects the size bound; an interleaving semantics
with one lock in which the lock discipline gives atomicity (lock_gives_atomicity); the discipline
of SessionCache / Python_RSAKey / VerifierDB is generated from the AST on every run
(translate/gen_locks.py -> TlsModel/Gen/Locks.lean) and decided by `decide`;
concurrent_cache_correct combines the three.

This module:
 (a) sequential correspondence: seeded histories (patched monotone clock) on the real SessionCache
     vs the Lean model vs the independent reference specification c18_ref.RefCache (the oracle);
 (b) deterministic schedule exploration (c18_sched) of get/set on a shared cache and of private-key
     operations on a shared Python_RSAKey, plus a short stress run with real threads;
 (c) the same for VerifierDB / BaseDB (in memory and on a temporary dbm file), plus sequential
     scripts on the real VerifierDB vs the Lean BaseDB model vs a dict oracle in which the reserved
     names are never entries.
 Load independence: every directed family (hand-written histories, hand-written concurrent programs)
 runs first and is never cut by a time budget; only seeded random programs sit behind the wall-clock
 guard and a cut is counted as cut-by-budget:*.
"""
import os

from .c18_ref import RefCache, KEYERROR

TRANSLATORS = ["locks"]

MANIFEST = {
    "text": "Proof: Tls.Cache (statement-by-statement Lean model of SessionCache: association-list dict, per-ID entry count, "
            "circular list with firstIndex/lastIndex, _purge, _remove, explicit Python errors) is proved to give, on every "
            "history of get/set/invalidate with a monotone clock and maxEntries >= 1, exactly the results of the specification "
            "over the time-stamped log of stores (cache_refines_spec), never an internal error (cache_no_internal_error) and "
            "never more than maxEntries-1 entries (cache_size_bound). A small interleaving semantics (threads of thread-local "
            "and shared actions, one lock) is proved to reduce every complete interleaving to a serial order of whole operations "
            "when every shared access lies inside one acquire..release section (lock_gives_atomicity). The action shapes of "
            "SessionCache.__getitem__/__setitem__, Python_RSAKey._rawPrivateKeyOp and the VerifierDB/BaseDB methods are generated "
            "from the Python AST on every run and decided by `decide` (sessioncache/rsakey/verifierdb_lock_discipline); "
            "concurrent_cache_correct: every complete interleaving of cache calls is explained by one serial history whose "
            "results are the specification's; concurrent_rsa_correct: for a well-formed key (C10's ValidKey) every interleaving of "
            "any number of threads calling _rawPrivateKeyOp returns m^d mod n for every call and keeps blinder*unblinder^e = 1 mod n "
            "(C10's model rawPrivateKeyOp as sequential composition, its algebra proved in TlsProofs/RsaCorrect.lean, no hypothesis). "
            "Tls.Db (model of BaseDB as used by VerifierDB: create/get/set/del/contains/keys/check, in memory and on disk with the "
            "internal --Reserved--type record) refines a mapping of user entries in which reserved names never appear "
            "(db_refines_spec, db_reserved_never_entry); lock_gives_linearizability (any lock-protected object with a sequential "
            "model) and concurrent_db_correct (generated shapes of the BaseDB/VerifierDB methods) give the same for every interleaving. Tie and search: sequential histories on the real SessionCache and on the real VerifierDB (dict and "
            "dbm file) vs models vs independent Python references; systematic schedule exploration (settrace scheduler, bounded preemptions) and stress runs on the "
            "real SessionCache, Python_RSAKey (results = pow(c,d,n), blinding pair stays matched) and VerifierDB, checked for "
            "linearizability against the reference.",
    "note": "Trusted: Lean kernel (propext, Classical.choice, Quot.sound), translate/gen_locks.py (reports per statement the self.* "
            "accesses and lock nesting; decisions are taken in Lean; unknown constructs falsify the obligation), the harness, CPython's "
            "atomicity of single dict/list operations and of attribute stores (GIL). The per-statement semantics of the methods is "
            "universally quantified in concurrent_cache_correct, constrained only by the generated shape and by agreeing sequentially "
            "with the model (what the correspondence samples). Sessions are invalidated by callers outside any lock (a single attribute "
            "store) and invalidation is part of the sequential theorem only. Setup methods (__init__, BaseDB.create/open) are assumed "
            "to finish before the object is shared; BaseDB.open() and sync() are not modelled; VerifierDB.check() with str names and "
            "keys() with bytes names (sequential Python-3 TypeErrors) are not exercised. The RSA blinding/CRT algebra is imported from C10's proof modules "
            "(TlsProofs/RsaCorrect.lean, Mathlib number theory); the harness checks results against pow(c,d,n). maxEntries = 0 is outside "
            "the property (the first store raises IndexError; shown in Lean).",
    "technique": "Lean 4 refinement proof (circular-buffer invariant), reduction theorem for lock-protected sections over generated "
                 "lock structure, differential correspondence, deterministic schedule exploration with linearizability oracle",
}


# ---------------------------------------------------------------------------------------------
# (a) sequential histories
# ---------------------------------------------------------------------------------------------

class FakeClock(object):
    """stands in for the `time` module inside tlslite.sessioncache"""

    def __init__(self):
        self.now = 0

    def time(self):
        return self.now


def sid_bytes(i):
    return bytearray(b"id-%d" % i)


def make_session(i, handle):
    from tlslite.session import Session
    s = Session()
    s.sessionID = sid_bytes(i)
    s.resumable = True
    s._c18_handle = handle
    return s


def run_real(max_entries, max_age, ops):
    """-> (outs, sizes, cache) ; ops: ["set", id, t, handle] | ["get", id, t] | ["inval", handle]"""
    import tlslite.sessioncache as sc
    clock = FakeClock()
    saved = sc.time
    sc.time = clock
    try:
        cache = sc.SessionCache(maxEntries=max_entries, maxAge=max_age)
        sessions = {}
        outs, sizes = [], []
        for op in ops:
            try:
                if op[0] == "set":
                    clock.now = op[2]
                    s = make_session(op[1], op[3])
                    sessions[op[3]] = s
                    cache[sid_bytes(op[1])] = s
                    outs.append("done")
                elif op[0] == "get":
                    clock.now = op[2]
                    try:
                        s = cache[sid_bytes(op[1])]
                        h = getattr(s, "_c18_handle", None)
                        outs.append("sess:%s" % h if sessions.get(h) is s else "sess:?")
                    except KeyError as e:
                        # the documented KeyError is raised by __getitem__ itself (dict lookup or the
                        # explicit raise); one that comes out of _purge/_remove is an internal error
                        tb = e.__traceback__
                        while tb is not None and tb.tb_next is not None:
                            tb = tb.tb_next
                        inner = tb.tb_frame.f_code.co_name if tb is not None else "?"
                        outs.append("KeyError" if inner == "__getitem__" else "exception:KeyError")
                else:
                    s = sessions.get(op[1])
                    if s is not None:
                        s.resumable = False
                    outs.append("done")
            except Exception as e:          # anything else escaping is an internal error
                outs.append("exception:" + type(e).__name__)
            sizes.append(len(cache.entriesDict))
        return outs, sizes, cache
    finally:
        sc.time = saved


def run_ref(max_entries, max_age, ops):
    ref = RefCache(max_entries, max_age)
    invalid = set()
    outs = []
    for op in ops:
        if op[0] == "set":
            ref.store(sid_bytes(op[1]), op[2], op[3])
            outs.append("done")
        elif op[0] == "get":
            r = ref.lookup(sid_bytes(op[1]), op[2], lambda h: h not in invalid)
            outs.append("KeyError" if r is KEYERROR else "sess:%s" % r)
        else:
            invalid.add(op[1])
            outs.append("done")
    return outs


def lean_lines(max_entries, max_age, ops):
    lines = ["new %d %d" % (max_entries, max_age)]
    for op in ops:
        if op[0] == "set":
            lines.append("set %d %d %d" % (op[1], op[2], op[3]))
        elif op[0] == "get":
            lines.append("get %d %d" % (op[1], op[2]))
        else:
            lines.append("inval %d" % op[1])
        lines.append("size")
    return lines


MODEL_EXC = {"internal:indexError": "exception:IndexError", "internal:removeKeyError": "exception:KeyError",
             "internal:noneSlot": "exception:KeyError", "internal:zeroDivision": "exception:ZeroDivisionError"}


def gen_history(rng, max_entries, max_age, n_ops, n_ids, style):
    """a history with a monotone clock; styles stress different regions"""
    ops = []
    t = rng.choice([0, 1, 1000])
    handle = 0
    stored = []
    age = max(max_age, 0)
    for _ in range(n_ops):
        # clock step
        if style == "burst":
            dt = rng.choice([0, 0, 0, 1])
        elif style == "hot":
            dt = rng.choice([0, 0, 0, 0, 1]) if age > 3 else rng.choice([0, 0, 0, 0, 0, 0, 1])
        elif style == "boundary":
            dt = rng.choice([0, 1, age, age, age + 1, max(age - 1, 0)])
        elif style == "jumps":
            dt = rng.choice([0, 1, 2, age // 2, age + 1, 3 * age + 7])
        else:
            dt = rng.choice([0, 0, 1, 1, 2, age // 3, age, age + 1])
        t += dt
        r = rng.random()
        if style == "fill":
            p_set = 0.8
        elif style == "dup":
            p_set = 0.6
        else:
            p_set = 0.45
        if r < p_set:
            if style == "dup" and stored and rng.random() < 0.6:
                i = rng.choice(stored)[0]
            else:
                i = rng.randrange(n_ids)
            handle += 1
            ops.append(["set", i, t, handle])
            stored.append((i, handle))
        elif r < 0.93 or not stored:
            if stored and rng.random() < 0.8:
                i = rng.choice(stored[-max(2 * max_entries, 4):])[0]
            else:
                i = rng.randrange(n_ids + 1)
            ops.append(["get", i, t])
        else:
            ops.append(["inval", rng.choice(stored[-max(max_entries, 3):])[1]])
    return ops


def first_oracle_failure(max_entries, max_age, ops):
    """(index, kind, real, ref) of the first op where the real class violates the property, or None"""
    real, sizes, _ = run_real(max_entries, max_age, ops)
    ref = run_ref(max_entries, max_age, ops)
    for k, (a, b) in enumerate(zip(real, ref)):
        if a.startswith("exception:"):
            return k, "internal-error", a, b
        if a != b:
            if b.startswith("sess:") and a == "KeyError":
                kind = "lost-live-entry"
            elif a.startswith("sess:") and b == "KeyError":
                kind = "returned-dead-entry"
            else:
                kind = "wrong-entry"
            return k, kind, a, b
        if sizes[k] > max(max_entries - 1, 0):
            return k, "size-bound", "len(entriesDict)=%d" % sizes[k], "<= %d" % (max_entries - 1)
    return None


def shrink(max_entries, max_age, ops, kind):
    """greedy removal of operations that keeps a failure of the same kind"""
    ops = list(ops)
    f = first_oracle_failure(max_entries, max_age, ops)
    if f is None:
        return ops
    ops = ops[:f[0] + 1]
    changed = True
    rounds = 0
    while changed and rounds < 6:
        changed = False
        rounds += 1
        k = 0
        while k < len(ops):
            cand = ops[:k] + ops[k + 1:]
            g = first_oracle_failure(max_entries, max_age, cand) if cand else None
            if g is not None and g[1] == kind:
                ops = cand[:g[0] + 1]
                changed = True
            else:
                k += 1
    return ops


def sequential(ctx):
    rng = ctx.rng
    lc = ctx.lean()
    thorough = ctx.thorough()
    configs = []
    for n in ([1, 2, 3, 4, 5, 8, 17, 64] if not thorough else [1, 2, 3, 4, 5, 6, 7, 8, 9, 17, 64, 300]):
        for age in ([0, 1, 10, 100] if not thorough else [0, 1, 2, 10, 100, 14400, -1]):
            configs.append((n, age))
    configs.append((2, -1))
    styles = ["mixed", "burst", "hot", "boundary", "jumps", "fill", "dup"]
    reps = ctx.pick(8, 60)
    batch = []          # (cfg, ops, real outs, sizes)
    for (n, age) in configs:
        for style in styles:
            for _ in range(reps):
                n_ids = rng.choice([1, 2, 3, max(2, n), 2 * n + 1])
                n_ops = rng.choice([8, 20, 40, 5 * n + 10]) if n < 64 else rng.choice([40, 3 * n])
                ops = gen_history(rng, n, age, min(n_ops, 1000), n_ids, style)
                one_history(ctx, batch, n, age, ops, style)
                if len(batch) >= 200:
                    flush(ctx, lc, batch)
    # hand-written histories: the repaired defect, exact boundaries, wraparound
    fixed = [
        (10, 10, [["set", 1, 0, 1], ["set", 1, 5, 2], ["get", 1, 12], ["get", 1, 15], ["get", 1, 16], ["get", 1, 20],
                  ["set", 2, 20, 3], ["get", 2, 20]]),
        (3, 100, [["set", 1, 0, 1], ["set", 1, 0, 2], ["set", 2, 0, 3], ["get", 1, 0], ["get", 2, 0], ["set", 3, 1, 4],
                  ["get", 1, 1], ["get", 2, 1], ["get", 3, 1]]),
        (2, 5, [["set", 1, 0, 1], ["get", 1, 5], ["get", 1, 6], ["set", 1, 6, 2], ["set", 2, 6, 3], ["get", 1, 6], ["get", 2, 6]]),
        (1, 5, [["set", 1, 0, 1], ["get", 1, 0], ["set", 1, 0, 2], ["get", 1, 1]]),
        (4, 0, [["set", 1, 7, 1], ["get", 1, 7], ["get", 1, 8], ["set", 1, 8, 2], ["inval", 2], ["get", 1, 8]]),
    ]
    for n, age, ops in fixed:
        one_history(ctx, batch, n, age, ops, "fixed")
    # wraparound several times with every ring size
    for n in range(1, 8):
        ops = []
        h = 0
        for rnd in range(4 * n + 3):
            h += 1
            ops.append(["set", rnd % (n + 1), rnd, h])
            ops.append(["get", (rnd + 1) % (n + 1), rnd])
            ops.append(["get", rnd % (n + 1), rnd])
        one_history(ctx, batch, n, 1000, ops, "wrap")
    # maxEntries = 0 is outside the property; model and implementation must still agree (IndexError)
    one_history(ctx, batch, 0, 10, [["set", 1, 0, 1], ["get", 1, 0]], "cap0", oracle=False)
    flush(ctx, lc, batch)


def one_history(ctx, batch, n, age, ops, style, oracle=True):
    real, sizes, _ = run_real(n, age, ops)
    ctx.count("seq-style:" + style)
    ctx.count("seq-maxEntries:%s" % (n if n < 10 else ">=10"))
    for o in real:
        ctx.count("seq-result:" + o.split(":")[0])
    ctx.case(key=("seq", n, age, tuple(tuple(o) for o in ops)), nontrivial=len(ops) > 1,
             sample={"maxEntries": n, "maxAge": age, "ops": ops[:12], "real": real[:12]} if ctx.evaluations % 211 == 0 else None)
    if oracle:
        f = first_oracle_failure(n, age, ops)
        if f is not None:
            small = shrink(n, age, ops, f[1])
            g = first_oracle_failure(n, age, small) or f
            ctx.violation("c18:cache-" + g[1],
                          "SessionCache(maxEntries=%d, maxAge=%d): operation %d of the history gives %s, the specification says %s (%s)"
                          % (n, age, g[0], g[2], g[3], g[1]),
                          {"stage": "sequential", "maxEntries": n, "maxAge": age, "ops": small, "kind": g[1],
                           "real": run_real(n, age, small)[0], "spec": run_ref(n, age, small)})
    batch.append(((n, age), ops, real, sizes))


def flush(ctx, lc, batch):
    if lc is None or not batch:
        del batch[:]
        return
    lines = []
    for (n, age), ops, real, sizes in batch:
        lines.extend(lean_lines(n, age, ops))
    out = lc.batch(lines)
    pos = 0
    for (n, age), ops, real, sizes in batch:
        pos += 1                                   # reply to `new`
        pyref = run_ref(n, age, ops)
        for k, op in enumerate(ops):
            impl_m, spec_m = out[pos].split(" ")
            size_m = out[pos + 1].split(" ")
            pos += 2
            ctx.compared()
            case = {"maxEntries": n, "maxAge": age, "ops": ops[:k + 1], "index": k}
            if MODEL_EXC.get(impl_m, impl_m) != real[k]:
                ctx.disagree("sessioncache-op", case, impl_m, real[k])
                break
            if int(size_m[0]) != sizes[k]:
                ctx.disagree("sessioncache-dict-size", case, size_m[0], sizes[k])
                break
            if n >= 1 and spec_m != pyref[k]:
                ctx.disagree("lean-spec-vs-python-reference", case, spec_m, pyref[k])
                break
        else:
            continue
        # skip the remaining replies of this history
        pos += 2 * (len(ops) - k - 1)
    del batch[:]


# ---------------------------------------------------------------------------------------------
# (c) verifier database, sequentially: real VerifierDB (in memory and on a dbm file) vs the Lean
#     BaseDB model vs an independent dict oracle in which reserved names are never entries
# ---------------------------------------------------------------------------------------------

DB_USERS = ["alice", "bob", "carol"]
DB_PASSWORDS = ["pw-a", "pw-b"]
DB_RESERVED = {1000: "--Reserved--type", 1001: "--Reserved--other"}
# known sequential Python-3 type problems of VerifierDB, outside C18 (reported separately): check()
# with str user names and keys() with bytes user names raise TypeError -> not exercised
DB_FLAVOURS = [("mem", "str", ("create", "get", "set", "del", "in", "keys")),
               ("mem", "bytes", ("create", "get", "set", "del", "in", "check")),
               ("disk", "bytes", ("create", "get", "set", "del", "in", "check"))]


def db_name(k, usertype):
    n = DB_RESERVED[k] if k >= 1000 else DB_USERS[k]
    return n if usertype == "str" else n.encode("ascii")


def db_entries(usertype):
    """value handle v = user + 10 * password  ->  verifier entry (computed once per tree)"""
    from . import c18_sched as S
    ents = S._db_entries(usertype, False)
    return {(u + 10 * pw): e for (u, pw, e) in ents}, S._same_entry


def run_db_real(mode, usertype, ops, path):
    """-> list of canonical results"""
    from tlslite.verifierdb import VerifierDB
    ents, same = db_entries(usertype)
    db = VerifierDB(path) if mode == "disk" else VerifierDB()
    outs = []
    try:
        for op in ops:
            try:
                k = op[0]
                if k == "create":
                    if mode == "disk" and db.db is not None:
                        db.db.close()
                    db.create()
                    outs.append("done")
                elif k == "get":
                    v = db[db_name(op[1], usertype)]
                    hit = [h for h, e in ents.items() if same(v, e)]
                    outs.append("val:%d" % hit[0] if hit else "garbage:" + repr(v)[:60])
                elif k == "set":
                    db[db_name(op[1], usertype)] = ents[op[2]]
                    outs.append("done")
                elif k == "del":
                    del db[db_name(op[1], usertype)]
                    outs.append("done")
                elif k == "in":
                    outs.append("bool:" + str(bool(db_name(op[1], usertype) in db)).lower())
                elif k == "keys":
                    names = []
                    for u in db.keys():
                        u = u.decode("ascii") if isinstance(u, bytes) else u
                        if u in DB_USERS:
                            names.append(DB_USERS.index(u))
                        else:
                            names.append(dict((v, kk) for kk, v in DB_RESERVED.items()).get(u, 9999))
                    outs.append("names:" + (",".join(str(n) for n in sorted(names)) or "-"))
                elif k == "check":
                    pw = DB_PASSWORDS[op[2]]
                    pw = pw if usertype == "str" else pw.encode("ascii")
                    outs.append("bool:" + str(bool(db.check(db_name(op[1], usertype), pw))).lower())
            except KeyError:
                outs.append("KeyError")
            except AssertionError:
                outs.append("AssertionError")
            except Exception as e:
                outs.append("exception:" + type(e).__name__)
    finally:
        if mode == "disk":
            try:
                if db.db is not None:
                    db.db.close()
            except Exception:
                pass
            for ext in ("", ".dat", ".dir", ".bak", ".db", ".pag"):
                try:
                    os.unlink(path + ext)
                except OSError:
                    pass
    return outs


def run_db_oracle(mode, ops):
    """the plain reading: a mapping of user entries; reserved names are never entries"""
    opened = mode != "disk"
    users = {}
    outs = []
    for op in ops:
        k = op[0]
        if k == "create":
            opened, users = True, {}
            outs.append("done")
        elif not opened:
            outs.append("AssertionError")
        elif k == "set":
            users[op[1]] = op[2]
            outs.append("done")
        elif k == "keys":
            outs.append("names:" + (",".join(str(n) for n in sorted(users)) or "-"))
        elif k == "in":
            outs.append("bool:" + str(op[1] < 1000 and op[1] in users).lower())
        elif op[1] >= 1000 or op[1] not in users:
            outs.append("KeyError")
        elif k == "get":
            outs.append("val:%d" % users[op[1]])
        elif k == "del":
            del users[op[1]]
            outs.append("done")
        elif k == "check":
            outs.append("bool:" + str(users[op[1]] == op[1] + 10 * op[2]).lower())
    return outs


def db_lean_lines(mode, ops):
    lines = ["dbnew " + mode]
    for op in ops:
        lines.append("db " + " ".join(str(x) for x in op))
    return lines


def gen_db_script(rng, kinds, n_ops, mode):
    ops = [] if (mode == "disk" and rng.random() < 0.3) else [["create"]]
    vals = [u + 10 * p for u in range(len(DB_USERS)) for p in range(len(DB_PASSWORDS))]
    for _ in range(n_ops):
        k = rng.choice([x for x in ("get", "get", "set", "set", "set", "del", "in", "in", "keys", "check", "check", "create")
                        if x in kinds and (x != "create" or rng.random() < 0.15)] or ["get"])
        name = rng.choice([0, 0, 1, 1, 2, 1000, 1001]) if k in ("get", "in", "check") else rng.randrange(len(DB_USERS))
        if k == "set":
            ops.append(["set", name, rng.choice(vals)])
        elif k == "check":
            ops.append(["check", name, rng.randrange(len(DB_PASSWORDS))])
        elif k in ("keys", "create"):
            ops.append([k])
        else:
            ops.append([k, name])
    return ops


def db_sequential(ctx):
    try:
        from . import c18_sched  # noqa: F401  (verifier entries)
    except ImportError:
        return
    import shutil
    import tempfile
    rng = ctx.rng
    lc = ctx.lean()
    d = tempfile.mkdtemp(prefix="c18_db_", dir="/tmp")
    try:
        counter = [0]
        for mode, usertype, kinds in DB_FLAVOURS:
            directed = [
                [["get", 0], ["in", 0], ["create"], ["get", 1000], ["in", 1000], ["get", 1001], ["in", 1001],
                 ["set", 0, 0], ["get", 1000], ["in", 1000], ["get", 0], ["in", 0], ["del", 0], ["del", 0], ["get", 0]],
                [["create"], ["set", 0, 0], ["set", 1, 11], ["set", 0, 10], ["get", 0], ["get", 1], ["get", 2],
                 ["del", 1], ["in", 1], ["in", 0], ["create"], ["in", 0], ["get", 0]],
            ]
            if "keys" in kinds:
                directed.append([["create"], ["keys"], ["set", 2, 2], ["set", 0, 0], ["keys"], ["del", 2], ["keys"]])
            if "check" in kinds:
                directed.append([["create"], ["set", 0, 0], ["check", 0, 0], ["check", 0, 1], ["set", 0, 10], ["check", 0, 1],
                                 ["check", 1, 0], ["check", 1000, 0], ["set", 1, 0], ["check", 1, 0]])
            scripts = [[op for op in sc if op[0] in kinds] for sc in directed]
            n_rand = ctx.pick(150, 1500) if mode == "mem" else ctx.pick(40, 300)
            scripts += [gen_db_script(rng, kinds, rng.choice([6, 12, 25]), mode) for _ in range(n_rand)]
            lines, runs = [], []
            for ops in scripts:
                counter[0] += 1
                real = run_db_real(mode, usertype, ops, os.path.join(d, "db%d" % counter[0]))
                want = run_db_oracle(mode, ops)
                ctx.case(key=("dbseq", mode, usertype, tuple(tuple(o) for o in ops)), nontrivial=len(ops) > 1,
                         sample={"mode": mode, "usertype": usertype, "ops": ops[:10], "real": real[:10]}
                         if counter[0] % 97 == 0 else None)
                ctx.count("dbseq:%s-%s" % (mode, usertype))
                for k, (a, b) in enumerate(zip(real, want)):
                    if a != b:
                        resv = len(ops[k]) > 1 and ops[k][0] in ("get", "in", "check") and ops[k][1] >= 1000
                        kind = "reserved-name-is-entry" if resv else \
                            ("internal-error" if a.startswith("exception:") else "wrong-result")
                        ctx.violation("c18:db-" + kind,
                                      "VerifierDB (%s, %s names): operation %d %r gives %s, the specification says %s"
                                      % (mode, usertype, k, ops[k], a, b),
                                      {"stage": "db-sequential", "mode": mode, "usertype": usertype, "ops": ops[:k + 1],
                                       "real": real[:k + 1], "spec": want[:k + 1]})
                        break
                lines.extend(db_lean_lines(mode, ops))
                runs.append((ops, real, want))
            if lc is not None:
                out = lc.batch(lines)
                pos = 0
                for ops, real, want in runs:
                    pos += 1
                    for k in range(len(ops)):
                        impl_m, spec_m = out[pos].split(" ")
                        pos += 1
                        ctx.compared()
                        case = {"mode": mode, "usertype": usertype, "ops": ops[:k + 1]}
                        if impl_m != real[k]:
                            ctx.disagree("basedb-op", case, impl_m, real[k])
                        if spec_m != want[k]:
                            ctx.disagree("lean-dbspec-vs-python-oracle", case, spec_m, want[k])
    finally:
        shutil.rmtree(d, ignore_errors=True)


# ---------------------------------------------------------------------------------------------
# (b), (c) concurrency: schedule exploration and stress (c18_sched)
# ---------------------------------------------------------------------------------------------

def concurrency(ctx):
    from . import c18_sched as S
    tier = "thorough" if ctx.thorough() else "quick"
    import random
    for name, fn, key in (("cache", S.explore_cache, "c18:cache-schedule"),
                          ("rsa", S.explore_rsa, "c18:rsa-schedule"),
                          ("db", S.explore_db, "c18:db-schedule")):
        rng = random.Random(ctx.rng.getrandbits(32))
        t0 = ctx.elapsed()
        failures, stats = fn(rng, tier)
        ctx.extra["phase_s"]["explore_" + name] = round(ctx.elapsed() - t0, 1)
        ctx.extra["schedules_" + name] = stats
        n = int(stats.get("schedules", 0))
        ctx.count("schedules:" + name, n)
        if stats.get("cut_by_budget"):
            ctx.count("cut-by-budget:schedules-" + name + "-random-programs", int(stats["cut_by_budget"]))
        for i in range(n):
            ctx.case(key=("sched", name, ctx.seed, i), sample=None)
        seen = set()
        for f in failures:
            k = f.get("key") or (key + "-" + str(f.get("kind", "failure")))
            if k in seen:
                continue
            seen.add(k)
            ctx.violation(k, "%s under a controlled schedule: %s" % (name, f.get("why", f.get("kind", "failure"))),
                          {"stage": "schedule", "target": name, "failure": f})
    secs = ctx.pick(4, 40)
    for name, fn, key in (("cache", S.stress_cache, "c18:cache-stress"), ("rsa", S.stress_rsa, "c18:rsa-stress")):
        seed = ctx.rng.getrandbits(32)
        failures, stats = fn(random.Random(seed), secs)
        ctx.extra["stress_" + name] = stats
        ctx.count("stress-ops:" + name, int(stats.get("ops", 0)))
        ctx.case(key=("stress", name, seed), sample=None)
        seen = set()
        for f in failures:
            k = f.get("key") or (key + "-" + str(f.get("kind", "failure")))
            if k in seen:
                continue
            seen.add(k)
            ctx.violation(k, "%s under real threads: %s" % (name, f.get("why", f.get("kind", "failure"))),
                          {"stage": "stress", "target": name, "seed": seed, "seconds": secs, "failure": f})


def run(ctx):
    ctx.rule = ("sequential: seeded get/set/invalidate histories (styles mixed, burst of equal timestamps, exact maxAge boundaries, "
                "jumps, fill+wraparound, duplicate IDs) for maxEntries 1..64(300) x maxAge, distinct = distinct (maxEntries, maxAge, "
                "history); concurrency: every schedule of the listed 2-3 thread programs up to the preemption bound at line "
                "(thorough: opcode) granularity, then seeded random schedules; stress with real threads and switch interval 1e-6")
    ctx.assumptions = ["the clock never goes back (time.time patched by the harness; the property quantifies over monotone clocks)",
                       "maxEntries >= 1",
                       "harness/props/c18_ref.py:RefCache is the property's plain reading of the cache semantics",
                       "setup methods (__init__, BaseDB.create/open) complete before the object is shared",
                       "schedule exploration preempts at traced line (or opcode) boundaries of the target methods and at lock operations"]
    phase = {"build_and_start": round(ctx.elapsed(), 1)}
    ctx.extra["phase_s"] = phase
    t0 = ctx.elapsed()
    sequential(ctx)
    phase["sequential"] = round(ctx.elapsed() - t0, 1)
    t0 = ctx.elapsed()
    db_sequential(ctx)
    phase["db_sequential"] = round(ctx.elapsed() - t0, 1)
    try:
        from . import c18_sched  # noqa: F401
    except ImportError:
        ctx.extra["concurrency"] = "c18_sched module missing"
        return
    concurrency(ctx)


def replay(ctx, rep):
    inp = rep["input"]
    stage = inp.get("stage")
    if stage == "sequential":
        f = first_oracle_failure(inp["maxEntries"], inp["maxAge"], inp["ops"])
        print("history:", inp["ops"])
        print("implementation:", run_real(inp["maxEntries"], inp["maxAge"], inp["ops"])[0])
        print("specification: ", run_ref(inp["maxEntries"], inp["maxAge"], inp["ops"]))
        return f is not None
    if stage == "db-sequential":
        import tempfile
        import shutil
        d = tempfile.mkdtemp(prefix="c18_db_", dir="/tmp")
        try:
            real = run_db_real(inp["mode"], inp["usertype"], inp["ops"], os.path.join(d, "db"))
        finally:
            shutil.rmtree(d, ignore_errors=True)
        want = run_db_oracle(inp["mode"], inp["ops"])
        print("history:", inp["ops"])
        print("implementation:", real)
        print("specification: ", want)
        return real != want
    if stage == "schedule":
        from . import c18_sched as S
        fn = {"cache": S.replay_cache, "rsa": S.replay_rsa, "db": S.replay_db}[inp["target"]]
        return bool(fn(inp["failure"]))
    if stage == "stress":
        from . import c18_sched as S
        import random
        fn = {"cache": S.stress_cache, "rsa": S.stress_rsa}[inp["target"]]
        failures, _ = fn(random.Random(inp["seed"]), inp.get("seconds", 5))
        return bool(failures)
    print("replay of stage %r: re-running the whole check" % stage)
    run(ctx)
    return bool(ctx.violations or ctx.disagreements)
