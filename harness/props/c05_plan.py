"""C05 helper: case plan for the signature sites, translation of a case to a model request, and the
independent expectation (what the property text / RFCs say about the case)."""
from . import c05_peer as P

SITE_NAME = {"ske": "tls12-client-ske", "cv12": "tls12-server", "cv13c": "tls13-client",
             "cv13s": "tls13-server", "pha": "pha-server", "dc": "tls13-client-dc"}

MORE = {"Ed25519": "ed25519", "Ed448": "ed448", "ecdsa_brainpoolP256r1tls13_sha256": "bp256",
        "ecdsa_brainpoolP384r1tls13_sha384": "bp384", "ecdsa_brainpoolP512r1tls13_sha512": "bp512",
        "mldsa44": "mldsa44", "mldsa65": "mldsa65", "mldsa87": "mldsa87"}
GROUPS = {"secp256r1": "nist256", "secp384r1": "nist384", "secp521r1": "nist521",
          "brainpoolP256r1": "bp256", "brainpoolP384r1": "bp384", "brainpoolP512r1": "bp512"}


def lst(xs):
    xs = list(xs)
    return ",".join(xs) if xs else "-"


def ids(xs):
    return ",".join("%d.%d" % (a, b) for a, b in xs) if xs else "-"


def set_token(s):
    """model encoding of the HandshakeSettings fields the verifier reads"""
    return ";".join([
        "rh=" + lst(s.rsaSigHashes), "rs=" + lst(s.rsaSchemes), "eh=" + lst(s.ecdsaSigHashes),
        "dh=" + lst(s.dsaSigHashes), "ms=" + lst(MORE[m] for m in s.more_sig_schemes if m in MORE),
        "cv=" + lst(GROUPS[c] for c in s.eccCurves if c in GROUPS),
        "min=%d" % s.minKeySize, "max=%d" % s.maxKeySize,
        "dc=" + ids([tuple(x) for x in (getattr(s, "dc_sig_algs", None) or [])])])


# ---------------------------------------------------------------------------------------------
def math_class(sid, legacy_alg=None):
    if sid is None:
        return ("legacy", legacy_alg)
    fam, h = P.scheme_family(tuple(sid))
    if fam in ("pss_rsae", "pss_pss"):
        return ("pss", h)
    if fam in ("ecdsa", "ecdsa_bp13"):
        return ("ecdsa", h)
    return (fam, h)


def effective(case, obs):
    """(sent label, scheme semantics of the signature bytes) of a case as it went over the wire"""
    label = obs.get("sent_label")
    salg = case.get("salg")
    if salg == "label":
        sem = tuple(case["label"])
    elif salg is not None:
        sem = tuple(salg)
    else:
        sem = obs.get("orig_label")
    return (tuple(label) if label else None), (tuple(sem) if sem else None)


def signer_is_ee(case):
    shown = case.get("present") or case["cred"]
    who = case.get("signer", "cred")
    if who == "ee":
        return True
    if who == "cred":
        return shown == case["cred"]
    return False


def expectation(case, obs, shown_alg, shown_curve):
    """Independent judgement: ('accept', None) if the peer really proved possession of the presented
    end-entity key over this handshake with an offered, key-compatible scheme; otherwise
    ('reject', kind) with kind in invalid-proof / unoffered / wrong-key-type / omitted."""
    if case.get("form") == "omit":
        return ("reject", "omitted")
    ver = case["ver"]
    label, sem = effective(case, obs)
    right_bytes = (case.get("form", "ok") == "ok" and signer_is_ee(case) and case.get("msg", "this") == "this")
    if not right_bytes:
        return ("reject", "invalid-proof")
    if case.get("fin") == "bad" or case.get("ctx") in ("other", "empty"):
        return ("reject", "invalid-proof")
    if ver >= 3:
        if label is None or label not in (obs.get("offered") or []):
            return ("reject", "unoffered")
        if not P.compatible(label, shown_alg, shown_curve, ver):
            return ("reject", "wrong-key-type")
        if math_class(label) != math_class(sem):
            return ("reject", "invalid-proof")
    return ("accept", None)


def sig_form(case, obs, shown_alg):
    """symbolic description of the signature for the model driver"""
    form = case.get("form", "ok")
    sent = obs.get("sent_sig")
    if sent is None:
        sent = obs.get("orig_sig") or b""
    if form == "empty":
        return "empty"
    if shown_alg == "dsa" and sent and not P.der_ok(sent):
        return "badder"
    if form in ("bitflip", "short", "long") or form.startswith("deg:"):
        return "garbage"
    label, sem = effective(case, obs)
    msg = case.get("msg", "this")
    msg = {"replay": "other", "otherrandom": "other"}.get(msg, msg)
    who = "ee" if signer_is_ee(case) else "other"
    return "s:%s:%s:%s" % (who, ("%d.%d" % sem) if sem else "-", msg)


def model_line(case, obs, vsettings, shown_token, fam, prf, own=None):
    label, _ = effective(case, obs)
    shown_alg = shown_token.split(":")[0]
    toks = ["site", "site:" + case["site"], "ver:%d" % case["ver"], "cert:" + shown_token,
            "set:" + set_token(vsettings), "ch:" + ids(obs.get("offered") or []), "fam:" + fam,
            "label:" + (("%d.%d" % label) if label else "-"), "sig:" + sig_form(case, obs, shown_alg),
            "prf:" + prf]
    if own:
        toks.append("own:%d.%d" % tuple(own))
    if case["site"] == "pha":
        toks.append("fin:" + case.get("fin", "ok"))
        toks.append("ctx:" + case.get("ctx", "this"))
    return " ".join(toks)


# ---------------------------------------------------------------------------------------------
RELABEL = {
    # shown alg -> [(label, salg)]   salg 'label' = signature really made with that scheme, None = bytes kept
    "rsa": [((8, 4), "label"), ((8, 5), "label"), ((4, 1), "label"), ((2, 1), "label"), ((8, 9), "label"),
            ((8, 4), None), ((8, 5), None), ((4, 3), None), ((8, 7), None), ((4, 2), None), ((9, 9), None)],
    "rsapss": [((8, 9), "label"), ((8, 4), "label"), ((4, 1), "label"), ((8, 10), None), ((4, 3), None)],
    "ecdsa": [((4, 3), "label"), ((5, 3), "label"), ((2, 3), "label"), ((6, 3), None), ((8, 4), None),
              ((4, 1), None), ((8, 7), None), ((4, 2), None), ((8, 26), None)],
    "ed25519": [((8, 7), "label"), ((8, 8), None), ((4, 3), None), ((8, 4), None)],
    "ed448": [((8, 8), "label"), ((8, 7), None), ((4, 3), None)],
    "dsa": [((4, 2), "label"), ((2, 2), "label"), ((5, 2), None), ((4, 3), None), ((4, 1), None)],
}

UNOFFERED = {
    # shown alg -> [(restrict, label)]  valid signature with a scheme the verifier did not offer
    "rsa": [({"rsaSigHashes": ["sha256"]}, (8, 5)), ({"rsaSigHashes": ["sha256"]}, (5, 1)),
            ({"rsaSchemes": ["pkcs1"]}, (8, 4))],
    "rsapss": [({"rsaSigHashes": ["sha256"]}, (8, 10))],
    "ecdsa": [({"ecdsaSigHashes": ["sha256"]}, (5, 3)), ({"ecdsaSigHashes": ["sha384"]}, (4, 3))],
    "dsa": [({"dsaSigHashes": ["sha256"]}, (5, 2))],
}

MATRIX_QUICK = {
    "ske": [("rsa", 1, "ecdhe"), ("rsa", 2, "ecdhe"), ("rsa", 3, "ecdhe"), ("rsa", 3, "dhe"), ("rsapss", 3, "ecdhe"),
            ("ecdsa", 1, None), ("ecdsa", 3, None), ("ed25519", 3, None), ("ed448", 3, None),
            ("dsa", 1, None), ("dsa", 3, None)],
    "cv12": [("client_rsa", 1, None), ("client_rsa", 3, None), ("rsapss", 3, None), ("client_ecdsa", 1, None),
             ("client_ecdsa", 3, None), ("client_ed25519", 3, None), ("ed448", 3, None),
             ("client_dsa", 2, None), ("client_dsa", 3, None)],
    "cv13c": [("rsa", 4, None), ("rsapss", 4, None), ("ecdsa", 4, None), ("ecdsa384", 4, None),
              ("ed25519", 4, None), ("ed448", 4, None)],
    "cv13s": [("client_rsa", 4, None), ("rsapss", 4, None), ("client_ecdsa", 4, None), ("ecdsa384", 4, None),
              ("client_ed25519", 4, None), ("ed448", 4, None)],
    "pha": [("client_rsa", 4, None), ("client_ecdsa", 4, None), ("client_ed25519", 4, None)],
}
MATRIX_MORE = {
    "ske": [("rsa", 1, "dhe"), ("ecdsa", 2, None), ("ecdsa384", 3, None), ("ecdsa521", 3, None), ("dsa", 2, None)],
    "cv12": [("client_rsa", 2, None), ("client_ecdsa", 2, None), ("ecdsa384", 3, None), ("client_dsa", 1, None)],
    "cv13c": [("ecdsa521", 4, None)],
    "cv13s": [("ecdsa521", 4, None)],
    "pha": [("rsapss", 4, None), ("ed448", 4, None), ("ecdsa384", 4, None)],
}


def base_classes(site, ver, alg):
    cs = [{}, {"form": "bitflip"}, {"form": "empty"}, {"form": "short"}, {"form": "long"},
          {"signer": "other"}, {"msg": "replay"}, {"form": "omit"}]
    if site == "ske":
        cs.append({"msg": "otherrandom"})
    elif ver == 4:
        cs.append({"msg": "swaptag"})
    else:
        cs.append({"msg": "other"})
    if site == "pha":
        cs += [{"msg": "nocontext"}, {"fin": "bad"}, {"ctx": "other"}, {"ctx": "empty"},
               {"rounds": 2, "round": 2, "msg": "replay"}]
        cs = [c for c in cs if c.get("msg") != "replay" or c.get("rounds")]
    return cs


def plan_signature_cases(thorough):
    """list of case dicts (without seed) for the handshake signature sites and PHA"""
    cases = []
    for site, rows in MATRIX_QUICK.items():
        rows = list(rows) + (MATRIX_MORE.get(site, []) if thorough else [])
        for cred, ver, kx in rows:
            alg = P.cert_alg(cred)
            base = {"site": site, "cred": cred, "ver": ver}
            if kx:
                base["kx"] = kx
            for c in base_classes(site, ver, alg):
                cases.append(dict(base, **c))
            # degenerate / algebraically special signatures for the public parameters of the presented key
            for name in P.degenerate_forms(P.key_of(cred)):
                cases.append(dict(base, form="deg:" + name, cls="degenerate"))
            if ver >= 3:
                for label, salg in RELABEL[alg]:
                    if ver == 4 and alg == "dsa":
                        continue
                    cases.append(dict(base, label=list(label), salg=salg, cls="relabel"))
                for restrict, label in UNOFFERED.get(alg, []):
                    extra = {}
                    if site == "pha" and restrict == {"rsaSchemes": ["pkcs1"]}:
                        extra["force_client_sigalg"] = [4, 1]     # the honest client finds no common scheme
                    cases.append(dict(base, label=list(label), salg="label", restrict=restrict, cls="unoffered", **extra))
            # present certificate X (other type) but prove with the configured key
            if site != "pha":
                swap = {"rsa": "ecdsa", "rsapss": "rsa", "ecdsa": "rsa", "ed25519": "ecdsa", "ed448": "ed25519",
                        "dsa": "rsa"}[alg]
                if not (ver < 3 and swap in ("ed25519", "ed448")):
                    cases.append(dict(base, present=swap, cls="certX-keyY"))
    # key types the verifier did not offer at all: the faulty peer presents them anyway
    for site, cred in (("cv13s", "client_rsa"), ("cv13c", "rsa"), ("cv12", "client_rsa"), ("ske", "rsa")):
        ver = 4 if site.startswith("cv13") else 3
        cases.append({"site": site, "cred": cred, "ver": ver, "present": "ed25519", "signer": "ee",
                      "label": [8, 7], "salg": "label", "restrict": {"more_sig_schemes": ["Ed448"]},
                      "cls": "unoffered-keytype"})
        cases.append({"site": site, "cred": cred, "ver": ver, "present": "ed25519", "signer": "ee",
                      "label": [8, 7], "salg": "label", "cls": "swapped-honest"})
    # brainpool TLS 1.3 schemes come from more_sig_schemes when offered, from the curve when checked
    for site, cred in (("cv13s", "client_ecdsa"), ("cv13c", "ecdsa")):
        for more in (["Ed25519", "Ed448"], ["Ed25519", "Ed448", "ecdsa_brainpoolP256r1tls13_sha256"]):
            cases.append({"site": site, "cred": cred, "ver": 4, "present": "brainpool256", "signer": "ee",
                          "label": [8, 26], "salg": "label", "restrict": {"more_sig_schemes": more},
                          "cls": "brainpool13"})
        cases.append({"site": site, "cred": cred, "ver": 4, "present": "brainpool256", "signer": "ee",
                      "label": [4, 3], "salg": "label", "cls": "brainpool13"})
    # a client that also offers TLS 1.2 advertises PKCS#1 and SHA-1 schemes: still not for a 1.3 CertificateVerify
    for cred, label in (("rsa", (4, 1)), ("rsa", (2, 1)), ("ecdsa", (2, 3)), ("rsa", (8, 4)), ("ecdsa", (4, 3))):
        cases.append({"site": "cv13c", "cred": cred, "ver": 4, "vmix": True, "label": list(label),
                      "salg": "label", "cls": "tls12-scheme-in-13"})
    return cases


def plan_dc_cases(thorough):
    cases = []
    certs = [("rsa", (8, 4)), ("ecdsa", (4, 3)), ("ed25519", (8, 7))]
    kinds = ["dc_ed25519", "dc_p256", "dc_rsapss", "dc_p384"]
    for cred, cs in certs:
        for k in (kinds if thorough else kinds[:3]):
            b = {"site": "dc", "cred": cred, "ver": 4, "dckind": k, "cert_sig": list(cs)}
            cases.append(dict(b))
            for f in ("bitflip", "empty", "otherkey"):
                if f == "otherkey" and cred == "ed25519" and not thorough:
                    pass
                cases.append(dict(b, dcform=f))
            for f in ("bitflip", "empty", "certkey"):
                cases.append(dict(b, cvform=f))
            for name in P.degenerate_forms(P.key_of(cred)):
                cases.append(dict(b, dcform="deg:" + name, cls="degenerate"))
            for name in P.degenerate_forms(P.key_of(k)):
                cases.append(dict(b, cvform="deg:" + name, cls="degenerate"))
            own = {"dc_rsapss": (8, 9), "dc_ed25519": (8, 7), "dc_p256": (4, 3), "dc_p384": (5, 3)}[k]
            other = [x for x in ((8, 7), (4, 3), (8, 9), (5, 3)) if x != own]
            cases.append(dict(b, offer_dc=[list(other[0])], cls="dc-unoffered"))
        cases.append({"site": "dc", "cred": cred, "ver": 4, "dckind": "dc_ed25519", "cert_sig": list(cs),
                      "restrict": {"rsaSigHashes": ["sha512"], "ecdsaSigHashes": ["sha512"],
                                   "more_sig_schemes": ["Ed448"]}, "cls": "dc-delegation-alg-unoffered"})
    return cases
