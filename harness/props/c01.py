"""C01 — application data is delivered exactly, in order, for every suite and version; no record
carries more plaintext than the limit in force.

Theorems: lean/Props/C01.lean over the record-layer model lean/TlsModel/Record.lean (primitives are
parameters): fragments_concat / fragments_le_limit / fragments_terminates, tls13_inner_bound,
wireLen_correct, unprotect_protect (per path and through the real dispatch), peer_limits_compatible,
stream_fifo (+ fifo_init, stream_fifo_drained, recordCodec_lawful).

Tie (hand-written model, checked by correspondence at the level of observable behaviour):
  (b) bytes   — a real RecordLayer with duck-typed toy encContext/macContext objects (rectoy.py) vs the
                Lean model with the identical toy primitives: sendRecord wire bytes and resulting state,
                recvRecord result and state, for every path x version x content type x length x padding;
  (a) lengths — live lab connections for version x cipher x EtM x record_size_limit pair x recordSize x
                padding callback: exact (type, header version, wire length) sequence of every write vs
                model `fragments`/`wireLen`; negotiated limits vs `negotiateLimits`; results of
                read(max, min) calls vs the FIFO connection model.
Direct oracle (independent of the model): bytes read == bytes written (both directions, interleaved),
every record's plaintext length (receiver's own unprotect; TLS 1.3: wire length minus the tag) within
the limit in force computed from the settings alone.
"""
from ..leanclient import hx
from . import rectoy as T
from . import reclive as R

TRANSLATORS = ["record"]

MANIFEST = {
    "text": "Proof: Lean model Tls.Rec of RecordLayer.sendRecord/recvRecord (five protect paths, cryptographic primitives as "
            "parameters with functional laws dec(enc x)=x, open(seal x)=x, fixed tag length), _sendMsg fragmentation incl. 1/n-1 "
            "split, readAsync(max,min) and record_size_limit bookkeeping. Theorems: fragments concatenate to the data, every "
            "fragment <= min(recordSize, negotiated limit), the loop terminates, TLS1.3 inner plaintext <= limit+1 under the "
            "padding-callback contract, wire length = wireLen(plaintext length), recvRecord(sendRecord x) = x with states in sync "
            "for every path and through the real dispatch, negotiated send limit <= peer's receive limit, and stream_fifo: for every "
            "interleaving of write/read(max,min) on both endpoints delivered++buffered++in-flight = written per direction, no "
            "failure. Tie: byte-exact differential of a real RecordLayer carrying toy primitives against the model, and live "
            "connections (version x cipher x EtM x record_size_limit x recordSize x padding_cb x boundary lengths) compared on "
            "(type, version, wire length) sequences, negotiated limits and read results; independent oracle: read == written, "
            "plaintext per record <= limit in force.",
    "note": "Trusted: Lean kernel, the correspondence harness, the functional laws of the primitives (instantiated by Demo.prims; "
            "the real ciphers' dec(enc x)=x is exercised on every live run but not proved). Not modelled: SSLv2 framing, "
            "handshake/alert/heartbeat records after the handshake in the connection model, sends interleaved inside one record "
            "(caller contract). The padding callback is installed through HandshakeSettings.padding_cb, as an "
            "application does.",
    "technique": "Lean 4 proofs over a model with abstract primitives; differential correspondence (toy primitives, byte exact; "
                 "live connections, lengths and read results); independent end-to-end oracle",
}

CONTENT_TYPES = (23, 22, 21, 20)


def rb(rng, n):
    return rng.randbytes(n) if n else b""


# ------------------------------------------------------------------------------------------------
# (b) byte-exact differential with toy primitives

def toy_lengths(ctx, bs, dlen):
    base = {0, 1, 2, 3, 7, 8, 9, 15, 16, 17, 31, 32, 33, 63, 64, 65, 255, 256, 257}
    for k in (1, 2, 5):
        for r in (-1, 0, 1):
            n = k * max(bs, 1) - dlen % max(bs, 1) + r
            if n >= 0:
                base.add(n)
    if ctx.thorough():
        base |= set(range(0, 70)) | {511, 512, 513, 1000, 16383, 16384}
    else:
        base |= {300, 16384}
    return sorted(base)


def toy_differential(ctx):
    lc = ctx.lean()
    rng = ctx.rng
    pending = []

    def flush():
        if not pending:
            return
        if lc is not None:
            out = lc.batch([p[0] for p in pending])
        else:
            out = [None] * len(pending)
        recv_jobs = []
        for (line, real, case), o in zip(pending, out):
            if o is not None:
                ctx.compared()
                mo = T.parse_send_reply(o)
                if real[0] == "ok":
                    r2 = ("ok", real[1], T.norm_cs(real[2]), real[3], real[4], real[5])
                    if mo != r2:
                        ctx.disagree("toy-sendRecord", case, o[:300], repr(r2)[:300])
                else:
                    # the implementation raised: the model must not produce a record
                    if mo[0] == "ok":
                        ctx.disagree("toy-sendRecord-exc", case, o[:300], real)
            if real[0] == "ok":
                recv_jobs.append((case, real))
        del pending[:]
        # honest round trip through the real receiver and the model receiver
        lines, exp = [], []
        for case, real in recv_jobs:
            cfg, pr = case["cfg"], case["pr"]
            seq, cs = case["seq"], case["cs"]
            _, seq2, cs2, ht, hv, body = real
            limit = 16384
            rr = T.real_recv(cfg, pr, seq, cs, False, 0, 0, limit, ht, hv, body)
            # direct oracle: what comes back is what went in, and the states stay in sync
            want_t, want_d = case["ctype"], case["data"]
            ok = (rr[0] == "ok" and rr[5] == want_t and rr[6] == want_d and rr[1] == seq2
                  and T.norm_cs(rr[2]) == T.norm_cs(cs2))
            if T.is13(cfg) and cfg["cipher"] != "null" and case["ctype"] != 20:
                pass
            if not ok and len(want_d) <= limit:
                ctx.violation("c01:toy-roundtrip", "RecordLayer.recvRecord(sendRecord(x)) != x with lawful toy primitives "
                              "(%s, version %s, type %d, %d bytes): got %r" % (case["name"], cfg["ver"], want_t, len(want_d), rr[:2]),
                              dict(stage="toy", case=jcase(case), got=repr(rr)[:400]))
            lines.append(T.recv_line(cfg, pr, seq, cs, False, 0, 0, limit, ht, hv, body))
            exp.append((case, rr))
        if lc is not None and lines:
            out = lc.batch(lines)
            for (case, rr), o in zip(exp, out):
                ctx.compared()
                mo = T.parse_recv_reply(o)
                r2 = ("ok", rr[1], T.norm_cs(rr[2])) + tuple(rr[3:]) if rr[0] == "ok" else rr
                if mo != r2:
                    ctx.disagree("toy-recvRecord-honest", jcase(case), o[:300], repr(r2)[:300])

    for name, cfg, pr in T.path_configs(rng, ctx.thorough()):
        lens = toy_lengths(ctx, pr["bs"], pr["dlen"])
        pads = ["none", "max", "mod:5", "mod:%d" % rng.randrange(0, 1000)] if T.is13(cfg) else ["none"]
        for ctype in CONTENT_TYPES:
            for n in lens:
                if ctype != 23 and n > 300 and not ctx.thorough():
                    continue
                for pad in pads:
                    seq = rng.choice([0, 1, 255, 256, 65535, 2 ** 32 - 1, 2 ** 32, 2 ** 63, 2 ** 64 - 2, rng.getrandbits(40)])
                    cs = {"null": b"", "aead": b"", "stream": rng.randrange(0, 10 ** 6).to_bytes(8, "big"),
                          "block": rb(rng, pr["bs"])}[cfg["cipher"]]
                    data = rb(rng, n)
                    sl = rng.choice([64, 100, 512, 16384]) if T.is13(cfg) else 16384
                    if pad == "max" and sl > 600 and n < 16000 and not ctx.thorough():
                        sl = rng.choice([64, 100, 512])
                    real = T.real_send(cfg, pr, pad, sl, seq, cs, ctype, data)
                    case = dict(name=name, cfg=cfg, pr=pr, pad=pad, sl=sl, seq=seq, cs=cs, ctype=ctype, data=data)
                    ctx.case(key=("toy", name, cfg["ver"], ctype, n, pad, sl, seq),
                             sample=dict(stream="toy", name=name, ver=list(cfg["ver"]), type=ctype, n=n, pad=pad,
                                         wire=len(real[5]) if real[0] == "ok" else real[1])
                             if ctx.evaluations % 1499 == 0 else None)
                    ctx.count("toy:" + name)
                    pending.append((T.send_line(cfg, pr, pad, sl, seq, cs, ctype, data), real, case))
                    if len(pending) >= 500:
                        flush()
    flush()


def jcase(case):
    return dict(name=case["name"], cfg=case["cfg"], pr=case["pr"], pad=case["pad"], sl=case["sl"], seq=case["seq"],
                cs=case["cs"], ctype=case["ctype"], data=case["data"])


# ------------------------------------------------------------------------------------------------
# (a) live connections

RSL_PAIRS = [("default", "default"), (64, 64), (512, "default"), ("default", 512), (16384, 16385), (None, 300),
             (1000, 64), (16385, 64)]
USER_SIZES = [None, None, 1, 100, 16384, 20000, 333]
PADS = ["none", "max", "mod:17"]


SMALL = [64, 512, 1000, 100, 16384]


def live_configs(ctx):
    """yield configuration dicts; quick: every version x one cipher per protect path x EtM x
    {default limits, small limit advertised by the client, small limit advertised by the server};
    the remaining dimensions rotate through their lists so that every value meets every version"""
    rng = ctx.rng
    k = rng.randrange(1000)
    thorough = ctx.thorough()
    for ver in R.VERSIONS:
        for cipher in R.ciphers_for(ver, thorough):
            kind = R.CIPHER_SHAPE[cipher][0]
            etms = [True, False] if (kind == "block" and ver >= (3, 1)) else [True]
            for etm in etms:
                variants = [("default", "default")]
                k += 1
                a, b = SMALL[k % len(SMALL)], SMALL[(k // 2) % len(SMALL)]
                variants.append((a, rng.choice(["default", 16385, 2 ** 14])))
                variants.append((rng.choice(["default", 16385]), b))
                if thorough:
                    variants += [p for p in RSL_PAIRS if p not in variants]
                for v, rsl in enumerate(variants):
                    k += 1
                    users = (USER_SIZES[(k * 3) % len(USER_SIZES)], USER_SIZES[(k * 5 + 1) % len(USER_SIZES)]) if v else (None, None)
                    pads = (PADS[k % 3], PADS[(k // 3) % 3]) if ver == (3, 4) else ("none", "none")
                    yield dict(ver=ver, cipher=cipher, etm=etm, rsl=rsl, users=users, pads=pads, cred="rsa")
    # resumed connections (session ID and ticket up to TLS 1.2, PSK ticket in TLS 1.3) with asymmetric limits:
    # the extension is negotiated afresh in the abbreviated handshake
    for ver in R.VERSIONS:
        cipher = "aes128gcm" if ver == (3, 4) else ("aes128" if (k + ver[1]) % 2 else "rc4")
        mechs = ["psk"] if ver == (3, 4) else (["id", "ticket"] if ver > (3, 0) else ["id"])
        pairs = [("default", 700), (300, "default"), (16385, 64), (1000, 2000)]
        for n, mech in enumerate(mechs):
            for m, rsl in enumerate(pairs if thorough else [pairs[(k + n) % 2], pairs[2 + (k + n) % 2]]):
                k += 1
                yield dict(ver=ver, cipher=cipher, etm=bool(k % 2), rsl=rsl, users=(None, None),
                           pads=("none", "none"), cred="rsa", resume=mech)
    if thorough:
        # every suite negotiable with RSA / ECDSA credentials
        for (suite, vers, c, m, kx, cred) in R.suite_matrix():
            for ver in vers:
                for etm in ([True, False] if R.CIPHER_SHAPE[c][0] == "block" and ver >= (3, 1) else [True]):
                    k += 1
                    yield dict(ver=ver, cipher=c, etm=etm, rsl=RSL_PAIRS[k % len(RSL_PAIRS)], users=(None, None),
                               pads=(PADS[k % 3], "none") if ver == (3, 4) else ("none", "none"), cred=cred,
                               macs=[m], kx=[kx] if kx else None, suite=suite)


def boundary_lengths(cfg, limit, budget):
    """payload lengths for one direction, most informative first, within a byte budget:
    around 0/1/block, around the limit in force and its multiples, padding edges, k*2^14"""
    kind, bs, tag = R.CIPHER_SHAPE[cfg["cipher"]]
    bs = bs or 1
    prio = [0, 1, 2, 3, bs - 1, bs, bs + 1, 2 * bs]
    for m in (16, 20, 32, 48):
        for r in (0, bs - 1):
            prio.append((r - m) % bs + 2 * bs)
            if cfg["ver"] <= (3, 1):
                prio.append((r - m) % bs + 2 * bs + 1)      # the 1/n-1 split shifts the edge by one
    prio += [limit, limit + 1, 2 * limit + 1, limit - 1, limit + 2, 2 * limit, 2 * limit - 1, 3 * limit + 1]
    for m in (20, 32):
        for r in (0, bs - 1):
            prio.append(limit - ((limit + m - r) % bs))
    prio += [2 ** 14, 2 ** 14 + 1, 2 ** 14 - 1, 2 * 2 ** 14 + 1, 2 * 2 ** 14, 3 * 2 ** 14 + 5]
    out, seen, used = [], set(), 0
    for n in prio:
        if n < 0 or n in seen or used + n > budget:
            continue
        seen.add(n)
        used += n
        out.append(n)
    return out


FAST_BIG = {"aes128", "rc4", "null", "aes128gcm", "chacha20-poly1305"}


def budget_for(ctx, cfg, who, pad):
    """bytes of payload per direction (python ciphers: 3DES ~8 kB/s, AES-CBC/GCM ~200 kB/s).
    quick: the lengths around 2^14 and its multiples are exercised on one connection per
    (version, fast cipher); the other connections use small limits, where the same boundaries are cheap"""
    if cfg["cipher"] in R.SLOW:
        return ctx.pick(1200, 3000)
    if pad != "none":
        return ctx.pick(3000, 8000)
    big = (cfg["rsl"] == ("default", "default") and (cfg["cipher"] in FAST_BIG or ctx.thorough())
           and (cfg["etm"] or R.CIPHER_SHAPE[cfg["cipher"]][0] != "block" or ctx.thorough()))
    if not big:
        return ctx.pick(6000, 12000)
    if who == "client":
        return ctx.pick(70000, 140000)
    return ctx.pick(34000, 70000)


def parse_records(data):
    res, i = [], 0
    while i + 5 <= len(data):
        ln = (data[i + 3] << 8) | data[i + 4]
        res.append((data[i], (data[i + 1], data[i + 2]), data[i + 5:i + 5 + ln]))
        i += 5 + ln
    return res


def run_live(ctx, cfg, script=None, record=True, reduced=False):
    """one connection: handshake, then writes at the enumerated boundary lengths in alternating
    directions with the peer reading through random (max, min) calls, then an interleaved phase.
    Returns the executed script (for replays)."""
    lc = ctx.lean()
    rng = ctx.rng
    # HandshakeSettings.padding_cb is what an application sets; it has to reach RecordLayer.padding_cb
    label = "%d.%d/%s/etm=%s/rsl=%s/users=%s/pads=%s%s" % (cfg["ver"][0], cfg["ver"][1], cfg["cipher"], cfg["etm"],
                                                          cfg["rsl"], cfg["users"], cfg["pads"],
                                                          "/resumed-by-" + cfg["resume"] if cfg.get("resume") else "")
    L = R.connect(dict(cfg, padding_cbs=(T.pad_cb(cfg["pads"][0]), T.pad_cb(cfg["pads"][1]))))
    if L.client.state != "done" or L.server.state != "done":
        # an honest peer's record rejected by the record layer during the handshake is this property's business
        from tlslite.errors import TLSLocalAlert
        for who in ("client", "server"):
            e = L.end(who).exc
            if isinstance(e, TLSLocalAlert) and e.description in (20, 21, 22):
                ctx.violation("c01:handshake-record-rejected", "%s rejected a record of its honest peer during the handshake "
                              "with %s [%s]" % (who, R.ALERTS.get(e.description), label),
                              dict(stage="live", cfg=jcfg(cfg), script=[], detail="handshake"))
        ctx.count("live:handshake-not-negotiable")
        # identical settings on both sides with an RSA/ECDSA certificate must connect unless the suite
        # does not exist for this version; that is C19/C03 territory: counted, not judged here
        return None
    R.drain_post_handshake(L)
    conns = {"client": L.client.conn, "server": L.server.conn}
    peer = {"client": "server", "server": "client"}
    txdir = {"client": "c2s", "server": "s2c"}
    ctx.count("live:version:%d.%d" % cfg["ver"])
    ctx.count("live:cipher:" + cfg["cipher"])
    if cfg.get("resume"):
        both = bool(conns["client"].resumed) and bool(conns["server"].resumed)
        ctx.count("live:resume-%s:%s" % (cfg["resume"], "resumed" if both else "full-handshake-instead"))
    if cfg.get("suite") is not None and conns["client"].session.cipherSuite != cfg["suite"]:
        ctx.count("live:other-suite-negotiated")
    # user record sizes
    for who, u, pad in (("client", cfg["users"][0], cfg["pads"][0]), ("server", cfg["users"][1], cfg["pads"][1])):
        if u is not None:
            conns[who].recordSize = u
    pads = {"client": cfg["pads"][0], "server": cfg["pads"][1]}
    users = {"client": cfg["users"][0], "server": cfg["users"][1]}
    limits = {w: R.limit_in_force(cfg, w, users[w]) for w in ("client", "server")}
    tag = R.CIPHER_SHAPE[cfg["cipher"]][2]
    recv_log = {"client": [], "server": []}
    for w in conns:
        R.observe_recv(conns[w], recv_log[w])

    # --- model: negotiated limits
    def tok(v):
        return "none" if v is None else str(2 ** 14 + 1 if v == "default" else v)
    model_rs = {}
    model_limit = {}
    if lc is not None:
        # a client whose maxVersion is SSLv3 sends no extensions (tlsconnection.py: `extensions = None`)
        r = lc.ask("limits %d %s %s" % (int(cfg["ver"] >= (3, 4)), tok(cfg["rsl"][0]) if cfg["ver"] > (3, 0) else "none",
                                        tok(cfg["rsl"][1])))
        ml = [int(x) for x in r.split()]
        real = [conns["client"]._send_record_limit, conns["client"]._recv_record_limit,
                conns["server"]._send_record_limit, conns["server"]._recv_record_limit]
        ctx.compared()
        if ml != real:
            ctx.disagree("negotiateLimits", dict(cfg=jcfg(cfg)), ml, real)
        model_limit = {"client": ml[0], "server": ml[2]}
        model_rs = {"client": min(users["client"] if users["client"] is not None else 16384, ml[0]),
                    "server": min(users["server"] if users["server"] is not None else 16384, ml[2])}
    model_rs0 = dict(model_rs)
    mcfg = {w: R.model_cfg(conns[w]) for w in conns}
    split = {w: (cfg["ver"] <= (3, 1) and mcfg[w][0]["cipher"] == "block") for w in conns}

    written = {"client": bytearray(), "server": bytearray()}
    got = {"client": bytearray(), "server": bytearray()}      # read BY this endpoint
    ops = []              # executed script
    fifo_ops, fifo_exp = [], []
    failed = [False]
    rec_limits = {"client": [], "server": []}     # limit in force when each application record was cut
    negotiated = {w: R.limit_in_force(cfg, w, None) for w in ("client", "server")}

    def viol(key, what, extra=None):
        failed[0] = True
        rep = dict(stage="live", cfg=jcfg(cfg), script=ops, detail=extra)
        ctx.violation(key, what + " [" + label + "]", rep)

    wl_cache = {}

    def wirelens(who, frag_lens):
        """model wire length of each fragment (persistent driver process, cached per connection)"""
        c, p = mcfg[who]
        out = []
        for f in frag_lens:
            key = (who, f)
            if key not in wl_cache:
                wl_cache[key] = lc.ask("wirelen %s %s %s %d 23 %s" % (T.cfg_tokens(c), T.prims_tokens(p), pads[who],
                                                                     conns[who]._send_record_limit, f))
            out.append(wl_cache[key])
        return out

    reuse = {}            # the caller's mutable buffer, written more than once

    def do_write(who, data, form=None):
        """write(data) with the payload handed over as bytes / bytearray / memoryview, or as the SAME
        bytearray object that was written before; the caller's buffer must come back unchanged"""
        if form is None:
            form = rng.choice(["bytes", "bytearray", "memoryview", "again", "again"])
        if form == "again" and reuse.get(who) is None:
            form = "bytearray"
        if form == "again":
            obj = reuse[who]
        elif form == "bytearray":
            obj = bytearray(data)
            if len(obj) <= 3000:
                reuse[who] = obj
        elif form == "memoryview":
            obj = memoryview(bytearray(data))
        else:
            obj = bytes(data)
        data = bytes(obj)
        k0 = len(L.link.wire_log[txdir[who]])
        res = L.write(who, obj)
        ops.append(("w", who, len(data), data.hex() if len(data) <= 64 else None, form))
        if bytes(obj) != data:
            viol("c01:caller-buffer-modified", "write() changed the caller's %s: %d bytes before, %d after"
                 % (type(obj).__name__, len(data), len(bytes(obj))))
            return
        letter = "A" if who == "client" else "B"
        fifo_ops.append("w%s:%s" % (letter, hx(data)))
        if res[0] != "ok":
            viol("c01:write-failed", "write of %d bytes failed: %s" % (len(data), R.lab.exc_class(res[1]) if res[1] else res[0]))
            return
        written[who] += data
        recs = parse_records(b"".join(L.link.wire_log[txdir[who]][k0:]))
        seen = [(t, v, len(b)) for (t, v, b) in recs]
        fifo_exp.append(("w", [len(b) for (_, _, b) in recs]))
        rec_limits[who] += [limits[who]] * len(seen)
        # direct oracle on TLS 1.3 wire lengths: inner plaintext (fragment + type + padding) within
        # what the peer advertised (RFC 8449), default 2^14 + 1
        if cfg["ver"] >= (3, 4):
            adv = R.advertised(cfg, peer[who]) or 2 ** 14 + 1
            for (t, v, ln) in seen:
                if t == 23 and ln - tag > adv:
                    viol("c01:record-exceeds-limit", "TLS 1.3 record with %d bytes of inner plaintext, peer advertised "
                         "record_size_limit %d" % (ln - tag, adv), dict(write=len(data), records=seen))
        # model: exact (type, version, wire length) sequence
        if lc is not None and who in model_rs:
            fr = lc.ask("frag %d %d %d" % (int(split[who]), model_rs[who], len(data)))
            if fr == "none":
                exp = None
            else:
                wl = wirelens(who, fr.split(","))
                hv = (3, 3) if cfg["ver"] >= (3, 4) else cfg["ver"]
                exp = [(23, hv, int(x)) if x != "none" else None for x in wl]
            ctx.compared()
            if exp != seen:
                ctx.disagree("live-wire-lengths", dict(cfg=jcfg(cfg), who=who, n=len(data), frags=fr), exp, seen)
        ctx.case(key=("live-w", label, who, len(data)),
                 sample=dict(stream="live", cfg=label, who=who, n=len(data), records=[(t, ln) for (t, v, ln) in seen][:6])
                 if ctx.evaluations % 97 == 0 else None)

    def set_size(who, n):
        """the application assigns conn.recordSize between operations"""
        conns[who].recordSize = n
        users[who] = n
        limits[who] = min(n, negotiated[who])
        if who in model_rs:
            model_rs[who] = min(n, model_limit[who])
        ops.append(("s", who, n))
        fifo_ops.append("s%s:%d" % ("A" if who == "client" else "B", n))
        fifo_exp.append(("s", None))

    def complete_records(data):
        n, i = 0, 0
        while i + 5 <= len(data):
            ln = (data[i + 3] << 8) | data[i + 4]
            if i + 5 + ln > len(data):
                break
            n += 1
            i += 5 + ln
        return n

    def do_write_suspended(who, data, sched, changes):
        """writeAsync on a non-blocking transport (would-block / partial accepts per `sched`); every time
        the generator is suspended the application assigns the next value of `changes` to conn.recordSize"""
        end = L.end(who)
        conn = conns[who]
        k0 = len(L.link.wire_log[txdir[who]])
        ops.append(("ws", who, len(data), bytes(data).hex() if len(data) <= 64 else None, list(sched), list(changes)))
        end.sock.send_schedule = iter(list(sched))
        uvals = []                                  # user recordSize in force when record i was cut
        cur = users[who] if users[who] is not None else 16384
        pending = list(changes)
        end.start(conn.writeAsync(data))
        steps = 0
        while end.state == "running" and steps < 400000:
            ny = len(end.yields)
            alive = end.step()
            steps += 1
            if alive and len(end.yields) > ny and end.yields[-1] == 1 and pending:
                done = complete_records(b"".join(L.link.wire_log[txdir[who]][k0:]))
                while len(uvals) < done + 1:        # records 0..done are cut already
                    uvals.append(cur)
                cur = pending.pop(0)
                conn.recordSize = cur
        end.sock.send_schedule = None
        users[who] = cur
        limits[who] = min(cur, negotiated[who])
        if who in model_rs:
            model_rs[who] = min(cur, model_limit[who])
        letter = "A" if who == "client" else "B"
        if end.state != "done":
            fifo_ops.append("w%s:%s" % (letter, hx(data)))
            fifo_ops.append("s%s:%d" % (letter, cur))
            fifo_exp.extend([("w?", None), ("s", None)])
            viol("c01:write-failed", "suspended write of %d bytes did not complete: %s %s"
                 % (len(data), end.state, R.lab.exc_class(end.exc) if end.exc else ""))
            return
        written[who] += data
        recs = parse_records(b"".join(L.link.wire_log[txdir[who]][k0:]))
        seen = [(t, v, len(b)) for (t, v, b) in recs]
        while len(uvals) < len(seen):
            uvals.append(cur)
        lim_m = model_limit.get(who, negotiated[who])
        fifo_ops.append("v%s:%s:%s" % (letter, hx(data), ",".join(str(min(u, lim_m)) for u in uvals)))
        fifo_ops.append("s%s:%d" % (letter, cur))
        fifo_exp.extend([("w", [len(b) for (_, _, b) in recs]), ("s", None)])
        rec_limits[who] += [min(u, negotiated[who]) for u in uvals[:len(seen)]]
        if cfg["ver"] >= (3, 4):
            adv = R.advertised(cfg, peer[who]) or 2 ** 14 + 1
            for (t, v, ln) in seen:
                if t == 23 and ln - tag > adv:
                    viol("c01:record-exceeds-limit", "TLS 1.3 record with %d bytes of inner plaintext, peer advertised "
                         "record_size_limit %d" % (ln - tag, adv), dict(write=len(data), records=seen))
        if lc is not None and who in model_rs:
            msz = [min(u, model_limit[who]) for u in uvals] or [min(cur, model_limit[who])]
            fr = lc.ask("fragvar %d %d %s" % (int(split[who]), len(data), ",".join(str(x) for x in msz)))
            if fr == "none":
                exp = None
            else:
                wl = wirelens(who, fr.split(","))
                hv = (3, 3) if cfg["ver"] >= (3, 4) else cfg["ver"]
                exp = [(23, hv, int(x)) if x != "none" else None for x in wl]
            ctx.compared()
            if exp != seen:
                ctx.disagree("live-wire-lengths-varying-size", dict(cfg=jcfg(cfg), who=who, n=len(data), sizes=msz[:20], frags=fr),
                             exp, seen)
        ctx.case(key=("live-ws", label, who, len(data), tuple(changes)), sample=None)
        ctx.count("live:suspended-writes")

    def do_keyupdate(who, requested):
        """TLS 1.3 KeyUpdate sent by `who`; the peer processes it (and answers when requested)"""
        from tlslite.constants import KeyUpdateMessageType
        ops.append(("ku", who, bool(requested)))
        mt = KeyUpdateMessageType.update_requested if requested else KeyUpdateMessageType.update_not_requested
        r = L.op(who, conns[who].send_keyupdate_request(mt))
        if r[0] != "ok":
            viol("c01:keyupdate-failed", "sending KeyUpdate failed: %s" % (R.lab.exc_class(r[1]) if r[0] == "error" else r[0]))
            return
        for reader in ([peer[who], who] if requested else [peer[who]]):
            r = L.read(reader, None, 0)
            if r[0] == "error":
                viol("c01:read-failed", "%s processing a KeyUpdate raised %s" % (reader, R.lab.exc_class(r[1])))
                return
            if r[0] == "ok" and r[1]:
                got[reader] += r[1]        # (nothing is pending when this is called)
        ctx.count("live:keyupdates")

    front = {"client": bytearray(), "server": bytearray()}    # pushed back with unread(), not read again yet
    files = {}

    def account(who, r):
        """bytes handed to the application: pushed-back bytes come first and unchanged, the rest is new stream data"""
        k = min(len(r), len(front[who]))
        if bytes(r[:k]) != bytes(front[who][:k]):
            viol("c01:unread-data-changed", "%s re-read %d pushed-back bytes and they differ from what was unread()" % (who, k))
        del front[who][:k]
        src0 = peer[who]
        n0 = len(got[who])
        if bytes(r[k:]) != bytes(written[src0][n0:n0 + len(r) - k]):
            viol("c01:data-mismatch", "bytes read by %s are not the next bytes written by %s (stream offset %d, first difference at +%d)"
                 % (who, src0, n0, first_diff(r[k:], written[src0][n0:n0 + len(r) - k])))
        got[who] += r[k:]

    def do_unread(who, b, form="bytes"):
        """conn.unread(b): the bytes go back in front of the read buffer"""
        ops.append(("u", who, bytes(b).hex(), form))
        obj = bytearray(b) if form == "bytearray" else bytes(b)
        try:
            conns[who].unread(obj)
        except Exception as e:  # noqa: B902
            viol("c01:unread-failed", "unread(%s of %d bytes) raised %s: %s" % (form, len(b), type(e).__name__, e))
            return
        front[who][:0] = bytes(b)
        fifo_ops.append("u%s:%s" % ("A" if who == "client" else "B", hx(b)))
        fifo_exp.append(("u", None))
        ctx.count("live:unread")

    def avail(who):
        """what a blocking read can still get without the peer doing anything"""
        return bytes(front[who]) + bytes(written[peer[who]][len(got[who]):])

    def do_file_read(who, kind, n=0):
        """socket emulation: conn.makefile('rb').read(n) / .readline() (blocking calls: only when the data is there)"""
        a = avail(who)
        if not a or (kind == "line" and b"\n" not in a):
            return
        ops.append(("f", who, kind, n))
        f = files.get(who)
        if f is None:
            f = files[who] = conns[who].makefile("rb")
        letter = "A" if who == "client" else "B"
        try:
            r = f.readline() if kind == "line" else f.read(n)
        except Exception as e:  # noqa: B902
            viol("c01:read-failed", "makefile('rb').%s on an honest connection raised %s: %s"
                 % ("readline()" if kind == "line" else "read(%d)" % n, type(e).__name__, e))
            return
        r = bytes(r or b"")
        if kind == "line":
            want = a[:a.index(b"\n") + 1]
            if r != want:
                viol("c01:data-mismatch", "readline() returned %d bytes, the stream has a %d byte line" % (len(r), len(want)))
            for i in range(len(r)):          # RawIOBase.readline reads byte by byte
                fifo_ops.append("r%s:1:1" % letter)
                fifo_exp.append(("d", r[i:i + 1]))
        else:
            if len(r) > n or not r:
                viol("c01:read-more-than-max", "file read(%d) returned %d bytes" % (n, len(r)))
            fifo_ops.append("r%s:%d:1" % (letter, n))
            fifo_exp.append(("d", r))
        account(who, r)
        ctx.count("live:file-reads")

    def do_read(who, mx, mn):
        res = L.read(who, max=mx, min=mn)
        ops.append(("r", who, mx, mn))
        letter = "A" if who == "client" else "B"
        fifo_ops.append("r%s:%s:%d" % (letter, "n" if mx is None else str(mx), mn))
        if res[0] == "ok":
            account(who, res[1])
            fifo_exp.append(("d", bytes(res[1])))
            if mx is not None and len(res[1]) > mx:
                viol("c01:read-more-than-max", "read(max=%d) returned %d bytes" % (mx, len(res[1])))
        elif res[0] == "stall":
            fifo_exp.append(("stall", None))
        else:
            fifo_exp.append(("error", None))
            viol("c01:read-failed", "read(max=%r, min=%d) on an honest connection raised %s" % (mx, mn, R.lab.exc_class(res[1])))

    def drain(who):
        """read everything the peer has written so far through random (max, min) calls"""
        src = peer[who]
        guard = 0
        while len(got[who]) < len(written[src]) and not failed[0] and guard < 4000:
            guard += 1
            remaining = len(written[src]) - len(got[who])
            mn = rng.choice([0, 1, 1, min(remaining, 7), min(remaining, rng.randrange(1, 70000)), remaining])
            mx = rng.choice([None, None, 1, rng.randrange(1, 40), rng.randrange(1, 70000)])
            if mx is not None and remaining > 3000 and mx < 50:
                mx = rng.randrange(500, 70000)      # keep the number of calls bounded
            do_read(who, mx, mn)
            if fifo_exp[-1][0] == "stall":
                break
        # an extra read that must not produce anything
        if not failed[0] and rng.random() < 0.3:
            do_read(who, rng.choice([None, 5]), 0 if rng.random() < 0.5 else 1)

    if script is None:
        for who in ("client", "server"):
            budget = min(budget_for(ctx, cfg, who, pads[who]), limits[who] * ctx.pick(150, 500))
            if reduced:
                budget = min(budget, 2500)
            lens = boundary_lengths(cfg, limits[who], budget)
            cap = max(1, min(budget // 4, 3 * limits[who] + 10))
            extra = [rng.randrange(0, cap + 1) for _ in range(0 if reduced else (3 if not ctx.thorough() else 6))]
            for n in lens + extra:
                if failed[0]:
                    break
                do_write(who, rb(rng, n))
                drain(peer[who])
        # interleaved phase: several writes in both directions before any read, reads in random order
        for _ in range(1 if reduced else (3 if not ctx.thorough() else 5)):
            if failed[0]:
                break
            for _ in range(rng.randrange(2, 6)):
                who = rng.choice(["client", "server"])
                cap = min(budget_for(ctx, cfg, who, pads[who]) // 8, 5000, limits[who] * 40)
                do_write(who, rb(rng, rng.choice([0, 1, rng.randrange(0, cap + 1), limits[who], limits[who] + 1]) % (cap + 1)))
            # the application re-uses one mutable buffer for several writes (fits one record)
            who = rng.choice(["client", "server"])
            n = rng.choice([1, 5, 16, 31, min(limits[who], 300)])
            do_write(who, rb(rng, n), "bytearray")
            do_write(who, b"", "again")
            do_write(who, b"", "again")
            order = ["client", "server"]
            rng.shuffle(order)
            for who in order:
                src = peer[who]
                if len(written[src]) > len(got[who]):
                    do_read(who, rng.choice([None, 3, 1000]), rng.choice([0, 1, 2]))
            for who in order:
                drain(who)
        # read-side API mixes: peek and push back (unread with bytes / bytearray, empty, part of, all of and more than
        # what was read), reads around it, and the socket-emulation file object (read(n), readline())
        for who in ("client", "server"):
            src = peer[who]
            nconn = ctx.dist.get("live:connections", 0)      # rotates the variants over the connections
            for rnd in range(nconn, nconn + (1 if not ctx.thorough() else 4)):
                if failed[0]:
                    break
                line = rb(rng, rng.randrange(0, 20)).replace(b"\n", b"x") + b"\n"
                do_write(src, rb(rng, rng.choice([1, 9, 40])).replace(b"\n", b"y") + line + rb(rng, rng.randrange(1, 30)))
                n = rng.choice([1, 3, 8])
                do_read(who, n, 1)
                last = bytes(fifo_exp[-1][1]) if fifo_exp[-1][0] == "d" else b""
                choice = (rnd + (who == "server")) % 4
                form = ("bytes", "bytearray")[(rnd + rng.randrange(2)) % 2]
                if choice == 0:
                    do_unread(who, last, "bytes")                 # all of it, as bytes: the peek-and-push-back idiom
                elif choice == 1:
                    do_unread(who, last[len(last) // 2:], form)   # part of it
                elif choice == 2:
                    do_unread(who, b"", form)
                    do_unread(who, b"sniffed:" + last, form)      # more than what was read
                else:
                    do_unread(who, last, "bytearray")
                    do_unread(who, b"", "bytes")
                do_read(who, rng.choice([None, 1, 5, 1000]), rng.choice([0, 1, 2]))
                do_read(who, rng.choice([2, 7]), 1)
                do_file_read(who, "read", rng.choice([1, 4, 64]))
                do_file_read(who, "line")
                do_read(who, None, 0)
                if fifo_exp and fifo_exp[-1][0] == "d":
                    do_unread(who, bytes(fifo_exp[-1][1])[-3:], "bytes")
                drain(who)
        # the application changes recordSize: between writes, and while a write is suspended on a would-block
        slow = cfg["cipher"] in R.SLOW
        rnd0 = rng.randrange(2)
        for rnd in range(rnd0, rnd0 + (1 if not ctx.thorough() else 4)):
            for who in ("client", "server"):
                if failed[0]:
                    break
                base = rng.choice([64, 100, 600, 16384] if not slow else [64, 100])
                set_size(who, base)
                eff = limits[who]
                n = min(rng.choice([2 * eff + 7, 10 * eff, 1000, 1500, 3 * eff]), 400 if slow else 2500)
                do_write(who, rb(rng, n))
                # raise on odd rounds, lower on even ones, then mixed
                raise_first = ((rnd + (who == "server")) % 2 == 0)
                pool_up = [eff * 4 + 3, 16384, 20000, 600 if eff < 600 else 16384]
                pool_down = [max(1, eff // 3), 7, 64 if eff > 64 else 5, 33]
                changes = [rng.choice(pool_up if raise_first else pool_down)]
                if rng.random() < 0.6:
                    changes.append(rng.choice(pool_down if raise_first else pool_up))
                if rng.random() < 0.3:
                    changes.append(rng.choice(pool_up + pool_down))
                small = min([eff] + changes)
                n = min(rng.choice([1000, 1500, 2 * eff + 1, 12 * eff]), 25 * small + 50, 400 if slow else 2500)
                nrec = n // max(1, small) + 3
                sched = [rng.choice(["wb", rng.randrange(1, 60), 10 ** 6, 10 ** 6]) for _ in range(min(2 * nrec + 6, 120))]
                sched[0] = "wb"
                do_write_suspended(who, rb(rng, n), sched, changes)
                drain(peer[who])
            for who in ("client", "server"):
                drain(who)
        # TLS 1.3: KeyUpdate rounds (requested and unrequested, from both sides) interleaved with data
        if cfg["ver"] >= (3, 4):
            for rnd in range(3):
                for who in ("client", "server"):
                    for requested in (True, False):
                        if failed[0]:
                            break
                        do_keyupdate(who, requested)
                        for w in (who, peer[who]):
                            if failed[0]:
                                break
                            do_write(w, rb(rng, rng.choice([1, 17, 200, min(limits[w] + 1, 1200)])))
                            drain(peer[w])
    else:
        for op in script:
            if op[0] == "w":
                data = bytes.fromhex(op[3]) if op[3] is not None else rb(rng, op[2])
                do_write(op[1], data, op[4] if len(op) > 4 else "bytes")
            elif op[0] == "s":
                set_size(op[1], op[2])
            elif op[0] == "ku":
                do_keyupdate(op[1], op[2])
            elif op[0] == "u":
                do_unread(op[1], bytes.fromhex(op[2]), op[3])
            elif op[0] == "f":
                do_file_read(op[1], op[2], op[3])
            elif op[0] == "ws":
                data = bytes.fromhex(op[3]) if op[3] is not None else rb(rng, op[2])
                do_write_suspended(op[1], data, op[4], op[5])
            else:
                do_read(op[1], op[2], op[3])
        # a replayed script may end before everything was read: read out what is deliverable
        for who in ("client", "server"):
            for _ in range(2000):
                if failed[0] or len(got[who]) >= len(written[peer[who]]):
                    break
                do_read(who, None, 1)
                if fifo_exp[-1][0] != "d":
                    break

    # --- direct oracle, end of connection
    if not failed[0]:
        for who in ("client", "server"):
            src = peer[who]
            if bytes(got[who]) != bytes(written[src]):
                viol("c01:data-mismatch", "%s read %d bytes, %s wrote %d" % (who, len(got[who]), src, len(written[src])))
            app = [n for (t, n) in recv_log[who] if t == 23]
            for i, n in enumerate(app):
                lim = rec_limits[src][i] if i < len(rec_limits[src]) else limits[src]
                if n > lim:
                    viol("c01:record-exceeds-limit", "record %d sent by %s carried %d plaintext bytes; limit in force when "
                         "it was cut: %d (peer advertised %r)" % (i, src, n, lim, R.advertised(cfg, who)))
                    break
            if conns[who].closed:
                viol("c01:closed", "%s closed during an honest exchange" % who)
    # --- FIFO model over the whole script
    if lc is not None and model_rs and not failed[0]:
        line = "fifo %d %d/%d %d %d/%d %s" % (int(split["client"]), model_rs0["client"], model_limit["client"],
                                             int(split["server"]), model_rs0["server"], model_limit["server"],
                                             " ".join(fifo_ops))
        out = lc.ask(line).split() if fifo_ops else []
        ctx.compared(len(fifo_ops))
        if len(out) != len(fifo_exp):
            ctx.disagree("fifo-model", dict(cfg=jcfg(cfg), n=len(fifo_ops)), out[:5], "reply count %d" % len(fifo_exp))
        else:
            for i, (o, e) in enumerate(zip(out, fifo_exp)):
                if e[0] == "w?":
                    continue        # written while recordSize was changing: fragment count checked by fragvar
                if e[0] == "w":
                    # the model lists the plaintext fragments; on the wire only their number is visible
                    o = "w%d" % (len(o[1:].split(",")) if o.startswith("w") and len(o) > 1 else -1)
                    m = "w%d" % len(e[1])
                elif e[0] == "d":
                    m = "d" + hx(e[1])
                else:
                    m = e[0]
                if o != m:
                    ctx.disagree("fifo-model", dict(cfg=jcfg(cfg), op=fifo_ops[i][:80], index=i), o[:120], m[:120])
                    break
    ctx.count("live:connections")
    ctx.count("live:bytes", len(written["client"]) + len(written["server"]))
    return ops


def first_diff(a, b):
    for i, (x, y) in enumerate(zip(a, b)):
        if x != y:
            return i
    return min(len(a), len(b))


def jcfg(cfg):
    d = dict(cfg)
    d["ver"] = list(cfg["ver"])
    return d


def ucfg(d):
    c = dict(d)
    c["ver"] = tuple(d["ver"])
    for k in ("rsl", "users", "pads"):
        c[k] = tuple(d[k])
    return c


def live_streams(ctx):
    """every configuration runs its directed histories (buffer re-use, interleaving, recordSize changes while a
    write is suspended, TLS 1.3 KeyUpdate rounds, resumed connections) whatever the machine load; past the time
    budget only the bulk is cut: the boundary-length sweep shrinks (quick) / the remaining configurations of the
    shuffled suite x limit matrix are dropped (thorough).  What was cut is recorded in the evidence."""
    budget = ctx.pick(150, 1000)
    cfgs = list(live_configs(ctx))
    directed = [c for c in cfgs if c.get("resume") or c["ver"] >= (3, 4)]
    rest = [c for c in cfgs if not (c.get("resume") or c["ver"] >= (3, 4))]
    if ctx.thorough():
        ctx.rng.shuffle(rest)       # whatever does not fit into the budget is spread over all dimensions
    cut = ctx.extra.setdefault("streams_cut_by_time", [])
    for n, cfg in enumerate(directed + rest):
        late = _since_run(ctx) > budget
        if late and ctx.thorough() and n >= len(directed):
            ctx.count("live:skipped-out-of-time")
            if "live: remaining suite x limit configurations dropped (thorough)" not in cut:
                cut.append("live: remaining suite x limit configurations dropped (thorough)")
            continue
        if late:
            ctx.count("live:reduced-by-time")
            if "live: boundary-length sweep reduced" not in cut:
                cut.append("live: boundary-length sweep reduced")
        try:
            run_live(ctx, cfg, reduced=late)
        except Exception as e:  # noqa: B902 - an exception escaping an honest exchange is a finding of its own
            import traceback
            ctx.violation("c01:exception", "exception during an honest exchange: %s: %s" % (type(e).__name__, e),
                          dict(stage="live", cfg=jcfg(cfg), traceback=traceback.format_exc()[-1500:]))


def _since_run(ctx):
    import time as _time
    return _time.time() - getattr(ctx, "_t_run", ctx.t0)


def run(ctx):
    import time as _time
    ctx._t_run = _time.time()      # budgets count from here: the Lean build before it does not eat them
    ctx.rule = ("toy stream: path x version x content type x boundary lengths x padding spec x sequence number; live stream: "
                "version x cipher x EtM x record_size_limit pair x recordSize x padding_cb, per connection every boundary "
                "length around 0/1/block/limit/k*2^14 plus seeded random lengths in both directions, reads with random "
                "(max,min), plus interleaved write/read phases; distinct = distinct (configuration, direction, length); "
                "non-trivial = all")
    ctx.assumptions = ["toy primitives in harness/props/rectoy.py and lean/TlsModel/RecordToy.lean are the same functions "
                       "(checked by the byte-exact differential itself)",
                       "limit in force = min(recordSize, peer's advertised record_size_limit [-1 in TLS 1.3], 2^14), computed "
                       "from the settings (RFC 8449)",
                       "padding callback contract: returns <= max(max_padding, 0)"]
    toy_differential(ctx)
    live_streams(ctx)


def replay(ctx, rep):
    inp = rep["input"]
    if inp.get("stage") == "live" and inp.get("script") is not None:
        cfg = ucfg(inp["cfg"])
        script = [tuple(o) for o in inp["script"]]
        run_live(ctx, cfg, script=script)
        for v in ctx.violations:
            print("  ", v["key"], v["what"][:200])
        return bool(ctx.violations)
    if inp.get("stage") == "toy":
        c = inp["case"]
        cfg = dict(c["cfg"], ver=tuple(c["cfg"]["ver"]), fixedNonce=bytes.fromhex(c["cfg"]["fixedNonce"]),
                   fixedIV=bytes.fromhex(c["cfg"]["fixedIV"]))
        pr = dict(c["pr"], macKey=bytes.fromhex(c["pr"]["macKey"]), key=bytes.fromhex(c["pr"]["key"]))
        data, cs = bytes.fromhex(c["data"]), bytes.fromhex(c["cs"])
        real = T.real_send(cfg, pr, c["pad"], c["sl"], c["seq"], cs, c["ctype"], data)
        if real[0] != "ok":
            print("sendRecord raised", real)
            return True
        rr = T.real_recv(cfg, pr, c["seq"], cs, False, 0, 0, 16384, real[3], real[4], real[5])
        print("recvRecord(sendRecord(x)):", rr[:2], "expected type", c["ctype"])
        return not (rr[0] == "ok" and rr[5] == c["ctype"] and rr[6] == data)
    print("replay of stage %r: re-running the whole check" % inp.get("stage"))
    run(ctx)
    return bool(ctx.violations or ctx.disagreements)
