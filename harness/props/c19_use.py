"""C19 — purity across USE and re-use of settings objects.

validate() returns a copy that shares most list-valued fields with its receiver by reference, and
every handshake entry point works on such a copy of what the caller passed.  So "validating never
modifies it" only means something if no code that later uses the copy changes a shared list in
place.  This module
 * watches settings objects (the caller's original and the validated copy handed to the library)
   across a handshake and across use of the connection: no attribute may be re-bound, no value may
   change, field by field (Watch);
 * runs sequences of different handshakes with the SAME settings object(s) and requires every step
   to end exactly as it does with a fresh, equal object (reuse_sequences / run_sequence).
"""
import copy

from . import c19_pairs as P

V30, V31, V32, V33, V34 = P.V30, P.V31, P.V32, P.V33, P.V34


class Watch(object):
    """field-by-field snapshot (identity + deep value) of named settings objects"""

    def __init__(self, named):
        from .c19 import canon
        self.canon = canon
        self.named = dict((k, v) for k, v in named.items() if v is not None)
        self.before = dict((k, self.snap(v)) for k, v in self.named.items())

    def snap(self, obj):
        return dict((f, (id(v), self.canon(v))) for f, v in obj.__dict__.items())

    def changed(self):
        """['<object>:<field>:<how>'] for everything that differs from the snapshot"""
        out = []
        for k, obj in sorted(self.named.items()):
            now = self.snap(obj)
            was = self.before[k]
            for f in sorted(set(now) | set(was)):
                if f not in now or f not in was:
                    out.append("%s:%s:%s" % (k, f, "attribute-added-or-removed"))
                elif now[f][1] != was[f][1]:
                    out.append("%s:%s:value-changed" % (k, f))
                elif now[f][0] != was[f][0] and isinstance(obj.__dict__[f], (list, dict, set, bytearray)):
                    out.append("%s:%s:re-bound" % (k, f))
        return out


# ---------------------------------------------------------------------------------------------
# one handshake step with given objects
# ---------------------------------------------------------------------------------------------
def run_step(step, cobj, sobj):
    """step: {'entry': 'cert'|'srp'|'anon'|'cert-pha', 'cred':..., 'srp_bits':...}; cobj / sobj are the
    settings objects handed to the library as they are.  Returns (signature tuple, lab)"""
    from harness import lab
    from . import c19_entry as E
    L = lab.Lab()
    entry = step["entry"]
    if entry in ("cert", "cert-pha"):
        chain, key = lab.creds(step.get("cred", "rsa"))
        ckw = {}
        if entry == "cert-pha":
            cchain, ckey = lab.creds("client_rsa")
            ckw = {"certChain": cchain, "privateKey": ckey}
        L.start_client(lambda conn: conn.handshakeClientCert(settings=cobj, async_=True, **ckw))
        L.start_server(lambda conn: conn.handshakeServerAsync(certChain=chain, privateKey=key, settings=sobj))
    elif entry == "srp":
        skw = {"verifierDB": E.verifier_db(step.get("srp_bits", 1536))}
        if step.get("cred"):
            chain, key = lab.creds(step["cred"])
            skw.update(certChain=chain, privateKey=key)
        L.start_client(lambda conn: conn.handshakeClientSRP(bytearray(b"alice"), bytearray(b"correct horse"),
                                                            settings=cobj, async_=True))
        L.start_server(lambda conn: conn.handshakeServerAsync(settings=sobj, **skw))
    elif entry == "anon":
        L.start_client(lambda conn: conn.handshakeClientAnonymous(settings=cobj, async_=True))
        L.start_server(lambda conn: conn.handshakeServerAsync(settings=sobj, anon=True))
    else:
        raise KeyError(entry)
    L.run()
    sig = {"client": L.client.state, "server": L.server.state, "client_exc": lab.exc_class(L.client.exc),
           "server_exc": lab.exc_class(L.server.exc)}
    if L.client.state == "done" and L.server.state == "done":
        sig["data"] = P._exchange(L)
        sig["version"] = tuple(L.client.conn.version)
        sig["suite"] = L.client.conn.session.cipherSuite
        if entry == "cert-pha" and sig["version"] == V34:
            # post-handshake authentication with the same server settings object
            L.client.start(L.client.conn.readAsync(max=16, min=1))
            L.server.start(L.server.conn.request_post_handshake_auth(sobj))
            L.run()
            # the client's Certificate / CertificateVerify / Finished are consumed by the server's next read
            L.server.start(L.server.conn.readAsync(max=16, min=1))
            L.run()
            sig["pha_server"] = "error" if L.server.state == "error" else "ok"
            sig["pha_server_exc"] = lab.exc_class(L.server.exc)
            sig["pha_client_cert"] = bool(L.server.conn.session and L.server.conn.session.clientCertChain)
    return sig, L


def run_sequence(seq):
    """seq: {'client': spec, 'server': spec, 'steps': [...], 'share': 'client'|'server'|'both',
    'validated': bool}.  Each step may override the non-shared side with step['client'] / step['server'].
    Returns {'steps': [...], 'mutated': [...], 'validate_changed': [...]} or {'invalid': why}"""
    from .c19 import canon
    try:
        C = P.mk_settings(seq["client"])
        S = P.mk_settings(seq["server"])
        C.validate()
        S.validate()
        CV = C.validate() if seq.get("validated") else None
        SV = S.validate() if seq.get("validated") else None
    except ValueError as e:
        return {"invalid": str(e)[:120]}
    share_c = seq["share"] in ("client", "both")
    share_s = seq["share"] in ("server", "both")
    ref = {}
    for name, obj in (("client", C), ("server", S)):
        ref[name] = dict((f, canon(v)) for f, v in obj.validate().__dict__.items())
    watch = Watch({"client": C if share_c else None, "client.validated": CV if share_c else None,
                   "server": S if share_s else None, "server.validated": SV if share_s else None})
    out = {"steps": []}
    for i, step in enumerate(seq["steps"]):
        try:
            # the shared object (or its validated copy) is used as it is; the other side is fresh per step
            cobj = (CV or C) if share_c else P.mk_settings(step.get("client", seq["client"]))
            sobj = (SV or S) if share_s else P.mk_settings(step.get("server", seq["server"]))
            fresh_c = P.mk_settings(seq["client"] if share_c else step.get("client", seq["client"]))
            fresh_s = P.mk_settings(seq["server"] if share_s else step.get("server", seq["server"]))
            if seq.get("validated"):
                fresh_c, fresh_s = fresh_c.validate(), fresh_s.validate()
                if not share_c:
                    cobj = cobj.validate()
                if not share_s:
                    sobj = sobj.validate()
        except ValueError as e:
            return {"invalid": str(e)[:120]}
        got, _ = run_step(step, cobj, sobj)
        want, _ = run_step(step, fresh_c, fresh_s)
        out["steps"].append({"step": i, "entry": step["entry"], "with_shared_objects": got, "with_fresh_objects": want,
                             "same": got == want})
    out["mutated"] = watch.changed()
    out["validate_changed"] = []
    for name, obj, shared in (("client", C, share_c), ("server", S, share_s)):
        if not shared:
            continue
        try:
            now = dict((f, canon(v)) for f, v in obj.validate().__dict__.items())
        except ValueError as e:
            out["validate_changed"].append("%s:<validate now raises %s>" % (name, str(e)[:60]))
            continue
        out["validate_changed"] += ["%s:%s" % (name, f) for f in sorted(now) if now[f] != ref[name].get(f)]
    return out


def rng_spec(lo, hi, **kw):
    d = {"minVersion": list(lo), "maxVersion": list(hi), "versions": P.vrange(lo, hi)[::-1]}
    if lo == V34:
        d["eccCurves"] = list(P.CURVES_COMMON)
    d.update(kw)
    return d


def reuse_sequences():
    """directed: one settings object through several different handshakes"""
    tls13_only = rng_spec(V34, V34)
    tls12_only = rng_spec(V33, V33)
    upto12 = rng_spec(V31, V33)
    for validated in (False, True):
        # client object: an SRP / anonymous handshake first, a TLS 1.3-only certificate server afterwards
        for first in ({"entry": "anon", "server": upto12}, {"entry": "anon", "server": {}},
                      {"entry": "srp", "server": upto12, "srp_bits": 1536}, {"entry": "srp", "server": {}, "cred": "rsa"}):
            yield {"kind": "reuse:client:%s-then-tls13" % first["entry"], "client": {}, "server": {}, "share": "client",
                   "validated": validated,
                   "steps": [first, {"entry": "cert", "cred": "rsa", "server": tls13_only},
                             {"entry": "cert", "cred": "ecdsa", "server": tls12_only}]}
        yield {"kind": "reuse:client:versions", "client": {}, "server": {}, "share": "client", "validated": validated,
               "steps": [{"entry": "cert", "cred": "rsa", "server": tls12_only}, {"entry": "cert", "cred": "rsa", "server": tls13_only},
                         {"entry": "anon", "server": {}}, {"entry": "cert", "cred": "ed25519", "server": tls13_only},
                         {"entry": "cert", "cred": "dsa", "server": upto12}]}
        yield {"kind": "reuse:client:restricted", "share": "client", "validated": validated,
               "client": rng_spec(V33, V34, cipherNames=["aes256gcm", "aes128"], macNames=["aead", "sha"],
                                  eccCurves=["x25519", "secp384r1"], keyShares=[], rsaSigHashes=["sha384", "sha256"]),
               "server": {},
               "steps": [{"entry": "cert", "cred": "rsa", "server": tls13_only}, {"entry": "cert", "cred": "rsa", "server": tls12_only},
                         {"entry": "cert", "cred": "ecdsa384", "server": {}}, {"entry": "cert", "cred": "rsa", "server": tls13_only}]}
        # server object: every kind of client and credential against the same settings object
        yield {"kind": "reuse:server:entry-points", "client": {}, "server": {}, "share": "server", "validated": validated,
               "steps": [{"entry": "anon", "client": {}}, {"entry": "srp", "client": {}, "cred": "rsa"},
                         {"entry": "cert", "cred": "rsa", "client": tls13_only}, {"entry": "cert", "cred": "ecdsa", "client": tls12_only},
                         {"entry": "cert", "cred": "dsa", "client": upto12}, {"entry": "cert", "cred": "ed25519", "client": {}},
                         {"entry": "srp", "client": upto12, "srp_bits": 2048}, {"entry": "cert", "cred": "rsapss", "client": tls13_only}]}
        yield {"kind": "reuse:server:pha", "client": tls13_only, "server": {}, "share": "server", "validated": validated,
               "steps": [{"entry": "cert-pha", "cred": "rsa", "client": tls13_only}, {"entry": "cert", "cred": "rsa", "client": tls12_only},
                         {"entry": "cert-pha", "cred": "ecdsa", "client": {}}]}
        yield {"kind": "reuse:both", "client": {}, "server": {}, "share": "both", "validated": validated,
               "steps": [{"entry": "anon"}, {"entry": "cert", "cred": "rsa"}, {"entry": "srp"}, {"entry": "cert", "cred": "ecdsa"},
                         {"entry": "cert-pha", "cred": "rsa"}]}
