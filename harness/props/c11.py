"""C11 — RSA key transport gives an attacker no padding oracle.

Theorems: lean/Props/C11.lean (decrypt_total, decrypt_valid, decrypt_invalid_uniform,
synth_length_bound, substitutePremaster_spec, premaster_substitution_total,
premaster_independent_of_defect) over lean/TlsModel/RsaDecrypt.lean, a statement-by-statement
model of RSAKey.decrypt / _dec_prf / _raw_private_key_op_bytes and
RSAKeyExchange.processClientKeyExchange, reusing the proved constant-time helper specs.

Tie: RSAKey.decrypt on real Python_RSAKey objects vs the model (private-key result, SHA-256 and
HMAC values supplied as oracle tables computed here with pow/hashlib/hmac);
processClientKeyExchange on real RSAKeyExchange objects vs substitutePremaster.

Direct oracle (independent of the code under test): totality/determinism, None only for publicly
invalid ciphertexts, valid padding => exact message, invalid padding => the implicit-rejection
message re-derived here from (d, k, ciphertext) only, same ciphertext with different defect classes
(stubbed private operation) => identical output; server level: in-memory RSA-key-exchange
handshakes for SSLv3..TLS1.2 where the client sends every malformation class; the server's record /
alert trace must be the same for all classes and differ from the valid run only after the client's
Finished.
"""
import errno
import hashlib
import re
import hmac as pyhmac
import socket

from ..leanclient import hx

TRANSLATORS = ["ct", "rsadecrypt", "cryptomath"]

MANIFEST = {
    "text": "Proof: Tls.Rsa.decrypt (statement-by-statement Lean model of RSAKey.decrypt with its masked arithmetic, over abstract "
            "SHA-256 / HMAC / private-key operation; constant-time helpers replaced by their proved specifications) returns None "
            "exactly for publicly invalid ciphertexts and never raises (decrypt_total); returns exactly M when EM = 00 02 PS 00 M, "
            "|PS| >= 8, PS non-zero (decrypt_valid); for every other EM returns g(kdk) for one function g fixed before the private-key "
            "result is known, of length <= k-11 (decrypt_invalid_uniform, synth_length_bound); processClientKeyExchange always returns "
            "48 bytes, the decrypted value iff 48 bytes with client-hello or negotiated version, else the random substitute, with no "
            "exception (premaster_substitution_total, premaster_independent_of_defect); the server path after ClientKeyExchange "
            "(Tls.RsaServer: CertificateVerify, master secret, ChangeCipherSpec, Finished under the derived keys, record-layer "
            "exception -> alert mapping, abstract PRF / record protection) emits the same trace for any two rejected payloads "
            "(server_wire_independent_of_defect), differs from the valid run only from the Finished check on and never alerts "
            "earlier because of the premaster (server_differs_from_valid_only_at_finished, no_early_alert; SSLv3 with client "
            "certificate excepted: CertificateVerify signs the master secret there). Tie: correspondence model vs RSAKey.decrypt on "
            "real keys (512..2048 bit incl. odd sizes) over all message lengths, every padding-defect class, boundary separators, "
            "c >= n, wrong lengths, random ciphertexts; processClientKeyExchange vs model; regeneration: translate/gen_rsadecrypt.py "
            "re-translates RSAKey._raw_private_key_op_bytes, _dec_prf, decrypt and RSAKeyExchange.processClientKeyExchange statement by "
            "statement from the Python AST of the tree under check into Lean (Tls.RsaDec.Gen over the Python-runtime model Tls.Py/Tls.PyE; "
            "anything not understood is poison) and Gen.f = hand model is proved for all inputs (gen_*_eq), so the theorems hold of the "
            "source text as it is now (gen_decrypt_total, gen_decrypt_valid, gen_decrypt_invalid_uniform, "
            "gen_premaster_independent_of_defect); independent re-derivation of the synthetic "
            "message; server-level loopback handshakes comparing the server's wire trace across malformation classes for SSLv3..TLS1.2.",
    "note": "Trusted: Lean kernel (axioms propext, Classical.choice, Quot.sound), the translators translate/gen_rsadecrypt.py and "
            "translate/gen_ct.py with the Python-runtime model TlsModel/PyInt.lean + PyExc.lean (cryptomath's numBits/numBytes/"
            "bytesToNumber/numberToByteArray, SHA-256, HMAC and the private-key operation are parameters of it), "
            "the correspondence harness, hashlib/hmac/pow of CPython. "
            "HMAC is an arbitrary function with 32-byte output; key size 11 <= k < 65536 bytes. The server flow after ClientKeyExchange "
            "is modelled for one message per record (no fragment reassembly, heartbeat, renegotiation branches) and tied to the observed "
            "loopback traces (records consumed counted at the record layer). Timing is not modelled "
            "(the code itself says CPython is not constant time).",
    "technique": "Lean 4 proof over a code-mirroring model; differential correspondence model vs implementation; independent reference "
                 "oracle; differential wire traces across malformation classes",
}

E = 65537

# ----------------------------------------------------------------------------------------------
# keys (deterministic from ctx.rng)
# ----------------------------------------------------------------------------------------------

_SMALL_PRIMES = [3, 5, 7, 11, 13, 17, 19, 23, 29, 31, 37, 41, 43, 47, 53, 59, 61, 67, 71, 73, 79, 83, 89, 97]


def _is_prime(n, rng):
    if n < 2:
        return False
    for p in [2] + _SMALL_PRIMES:
        if n % p == 0:
            return n == p
    d, s = n - 1, 0
    while d % 2 == 0:
        d //= 2
        s += 1
    for _ in range(24):
        a = rng.randrange(2, n - 1)
        x = pow(a, d, n)
        if x in (1, n - 1):
            continue
        for _ in range(s - 1):
            x = x * x % n
            if x == n - 1:
                break
        else:
            return False
    return True


def _prime(bits, rng):
    while True:
        p = rng.getrandbits(bits) | (1 << (bits - 1)) | 1
        if p % E == 1:
            continue
        if _is_prime(p, rng):
            return p


def make_key_numbers(bits, rng):
    """(n, d, p, q) with n of exactly `bits` bits"""
    from math import gcd
    while True:
        pb = (bits + 1) // 2
        p = _prime(pb, rng)
        q = _prime(bits - pb, rng)
        if p == q:
            continue
        n = p * q
        if n.bit_length() != bits:
            continue
        t = (p - 1) * (q - 1) // gcd(p - 1, q - 1)
        if gcd(E, t) != 1:
            continue
        return n, pow(E, -1, t), p, q


def build_key(nums):
    from tlslite.utils.python_rsakey import Python_RSAKey
    n, d, p, q = nums
    return Python_RSAKey(n, E, d, p, q, d % (p - 1), d % (q - 1), pow(q, -1, p))


def pem_key_numbers(ctx):
    from tlslite.utils.keyfactory import parsePEMKey
    import os
    with open(os.path.join(ctx.repo, "tests", "serverX509Key.pem")) as f:
        k = parsePEMKey(f.read(), private=True, implementations=["python"])
    return int(k.n), int(k.d), int(k.p), int(k.q)


# ----------------------------------------------------------------------------------------------
# independent reference (from the property text / the implicit-rejection algorithm description)
# ----------------------------------------------------------------------------------------------

def kbytes(n):
    return (n.bit_length() + 7) // 8


def ref_unpad(em):
    """plain PKCS#1 v1.5 type 2 parse: message or None"""
    if len(em) < 11 or em[0] != 0 or em[1] != 2:
        return None
    i = em.find(b"\x00", 2)
    if i < 0 or i < 10:
        return None
    return em[i + 1:]


def ref_prf(key, label, nbytes):
    out = b""
    i = 0
    while len(out) < nbytes:
        out += pyhmac.new(key, i.to_bytes(2, "big") + label + ((nbytes * 8) & 0xffff).to_bytes(2, "big"),
                          hashlib.sha256).digest()
        i += 1
    return out[:nbytes]


def ref_kdk(n, d, c):
    k = kbytes(n)
    return pyhmac.new(hashlib.sha256(d.to_bytes(k, "big")).digest(), bytes(c), hashlib.sha256).digest()


def ref_synthetic(n, d, c):
    """the alternative message: a function of (d, k, ciphertext) only — it never sees the EM"""
    k = kbytes(n)
    kdk = ref_kdk(n, d, c)
    cand = ref_prf(kdk, b"length", 256)
    alt = ref_prf(kdk, b"message", k)
    max_len = k - 11
    mask = (1 << (max_len + 1).bit_length()) - 1
    length = 0
    for i in range(128):
        v = int.from_bytes(cand[2 * i:2 * i + 2], "big") & mask
        if v <= max_len:
            length = v
    return alt[k - length:]


_EM_CACHE = {}


def ref_em(nums, c):
    """c^d mod n as k bytes (Garner recombination with CPython pow; cached)"""
    n, d, p, q = nums
    key = (n, bytes(c))
    if key not in _EM_CACHE:
        if len(_EM_CACHE) > 4000:
            _EM_CACHE.clear()
        x = int.from_bytes(c, "big")
        m1 = pow(x % p, d % (p - 1), p)
        m2 = pow(x % q, d % (q - 1), q)
        h = (pow(q, -1, p) * (m1 - m2)) % p
        _EM_CACHE[key] = (m2 + h * q).to_bytes(kbytes(n), "big")
    return _EM_CACHE[key]


def ref_decrypt(nums, c):
    """what the property demands of decrypt: None iff publicly invalid; M for a valid padding;
    otherwise the synthetic message"""
    n, d = nums[0], nums[1]
    k = kbytes(n)
    if len(c) != k or int.from_bytes(c, "big") >= n:
        return None
    m = ref_unpad(ref_em(nums, c))
    return m if m is not None else ref_synthetic(n, d, c)


def tables(n, d, c):
    """oracle tables for the model: SHA-256 and HMAC values on exactly the inputs the algorithm uses"""
    k = kbytes(n)
    dk = d.to_bytes(k, "big")
    kh = hashlib.sha256(dk).digest()
    kdk = pyhmac.new(kh, bytes(c), hashlib.sha256).digest()
    sha = "%s:%s" % (hx(dk), hx(kh))
    ent = ["%s:%s:%s" % (hx(kh), hx(c), hx(kdk))]
    for label, nbytes in ((b"length", 256), (b"message", k)):
        for i in range((nbytes + 31) // 32):
            msg = i.to_bytes(2, "big") + label + ((nbytes * 8) & 0xffff).to_bytes(2, "big")
            ent.append("%s:%s:%s" % (hx(kdk), hx(msg), hx(pyhmac.new(kdk, msg, hashlib.sha256).digest())))
    return sha, ",".join(ent)


def nhex(x):
    return hx(x.to_bytes(max(1, (x.bit_length() + 7) // 8), "big"))


# ----------------------------------------------------------------------------------------------
# case generation
# ----------------------------------------------------------------------------------------------

def nzbytes(rng, n):
    return bytes(rng.randrange(1, 256) for _ in range(n))


def rbytes(rng, n):
    return bytes(rng.getrandbits(8) for _ in range(n))


def em_valid(rng, k, msg):
    return b"\x00\x02" + nzbytes(rng, k - 3 - len(msg)) + b"\x00" + bytes(msg)


def gen_ems(ctx, k):
    """yield (kind, em) — crafted encoded messages; the generator tags, the oracle decides"""
    rng = ctx.rng
    full = ctx.thorough() or k <= 140
    # valid messages of every length 0..k-11
    lens = range(0, k - 10) if (full or k <= 256) else sorted(set([0, 1, 2, 47, 48, 49, k - 12, k - 11] +
                                                                 [rng.randrange(0, k - 10) for _ in range(40)]))
    for ml in lens:
        yield ("valid-len", em_valid(rng, k, rbytes(rng, ml)))
    # messages containing / starting with / consisting of zero bytes
    for ml in sorted(set(x for x in (1, 2, 5, 48, k - 11) if 1 <= x <= k - 11)):
        yield ("valid-zeros-in-msg", em_valid(rng, k, bytes(ml)))
        m = bytearray(rbytes(rng, ml))
        m[0] = 0
        yield ("valid-msg-starts-zero", em_valid(rng, k, bytes(m)))
    mls = [0, 1, 48, k - 30, k - 12, k - 11] if not ctx.thorough() else list(range(0, k - 10, max(1, k // 40))) + [k - 11]
    for ml in mls:
        if ml < 0 or ml > k - 11:
            continue
        good = bytearray(em_valid(rng, k, nzbytes(rng, ml)))
        # first byte
        for v in (1, 2, 0x7f, 0x80, 0xff):
            b = bytearray(good)
            b[0] = v
            yield ("bad-first-byte", bytes(b))
        # second byte
        for v in (0, 1, 3, 0x82, 0xff):
            b = bytearray(good)
            b[1] = v
            yield ("bad-second-byte", bytes(b))
        b = bytearray(good)
        b[0], b[1] = 2, 0
        yield ("bad-both-bytes", bytes(b))
        # a zero at each of the first eight padding positions (and at 10 = first legal place)
        for pos in range(2, 10):
            b = bytearray(good)
            b[pos] = 0
            yield ("bad-zero-in-ps-%d" % pos, bytes(b))
        for pos in (2, 9):
            b = bytearray(good)
            b[pos] = 0
            b[0] = 1
            yield ("bad-multi", bytes(b))
        b = bytearray(good)
        b[2] = b[9] = 0
        yield ("bad-two-zeros-in-ps", bytes(b))
    # no separator at all
    for _ in range(ctx.pick(4, 12)):
        yield ("bad-no-separator", b"\x00\x02" + nzbytes(rng, k - 2))
    yield ("bad-no-separator-const", b"\x00\x02" + b"\xff" * (k - 2))
    yield ("bad-no-separator-wrong-type", b"\x00\x01" + b"\xff" * (k - 2))
    # separator at each boundary position
    for sep in (2, 3, 8, 9, 10, 11, 12, k - 3, k - 2, k - 1):
        if not 2 <= sep < k:
            continue
        for _ in range(2):
            b = bytearray(b"\x00\x02" + nzbytes(rng, k - 2))
            b[sep] = 0
            yield ("sep-at-%s" % (sep if sep < 13 else "k-%d" % (k - sep)), bytes(b))
    # separator in the last position only and a second zero before position 10
    b = bytearray(b"\x00\x02" + nzbytes(rng, k - 2))
    b[k - 1] = 0
    b[5] = 0
    yield ("bad-sep-last-and-early-zero", bytes(b))
    # every separator position (thorough / small keys)
    if full:
        for sep in range(2, k):
            b = bytearray(b"\x00\x02" + nzbytes(rng, k - 2))
            b[sep] = 0
            yield ("sep-sweep", bytes(b))
    # degenerate encoded messages
    yield ("em-zero", bytes(k))
    yield ("em-one", bytes(k - 1) + b"\x01")
    yield ("em-0002-then-zeros", b"\x00\x02" + bytes(k - 2))
    # random garbage
    for _ in range(ctx.pick(10, 60)):
        yield ("em-random", b"\x00" + rbytes(rng, k - 1))
    for _ in range(ctx.pick(6, 30)):
        b = bytearray(em_valid(rng, k, rbytes(rng, rng.randrange(0, k - 10))))
        for _ in range(rng.randrange(1, 4)):
            b[rng.randrange(k)] = rng.choice([0, 0, 1, 2, rng.getrandbits(8)])
        yield ("em-mutated", bytes(b))


def key_blob(nums):
    n, d, p, q = nums
    return {"n": "%x" % n, "d": "%x" % d, "p": "%x" % p, "q": "%x" % q}


def blob_key(b):
    return tuple(int(b[x], 16) for x in ("n", "d", "p", "q"))


def impl_decrypt(key, c):
    try:
        r = key.decrypt(bytearray(c))
    except Exception as e:  # decrypt must be total
        return "exception:" + type(e).__name__
    if r is None:
        return None
    return bytes(r)


def canon(r):
    if r is None:
        return "none"
    if isinstance(r, str):
        return r
    return "some " + hx(r)


def classify(nums, c, impl):
    """compare the implementation's answer with what the property demands; return (key, text) or None"""
    n, d, p, q = nums
    k = kbytes(n)
    public_ok = len(c) == k and int.from_bytes(c, "big") < n
    want = ref_decrypt(nums, c)
    if impl == want:
        return None
    if isinstance(impl, str):
        return ("c11:decrypt-exception", "decrypt raised %s (must be total)" % impl)
    if not public_ok:
        return ("c11:value-for-publicly-invalid",
                "decrypt returned a value for a publicly invalid ciphertext (length %d, k=%d, c>=n: %s)"
                % (len(c), k, len(c) == k and int.from_bytes(c, "big") >= n))
    if impl is None:
        return ("c11:none-for-publicly-valid", "decrypt returned None for a ciphertext of the right length below the modulus")
    em = ref_em(nums, c)
    m = ref_unpad(em)
    if m is not None:
        return ("c11:valid-padding-wrong-message", "valid padding but decrypt did not return the message (got %d bytes, want %d)"
                % (len(impl), len(m)))
    # invalid padding, something else than the reference synthetic message came back
    z = [i for i in range(2, k) if em[i] == 0]
    if len(impl) > 0 and (any(impl == em[i + 1:] for i in z) or impl == em[2:]):
        return ("c11:malformed-padding-accepted", "encoded message is not well formed but decrypt returned its tail as the message")
    if len(impl) > k - 11:
        return ("c11:synthetic-too-long", "synthetic message of %d bytes exceeds k-11=%d" % (len(impl), k - 11))
    return ("c11:synthetic-differs-from-reference",
            "invalid padding: returned message (%d bytes) is not the implicit-rejection message derived from (d, ciphertext) "
            "alone (%d bytes)" % (len(impl), len(want)))


def decrypt_cases(ctx, nums, label):
    """oracle + correspondence for one key"""
    n, d, p, q = nums
    k = kbytes(n)
    rng = ctx.rng
    key = build_key(nums)
    key2 = build_key(nums)      # a second object with the same numbers (no hidden per-object state)
    pending = []

    def one(kind, c):
        c = bytes(c)
        impl = impl_decrypt(key, c)
        again = impl_decrypt(key, c)
        other = impl_decrypt(key2, c)
        ctx.count("kind:" + re.sub(r"^(bad-zero-in-ps|sep-at)-.*$", r"\1", kind))
        ctx.count("key:" + label)
        pub = len(c) == k and int.from_bytes(c, "big") < n
        want = ref_decrypt(nums, c)
        ctx.count("expect:" + ("none" if want is None else ("message" if ref_unpad(ref_em(nums, c)) is not None else "synthetic")))
        rep = {"stage": "decrypt", "kind": kind, "key": key_blob(nums), "c": c.hex(), "impl": canon(impl), "want": canon(want)}
        ctx.case(key=("dec", label, c), nontrivial=True, sample=rep if ctx.evaluations % 701 == 0 else None)
        if impl != again or impl != other:
            ctx.violation("c11:decrypt-nondeterministic", "decrypt gave different results for the same (key, ciphertext) (%s)" % kind,
                          dict(rep, again=canon(again), other=canon(other)))
        v = classify(nums, c, impl)
        if v is not None:
            ctx.violation(v[0], v[1] + " [%s, %s]" % (kind, label), rep)
        if pub:
            emi = int.from_bytes(ref_em(nums, c), "big")
            raw = key._rawPrivateKeyOp(int.from_bytes(c, "big"))
            if int(raw) != emi:
                ctx.violation("c11:raw-private-op-mismatch", "_rawPrivateKeyOp differs from c^d mod n", rep)
            sha, hm = tables(n, d, c)
            pending.append((rep, impl, "dec %s %s %s %s %s %s" % (nhex(n), nhex(d), nhex(emi), hx(c), sha, hm)))
        else:
            pending.append((rep, impl, "dec %s %s 00 %s - -" % (nhex(n), nhex(d), hx(c))))

    for kind, em in gen_ems(ctx, k):
        assert len(em) == k
        tag_valid = kind.startswith("valid")
        tag_bad = kind.startswith("bad")
        parsed = ref_unpad(em)
        if (tag_valid and parsed is None) or (tag_bad and parsed is not None):
            from ..core import Infra
            raise Infra("generator/oracle inconsistency on %s" % kind)
        emi = int.from_bytes(em, "big")
        if emi >= n:
            ctx.count("skipped-em-ge-n")
            continue
        c = pow(emi, E, n).to_bytes(k, "big")
        one(kind, c)
    # a valid ciphertext with a leading zero byte (and its stripped form, which is publicly invalid)
    for _ in range(3):
        for _try in range(3000):
            em = em_valid(rng, k, rbytes(rng, rng.choice([0, 5, 48])))
            if int.from_bytes(em, "big") >= n:
                continue
            c = pow(int.from_bytes(em, "big"), E, n).to_bytes(k, "big")
            if c[0] == 0:
                one("valid-leading-zero-ciphertext", c)
                one("pubinvalid-leading-zero-stripped", c[1:])
                break
    # publicly invalid ciphertexts and boundary values
    cv = pow(int.from_bytes(em_valid(rng, k, b"boundary"), "big") % n, E, n)
    full = (1 << (8 * k)) - 1
    for kind, val in (("pubinvalid-c=n", n), ("pubinvalid-c=n+1", n + 1), ("pubinvalid-c=n+valid", n + cv),
                      ("pubinvalid-c=2n-1", 2 * n - 1), ("pubinvalid-c=max", full)):
        if val <= full:
            one(kind, val.to_bytes(k, "big"))
    one("boundary-c=n-1", (n - 1).to_bytes(k, "big"))
    one("boundary-c=n-2", (n - 2).to_bytes(k, "big"))
    one("boundary-c=0", bytes(k))
    one("boundary-c=1", (1).to_bytes(k, "big"))
    one("boundary-c=2", (2).to_bytes(k, "big"))
    cvb = cv.to_bytes(k, "big")
    one("pubinvalid-len-k-1", cvb[1:])
    one("pubinvalid-len-k-1-tail", cvb[:-1])
    one("pubinvalid-len-k+1-zero-prefixed", b"\x00" + cvb)
    one("pubinvalid-len-k+1-appended", cvb + b"\x00")
    one("pubinvalid-len-2k", cvb + cvb)
    one("pubinvalid-empty", b"")
    one("pubinvalid-one-byte", b"\x02")
    # random ciphertexts
    for _ in range(ctx.pick(25, 200)):
        one("random-ciphertext", rng.randrange(0, n).to_bytes(k, "big"))
    for _ in range(ctx.pick(5, 20)):
        one("random-bytes", rbytes(rng, k))
    # ---- correspondence with the Lean model
    lc = ctx.lean()
    if lc is not None:
        out = lc.batch([x[2] for x in pending])
        for (rep, impl, _), m in zip(pending, out):
            ctx.compared()
            if m != canon(impl):
                ctx.disagree("decrypt", rep, m, canon(impl))


def uniformity_cases(ctx, nums, label):
    """same key, same ciphertext, the private operation stubbed to return encoded messages of every
    defect class: the answer must not change (this is the quantifier order of decrypt_invalid_uniform)"""
    n, d, p, q = nums
    k = kbytes(n)
    rng = ctx.rng
    lc = ctx.lean()
    for rnd in range(ctx.pick(2, 6)):
        c = rng.randrange(0, n).to_bytes(k, "big")
        want = ref_synthetic(n, d, c)
        sha, hm = tables(n, d, c)
        seen = {}
        lines = []
        meta = []
        for kind, em in gen_ems(ctx, k):
            if ref_unpad(em) is not None:
                continue
            if not ctx.thorough() and kind in ("sep-sweep", "valid-len") and rng.random() < 0.8:
                continue
            key = build_key(nums)
            emi = int.from_bytes(em, "big")
            key._rawPrivateKeyOp = (lambda v: (lambda m: v))(emi)
            impl = impl_decrypt(key, c)
            rep = {"stage": "uniformity", "kind": kind, "key": key_blob(nums), "c": c.hex(), "em": em.hex(),
                   "impl": canon(impl), "want": canon(want)}
            ctx.case(key=("uni", label, c, em), nontrivial=True, sample=None)
            ctx.count("uniformity:" + label)
            seen.setdefault(canon(impl), rep)
            if impl != want:
                v = classify_stub(nums, c, em, impl, want)
                if v[0] in ("c11:decrypt-exception", "c11:none-for-publicly-valid", "c11:malformed-padding-accepted"):
                    ctx.violation(v[0], v[1] + " [%s, %s, stubbed private operation]" % (kind, label), rep)
                elif len(seen) > 1:
                    first = next(iter(seen.values()))
                    ctx.violation("c11:synthetic-depends-on-defect",
                                  "same key and ciphertext, encoded messages with different defects (%s vs %s) give different "
                                  "results (%s vs %s)" % (first["kind"], kind, first["impl"][:70], canon(impl)[:70]),
                                  dict(rep, other_em=first.get("em"), other_impl=first["impl"]))
                else:
                    ctx.violation(v[0], v[1] + " [%s, %s, stubbed private operation]" % (kind, label), rep)
            lines.append("dec %s %s %s %s %s %s" % (nhex(n), nhex(d), hx(em), hx(c), sha, hm))
            meta.append((rep, impl))
        if lc is not None:
            out = lc.batch(lines)
            for (rep, impl), m in zip(meta, out):
                ctx.compared()
                if m != canon(impl):
                    ctx.disagree("decrypt-stubbed-em", rep, m, canon(impl))


def synth_select_cases(ctx, nums, label):
    """the candidate-length selection at its boundaries: the PRF of one key object is replaced by chosen
    output (candidates k-12..k-9, values with high bits that the mask must clear, position of the last
    acceptable candidate), the private operation by a malformed EM; expectation computed here"""
    n, d, p, q = nums
    k = kbytes(n)
    rng = ctx.rng
    lc = ctx.lean()
    max_len = k - 11
    mask = (1 << (max_len + 1).bit_length()) - 1
    big = [v for v in (max_len + 1, max_len + 2, mask, 0xffff & ~mask | (max_len + 1)) if (v & mask) > max_len]
    scen = []
    for v in [0, 1, 5, max_len - 1, max_len, max_len + 1, max_len + 2, mask, mask + 1, (mask + 1) | max_len,
              (mask + 1) | (max_len + 1), 0x8000 | max_len, 0xffff, 0xff00, 0x00ff]:
        scen.append(("all=%d" % v, [v & 0xffff] * 128))
    if big:
        for idx in (0, 1, 63, 126, 127):
            for v in (max_len, 7, 0):
                c = [rng.choice(big) for _ in range(128)]
                c[idx] = v
                scen.append(("only-%d-ok" % idx, c))
        c = [rng.randrange(0, max_len + 1) for _ in range(128)]
        c[127] = big[0]
        scen.append(("last-too-large", c))
        c = [rng.choice(big) for _ in range(128)]
        c[3], c[90] = 9, max_len
        scen.append(("two-ok", c))
    for _ in range(ctx.pick(6, 40)):
        scen.append(("random", [rng.getrandbits(16) for _ in range(128)]))
    lines, meta = [], []
    for kind, cands in scen:
        lr = b"".join(v.to_bytes(2, "big") for v in cands)
        mr = rbytes(rng, k)
        c = rng.randrange(0, n).to_bytes(k, "big")
        em = rng.choice([bytes(k), b"\x00\x01" + nzbytes(rng, k - 2), b"\x00\x02" + nzbytes(rng, k - 2)])
        length = 0
        for v in cands:
            if (v & mask) <= max_len:
                length = v & mask
        want = mr[k - length:]
        key = build_key(nums)
        key._rawPrivateKeyOp = (lambda v: (lambda m: v))(int.from_bytes(em, "big"))
        calls = []

        def fake_prf(key_, label_, out_len, lr=lr, mr=mr, calls=calls):
            calls.append((bytes(label_), out_len))
            return bytearray((lr if bytes(label_) == b"length" else mr)[:out_len // 8])
        key._dec_prf = fake_prf
        impl = impl_decrypt(key, c)
        if sorted(calls) != [(b"length", 2048), (b"message", k * 8)]:
            ctx.count("synth-select-stub-not-effective")      # refactored internals: this sub-check cannot run
            continue
        rep = {"stage": "synth-select", "kind": kind, "key": key_blob(nums), "c": c.hex(), "em": em.hex(), "lr": lr.hex(),
               "mr": mr.hex(), "impl": canon(impl), "want": canon(want)}
        ctx.case(key=("sel", label, lr, mr, c), sample=None)
        ctx.count("synth-select:" + kind.split("-")[0].split("=")[0])
        if impl != want:
            if isinstance(impl, (bytes, bytearray)) and len(impl) > max_len:
                ctx.violation("c11:synthetic-too-long", "synthetic message of %d bytes exceeds k-11=%d (candidate lengths %s, %s)"
                              % (len(impl), max_len, kind, label), rep)
            else:
                ctx.violation("c11:synthetic-length-selection", "synthetic message is not the tail of the PRF message of the last "
                              "candidate length <= k-11 (%s, %s): got %s, want %d bytes"
                              % (kind, label, "%d bytes" % len(impl) if isinstance(impl, (bytes, bytearray)) else canon(impl),
                                 len(want)), rep)
        # the same PRF output as an HMAC table for the model
        dk = d.to_bytes(k, "big")
        kh = hashlib.sha256(dk).digest()
        kdk = pyhmac.new(kh, c, hashlib.sha256).digest()
        ent = ["%s:%s:%s" % (hx(kh), hx(c), hx(kdk))]
        for lab, data in ((b"length", lr), (b"message", mr + bytes(31))):
            nbytes = 256 if lab == b"length" else k
            for i in range((nbytes + 31) // 32):
                msg = i.to_bytes(2, "big") + lab + ((nbytes * 8) & 0xffff).to_bytes(2, "big")
                ent.append("%s:%s:%s" % (hx(kdk), hx(msg), hx(data[32 * i:32 * i + 32])))
        lines.append("dec %s %s %s %s %s:%s %s" % (nhex(n), nhex(d), hx(em), hx(c), hx(dk), hx(kh), ",".join(ent)))
        meta.append((rep, impl))
    if lc is not None and lines:
        out = lc.batch(lines)
        for (rep, impl), m in zip(meta, out):
            ctx.compared()
            if m != canon(impl):
                ctx.disagree("decrypt-stubbed-prf", rep, m, canon(impl))


# ----------------------------------------------------------------------------------------------
# every public construction path of the SAME key must decrypt alike
# ----------------------------------------------------------------------------------------------

def _der_len(n):
    if n < 128:
        return bytes([n])
    b = n.to_bytes((n.bit_length() + 7) // 8, "big")
    return bytes([0x80 | len(b)]) + b


def _der(tag, body):
    return bytes([tag]) + _der_len(len(body)) + body


def _der_int(x):
    b = x.to_bytes(max(1, (x.bit_length() + 8) // 8), "big")     # leading zero when the top bit is set
    return _der(2, b)


def pem_of(nums, pkcs8=False):
    """PEM of the private key written here (PKCS#1 RSAPrivateKey, optionally wrapped in PKCS#8)"""
    import base64
    n, d, p, q = nums
    body = _der(0x30, b"".join(_der_int(x) for x in (0, n, E, d, p, q, d % (p - 1), d % (q - 1), pow(q, -1, p))))
    name = "RSA PRIVATE KEY"
    if pkcs8:
        alg = _der(0x30, bytes.fromhex("06092a864886f70d010101") + b"\x05\x00")
        body = _der(0x30, _der_int(0) + alg + _der(4, body))
        name = "PRIVATE KEY"
    b64 = base64.b64encode(body).decode()
    return "-----BEGIN %s-----\n%s\n-----END %s-----\n" % (name, "\n".join(b64[i:i + 64] for i in range(0, len(b64), 64)), name)


def _seeded_library_random(seed, fn):
    """run fn with the library's getRandomBytes driven by random.Random(seed) (key generation becomes reproducible)"""
    import random
    import tlslite.utils.cryptomath as cm
    r = random.Random(seed)
    orig = cm.getRandomBytes
    cm.getRandomBytes = lambda nbytes: bytearray(r.getrandbits(8) for _ in range(nbytes))
    try:
        return fn()
    finally:
        cm.getRandomBytes = orig


def key_objects(bits, gen_seed):
    """{path name: key object} — one key generated by the library, then the same key through every public
    construction path; also returns its numbers"""
    from tlslite.utils import keyfactory
    from tlslite.utils.python_rsakey import Python_RSAKey
    objs = {}
    a = _seeded_library_random(gen_seed, lambda: keyfactory.generateRSAKey(bits, implementations=["python"]))
    nums = (int(a.n), int(a.d), int(a.p), int(a.q))
    n, d, p, q = nums
    objs["generateRSAKey"] = a
    b = _seeded_library_random(gen_seed, lambda: Python_RSAKey.generate(bits))
    if int(b.n) == n and int(b.d) == d:
        objs["Python_RSAKey.generate"] = b
    dP, dQ, qInv = d % (p - 1), d % (q - 1), pow(q, -1, p)
    objs["ctor-all-numbers"] = Python_RSAKey(n, int(a.e), d, p, q, dP, dQ, qInv)
    objs["ctor-n-e-d-p-q"] = Python_RSAKey(n, int(a.e), d, p, q)
    if int(a.e) == E:
        for name, pk8 in (("parsePEMKey-pkcs1", False), ("parsePEMKey-pkcs8", True)):
            objs[name] = keyfactory.parsePEMKey(pem_of(nums, pk8), private=True, implementations=["python"])
        objs["parsePrivateKey-pkcs1"] = keyfactory.parsePrivateKey(pem_of(nums))
    k = Python_RSAKey()
    k.n, k.e, k.d, k.p, k.q, k.dP, k.dQ, k.qInv = n, int(a.e), d, p, q, dP, dQ, qInv
    objs["attributes-assigned"] = k
    try:
        objs["write-then-parse"] = keyfactory.parsePEMKey(a.write(), private=True, implementations=["python"])
    except NotImplementedError:
        pass
    return nums, objs


def path_ciphertexts(rng, nums):
    n = nums[0]
    k = kbytes(n)
    out = []

    def enc(em):
        return pow(int.from_bytes(em, "big") % n, E, n).to_bytes(k, "big")
    good = bytearray(em_valid(rng, k, rbytes(rng, 20)))
    for kind, pos, val in (("bad-first-byte", 0, 1), ("bad-second-byte", 1, 1), ("bad-second-byte-0", 1, 0), ("bad-zero-in-ps-2", 2, 0),
                           ("bad-zero-in-ps-9", 9, 0)):
        b = bytearray(good)
        b[pos] = val
        out.append((kind, enc(bytes(b))))
    out.append(("bad-no-separator", enc(b"\x00\x02" + nzbytes(rng, k - 2))))
    out.append(("em-zero", bytes(k)))
    for _ in range(6):
        out.append(("random-ciphertext", rng.randrange(n).to_bytes(k, "big")))
    for ml in (0, 1, 48, k - 11):
        out.append(("valid-len", enc(em_valid(rng, k, rbytes(rng, ml)))))
    out.append(("pubinvalid-c=n", n.to_bytes(k, "big")))
    out.append(("pubinvalid-len-k-1", enc(bytes(good))[1:]))
    return out


def construction_path_cases(ctx, replay_inp=None):
    """decrypt() of the same ciphertexts through every object that holds the same key: identical results, equal to the
    reference derived from (d, k, c) alone, equal to the model"""
    import random
    lc = ctx.lean()
    runs = [(b, ctx.rng.getrandbits(48), ctx.rng.getrandbits(48)) for b in ctx.pick([512], [512, 768, 1024])] \
        if replay_inp is None else [(replay_inp["bits"], replay_inp["gen_seed"], replay_inp["ct_seed"])]
    failed = False
    lines, meta = [], []
    for bits, gen_seed, ct_seed in runs:
        nums, objs = key_objects(bits, gen_seed)
        n, d, p, q = nums
        ctx.count("construction-paths:%d" % len(objs))
        for kind, c in path_ciphertexts(random.Random(ct_seed), nums):
            want = ref_decrypt(nums, c)
            res = {name: impl_decrypt(o, c) for name, o in objs.items()}
            res2 = {name: impl_decrypt(o, c) for name, o in objs.items()}       # and again on the now-used objects
            rep = {"stage": "paths", "bits": bits, "gen_seed": gen_seed, "ct_seed": ct_seed, "kind": kind, "c": c.hex(),
                   "key": key_blob(nums), "want": canon(want), "results": {a: canon(b)[:140] for a, b in res.items()}}
            ctx.case(key=("paths", n, c), sample=None)
            ctx.count("paths:" + kind)
            bad = [a for a in res if res[a] != want or res2[a] != want]
            if bad:
                failed = True
                okp = [a for a in res if a not in bad]
                if len(set(canon(v) for v in res.values())) > 1 or any(res[a] != res2[a] for a in res):
                    ctx.violation("c11:decrypt-depends-on-key-object",
                                  "the same RSA key held in different objects decrypts the same ciphertext (%s) differently: %s give "
                                  "%s, %s give the reference result %s" % (kind, bad, canon(res[bad[0]])[:60], okp or "none",
                                                                           canon(want)[:60]), rep)
                else:
                    v = classify(nums, c, res[bad[0]])
                    ctx.violation(v[0], v[1] + " [%s, every construction path of a library-generated %d-bit key]" % (kind, bits), rep)
            if replay_inp is not None:
                continue
            if len(c) == kbytes(n) and int.from_bytes(c, "big") < n:
                sha, hm = tables(n, d, c)
                line = "dec %s %s %s %s %s %s" % (nhex(n), nhex(d), hx(ref_em(nums, c)), hx(c), sha, hm)
            else:
                line = "dec %s %s 00 %s - -" % (nhex(n), nhex(d), hx(c))
            for name in res:
                lines.append(line)
                meta.append((dict(rep, path=name), res[name]))
    if lc is not None and lines:
        uniq = sorted(set(lines))
        ans = dict(zip(uniq, lc.batch(uniq)))
        for line, (rep, impl) in zip(lines, meta):
            ctx.compared()
            if ans[line] != canon(impl):
                ctx.disagree("decrypt-by-construction-path", rep, ans[line], canon(impl))
    return failed


def classify_stub(nums, c, em, impl, want):
    n, d, p, q = nums
    k = kbytes(n)
    if isinstance(impl, str):
        return ("c11:decrypt-exception", "decrypt raised %s (must be total)" % impl)
    if impl is None:
        return ("c11:none-for-publicly-valid", "decrypt returned None for a ciphertext of the right length below the modulus")
    z = [i for i in range(2, k) if em[i] == 0]
    if len(impl) > 0 and (any(impl == em[i + 1:] for i in z) or impl == em[2:]):
        return ("c11:malformed-padding-accepted", "encoded message is not well formed but decrypt returned its tail as the message")
    if len(impl) > k - 11:
        return ("c11:synthetic-too-long", "synthetic message of %d bytes exceeds k-11=%d" % (len(impl), k - 11))
    return ("c11:synthetic-differs-from-reference",
            "invalid padding: returned message (%d bytes) is not the implicit-rejection message derived from (d, ciphertext) alone "
            "(%d bytes)" % (len(impl), len(want)))


# ----------------------------------------------------------------------------------------------
# processClientKeyExchange on a real RSAKeyExchange object
# ----------------------------------------------------------------------------------------------

class _StubKey(object):
    """a private key whose decrypt returns a chosen value (every shape decrypt can return)"""

    def __init__(self, value):
        self.value = value
        self.calls = 0

    def decrypt(self, data):
        self.calls += 1
        return None if self.value is None else bytearray(self.value)


def spec_premaster(dec, rand, cv, sv):
    """from the property: the decrypted value iff 48 bytes with the client-hello or negotiated version"""
    if dec is not None and len(dec) == 48 and ((dec[0], dec[1]) == tuple(cv) or (dec[0], dec[1]) == tuple(sv)):
        return bytes(dec)
    return bytes(rand)


def run_pcke(privkey, enc, cv, sv, rand):
    """call the real processClientKeyExchange with getRandomBytes pinned; returns (result, calls_to_random)"""
    import tlslite.keyexchange as kx
    from tlslite.messages import ClientHello, ServerHello, ClientKeyExchange
    from tlslite.constants import CipherSuite
    ch = ClientHello()
    ch.client_version = tuple(cv)
    sh = ServerHello()
    sh.server_version = tuple(sv)
    suite = CipherSuite.TLS_RSA_WITH_AES_128_CBC_SHA
    ke = kx.RSAKeyExchange(suite, ch, sh, privkey)
    cke = ClientKeyExchange(suite, tuple(sv)).createRSA(bytearray(enc))
    calls = []
    orig = kx.getRandomBytes

    def fake(nbytes):
        calls.append(nbytes)
        return bytearray(rand)
    kx.getRandomBytes = fake
    try:
        try:
            r = ke.processClientKeyExchange(cke)
            r = None if r is None else bytes(r)
        except Exception as e:
            r = "exception:" + type(e).__name__
    finally:
        kx.getRandomBytes = orig
    return r, calls


def pcke_cases(ctx, nums):
    rng = ctx.rng
    lc = ctx.lean()
    n, d, p, q = nums
    k = kbytes(n)
    versions = [(3, 0), (3, 1), (3, 2), (3, 3)]
    lines, meta = [], []

    def check(kind, privkey, enc, dec, cv, sv):
        rand = rbytes(rng, 48)
        r, calls = run_pcke(privkey, enc, cv, sv, rand)
        want = spec_premaster(dec, rand, cv, sv)
        rep = {"stage": "pcke", "kind": kind, "cv": list(cv), "sv": list(sv), "rand": rand.hex(),
               "dec": None if dec is None else bytes(dec).hex(), "enc": bytes(enc).hex(), "key": key_blob(nums),
               "stub": isinstance(privkey, _StubKey), "impl": canon(r), "want": canon(want)}
        ctx.case(key=("pcke", kind, tuple(cv), tuple(sv), None if dec is None else bytes(dec), bytes(enc)), sample=None)
        ctx.count("pcke:" + kind)
        if isinstance(r, str):
            ctx.violation("c11:premaster-substitution-raises", "processClientKeyExchange raised %s on %s (must return 48 bytes)"
                          % (r, kind), rep)
        elif r is None or len(r) != 48:
            ctx.violation("c11:premaster-not-48-bytes", "processClientKeyExchange returned %s on %s"
                          % ("None" if r is None else "%d bytes" % len(r), kind), rep)
        elif r != want:
            what = "used the decrypted value although it must be replaced" if want == rand else \
                "replaced a well-formed premaster secret"
            ctx.violation("c11:premaster-substitution-wrong", "processClientKeyExchange %s (%s, client %s, negotiated %s)"
                          % (what, kind, cv, sv), rep)
        if calls != [48]:
            # not wire-visible (timing only, outside the property text): recorded, not a violation
            ctx.count("pcke-random-draws-not-exactly-one")
            ctx.extra.setdefault("pcke_random_draw_anomalies", []).append({"kind": kind, "calls": calls})
            del ctx.extra["pcke_random_draw_anomalies"][5:]
        lines.append("cke %d %d %d %d %s %s" % (cv[0], cv[1], sv[0], sv[1], hx(rand), "none" if dec is None else hx(dec)))
        meta.append((rep, r))

    for cv in versions:
        for sv in versions:
            if sv > cv:
                continue
            shapes = [("none", None), ("empty", b"")]
            # every version-byte pair around the two accepted values: all of (3,0)..(3,5), (2,x), (4,x), values strictly
            # between the negotiated and the offered version, just outside both, swapped, extremes
            allv = sorted(set([(3, m) for m in range(0, 6)] + [(2, m) for m in (0, 1, 2, 3, 4, 255)] +
                              [(4, m) for m in (0, 1, 2, 3, 4)] + [(0, 0), (1, 3), (255, 255), (3, 255), (cv[1], cv[0]),
                                                                   (sv[1], sv[0]), (cv[0] ^ 1, cv[1]), (cv[0], (cv[1] + 1) % 256),
                                                                   (sv[0], (sv[1] - 1) % 256)] +
                             [(3, m) for m in range(sv[1], cv[1] + 1)]))
            fewv = sorted(set([cv, sv, (3, 4), (2, 0), (cv[0], cv[1] + 1), (sv[0], (sv[1] - 1) % 256)] +
                              [(3, m) for m in range(sv[1] + 1, cv[1])]))
            for ln in (1, 2, 46, 47, 48, 49, 50, 96, k - 11):
                for ver in (allv if ln == 48 else fewv):
                    body = bytearray(rbytes(rng, ln))
                    if ln >= 1:
                        body[0] = ver[0]
                    if ln >= 2:
                        body[1] = ver[1]
                    shapes.append(("len%d-ver%d.%d" % (ln, ver[0], ver[1]), bytes(body)))
            for _ in range(4):
                shapes.append(("random48", rbytes(rng, 48)))
            for kind, dec in shapes:
                check("stub-" + kind.split("-ver")[0] + ("-match" if dec is not None and len(dec) >= 2 and
                                                          tuple(dec[:2]) in (cv, sv) else "-other"),
                      _StubKey(dec), rbytes(rng, 16), dec, cv, sv)
    # through the real key: the decrypted value is whatever the reference says decrypt must return
    key = build_key(nums)
    for cv, sv in (((3, 3), (3, 3)), ((3, 3), (3, 1)), ((3, 1), (3, 0))):
        for kind, pms in (("good", bytes(cv) + rbytes(rng, 46)), ("good-negotiated", bytes(sv) + rbytes(rng, 46)),
                          ("wrong-version", b"\x03\x04" + rbytes(rng, 46)), ("len47", bytes(cv) + rbytes(rng, 45)),
                          ("len49", bytes(cv) + rbytes(rng, 47)), ("len0", b"")):
            em = em_valid(rng, k, pms)
            for defect in ("none", "first", "second", "ps-zero", "nosep"):
                b = bytearray(em)
                if defect == "first":
                    b[0] = 1
                elif defect == "second":
                    b[1] = 1
                elif defect == "ps-zero":
                    b[4] = 0
                elif defect == "nosep":
                    b = bytearray(b"\x00\x02" + nzbytes(rng, k - 2))
                if int.from_bytes(b, "big") >= n:
                    continue
                c = pow(int.from_bytes(b, "big"), E, n).to_bytes(k, "big")
                check("real-%s-%s" % (kind, defect), key, c, ref_decrypt(nums, c), cv, sv)
        for kind, c in (("c>=n", n.to_bytes(k, "big")), ("short", rbytes(rng, k - 1)), ("long", rbytes(rng, k + 1)), ("empty", b""),
                        ("random", rng.randrange(n).to_bytes(k, "big"))):
            check("real-" + kind, key, c, ref_decrypt(nums, c), cv, sv)
    if lc is not None:
        out = lc.batch(lines)
        for (rep, r), m in zip(meta, out):
            ctx.compared()
            if not isinstance(r, (bytes, bytearray)) or m != hx(r):
                ctx.disagree("processClientKeyExchange", rep, m, canon(r))


# ----------------------------------------------------------------------------------------------
# server level: loopback handshakes, the client sends each malformation
# ----------------------------------------------------------------------------------------------

class _Sock(object):
    def __init__(self, inbuf, outbuf):
        self.inbuf = inbuf
        self.outbuf = outbuf
        self.sent = []          # (bytes, number of bytes this side had received when sending, records consumed or None)
        self.received = 0
        self.consumed = None    # callable: records the TLS record layer has consumed (exact), when available

    def send(self, b):
        self.outbuf.extend(b)
        self.sent.append((bytes(b), self.received, None if self.consumed is None else self.consumed()))
        return len(b)

    def sendall(self, b):
        self.send(b)

    def recv(self, n):
        if not self.inbuf:
            raise socket.error(errno.EWOULDBLOCK, "would block")
        r = bytes(self.inbuf[:n])
        del self.inbuf[:n]
        self.received += len(r)
        return r

    def close(self):
        pass


def _records(stream):
    """[(type, length, end offset, body)] of a TLS byte stream"""
    out = []
    i = 0
    while i + 5 <= len(stream):
        ln = (stream[i + 3] << 8) | stream[i + 4]
        out.append((stream[i], ln, i + 5 + ln, bytes(stream[i + 5:i + 5 + ln])))
        i += 5 + ln
    return out


def server_creds(ctx):
    import os
    from tlslite.x509 import X509
    from tlslite.x509certchain import X509CertChain
    from tlslite.utils.keyfactory import parsePEMKey
    with open(os.path.join(ctx.repo, "tests", "serverX509Cert.pem")) as f:
        x = X509()
        x.parse(f.read())
    with open(os.path.join(ctx.repo, "tests", "serverX509Key.pem")) as f:
        key = parsePEMKey(f.read(), private=True, implementations=["python"])
    return X509CertChain([x]), key


def client_creds(ctx):
    import os
    from tlslite.x509 import X509
    from tlslite.x509certchain import X509CertChain
    from tlslite.utils.keyfactory import parsePEMKey
    with open(os.path.join(ctx.repo, "tests", "clientX509Cert.pem")) as f:
        x = X509()
        x.parse(f.read())
    with open(os.path.join(ctx.repo, "tests", "clientX509Key.pem")) as f:
        key = parsePEMKey(f.read(), private=True, implementations=["python"])
    return X509CertChain([x]), key


def craft_enc(rng, pub_n, k, cls, client_version, server_version):
    """(premaster the client will use, encryptedPreMasterSecret bytes) for malformation class `cls`"""
    pms = bytearray(bytes(client_version) + rbytes(rng, 46))

    def enc_em(em):
        v = int.from_bytes(em, "big")
        return pow(v % pub_n, E, pub_n).to_bytes(k, "big")

    good = bytearray(em_valid(rng, k, bytes(pms)))
    if cls == "valid":
        return bytes(pms), enc_em(good)
    if cls == "valid-negotiated-version":
        pms[0], pms[1] = server_version
        return bytes(pms), enc_em(em_valid(rng, k, bytes(pms)))
    if cls.startswith("version-"):
        m = re.match(r"^version-(\d+)\.(\d+)$", cls)
        if m:
            v = (int(m.group(1)), int(m.group(2)))
        else:
            v = {"version-swapped": ((client_version[1], client_version[0]) if client_version[0] != client_version[1]
                                     else (client_version[1] + 1, client_version[0])),
                 "version-minor+1": (client_version[0], client_version[1] + 1),
                 "version-below-negotiated": (server_version[0], (server_version[1] - 1) % 256)}[cls]
        if v in (tuple(client_version), tuple(server_version)):
            raise ValueError("class %s is not a malformation for %s/%s" % (cls, client_version, server_version))
        pms[0], pms[1] = v
        return bytes(pms), enc_em(em_valid(rng, k, bytes(pms)))
    if cls.startswith("pmslen-"):
        ln = int(cls.split("-")[1])
        body = (bytes(client_version) + rbytes(rng, max(0, ln - 2)))[:ln]
        return body if body else bytes(pms), enc_em(em_valid(rng, k, body))
    if cls == "first-byte":
        good[0] = 1
        return bytes(pms), enc_em(good)
    if cls.startswith("second-byte-"):
        good[1] = int(cls.split("-")[2])
        return bytes(pms), enc_em(good)
    if cls.startswith("ps-zero-"):
        good[int(cls.split("-")[2])] = 0
        return bytes(pms), enc_em(good)
    if cls == "no-separator":
        return bytes(pms), enc_em(b"\x00\x02" + nzbytes(rng, k - 2))
    if cls == "em-zero":
        return bytes(pms), bytes(k)
    if cls == "c>=n":
        return bytes(pms), pub_n.to_bytes(k, "big")
    if cls == "c=max":
        return bytes(pms), b"\xff" * k
    if cls == "len-k-1":
        return bytes(pms), enc_em(good)[1:]
    if cls == "len-k+1":
        return bytes(pms), b"\x00" + enc_em(good)
    if cls == "len-k+1-appended":
        return bytes(pms), enc_em(good) + b"\x00"
    if cls == "len-0":
        return bytes(pms), b""
    if cls == "len-1":
        return bytes(pms), b"\x02"
    if cls == "random-ciphertext":
        return bytes(pms), rng.randrange(pub_n).to_bytes(k, "big")
    raise ValueError(cls)


MALFORMED = ["first-byte", "second-byte-1", "second-byte-0", "second-byte-3", "ps-zero-2", "ps-zero-5", "ps-zero-9", "no-separator",
             "em-zero", "pmslen-47", "pmslen-49", "pmslen-0", "pmslen-1", "pmslen-96", "version-3.4", "version-2.0", "version-0.0",
             "version-swapped", "version-minor+1", "c>=n", "c=max", "len-k-1", "len-k+1", "len-k+1-appended", "len-0", "len-1",
             "random-ciphertext"]


def handshake_trace(ctx, creds, client_max, server_ver, cipher, cls, fixed=None, cert=False):
    """run one loopback handshake; returns canonical observation dict"""
    import tlslite.keyexchange as kx
    from tlslite.tlsconnection import TLSConnection
    from tlslite.handshakesettings import HandshakeSettings
    chain, key = creds
    rng = ctx.rng
    a, b = bytearray(), bytearray()
    cs, ss = _Sock(a, b), _Sock(b, a)
    conn_c, conn_s = TLSConnection(cs), TLSConnection(ss)

    def settings(vmin, vmax):
        st = HandshakeSettings()
        st.keyExchangeNames = ["rsa"]
        st.minVersion = vmin
        st.maxVersion = vmax
        st.cipherNames = [cipher]
        return st
    # exact count of the records the server's record layer has consumed (the socket is read through a 4 kB buffer,
    # so bytes received say little): wrap recvRecord of this connection object
    rl = getattr(conn_s, "_recordLayer", None)
    if rl is not None and hasattr(rl, "recvRecord"):
        nrec = [0]
        orig_recv = rl.recvRecord

        def counting_recv():
            try:
                for r in orig_recv():
                    if isinstance(r, tuple):
                        nrec[0] += 1
                    yield r
            except Exception:
                nrec[0] += 1          # the record was read and rejected
                raise
        rl.recvRecord = counting_recv
        ss.consumed = lambda: nrec[0]
    sent = {}
    orig = kx.RSAKeyExchange.processServerKeyExchange

    def patched(self, srvPublicKey, serverKeyExchange):
        n = int(srvPublicKey.n)
        k = kbytes(n)
        if fixed is not None:
            pms, enc = bytes.fromhex(fixed["pms"]), bytes.fromhex(fixed["enc"])
        else:
            pms, enc = craft_enc(rng, n, k, cls, tuple(self.clientHello.client_version), tuple(self.serverHello.server_version))
        sent["pms"], sent["enc"] = pms.hex(), enc.hex()
        self.encPremasterSecret = bytearray(enc)
        return bytearray(pms)
    kx.RSAKeyExchange.processServerKeyExchange = patched
    res = {}
    try:
        ckw, skw = {}, {}
        if cert:
            cchain, ckey = client_creds(ctx)
            ckw = {"certChain": cchain, "privateKey": ckey}
            skw = {"reqCert": True}
        gens = {"client": conn_c.handshakeClientCert(settings=settings(server_ver, client_max), async_=True, **ckw),
                "server": conn_s.handshakeServerAsync(certChain=chain, privateKey=key, settings=settings(server_ver, server_ver),
                                                      **skw)}
        idle = 0
        while gens and idle < 8:
            for name in ("client", "server"):
                if name not in gens:
                    continue
                try:
                    next(gens[name])
                except StopIteration:
                    res[name] = ("done",)
                    del gens[name]
                except Exception as e:
                    res[name] = (type(e).__name__, getattr(e, "description", None), getattr(e, "level", None))
                    del gens[name]
            idle = idle + 1 if (not a and not b) else 0
        for name in gens:
            res[name] = ("stalled",)
    finally:
        kx.RSAKeyExchange.processServerKeyExchange = orig
    # canonical server trace: per emitted record (type, length | alert level+description, client records consumed so far)
    client_stream = b"".join(x[0] for x in cs.sent)
    ends = [e for (_, _, e, _) in _records(client_stream)]
    trace = []
    enc_flags = []
    encrypted = False
    exact = all(x[2] is not None for x in ss.sent)
    for chunk, got, cnt in ss.sent:
        consumed = cnt if exact else len([e for e in ends if e <= got])
        for (t, ln, _, body) in _records(chunk):
            if t == 21 and not encrypted and ln == 2:
                trace.append(["alert", body[0], body[1], consumed])
            else:
                trace.append([t, ln, consumed])
            enc_flags.append(encrypted)
            if t == 20:
                encrypted = True
    # which client record carries ClientKeyExchange (cleartext handshake record starting with type 16)
    cke_index = None
    for i, (t, ln, _, body) in enumerate(_records(client_stream)):
        if t == 20:
            break
        if t == 22 and ln > 0 and body[0] == 16:
            cke_index = i + 1
            break
    return {"server": list(res.get("server", ("none",))), "client": list(res.get("client", ("none",))), "trace": trace,
            "client_records": len(ends), "server_closed": bool(conn_s.closed),
            "server_resumable": bool(conn_s.session is not None and conn_s.session.resumable),
            "sent": sent, "enc_flags": enc_flags, "cke_index": cke_index if exact else None, "ems": bool(conn_s.extendedMasterSecret),
            "client_version": list(client_max)}


def model_server_line(ctx, o, ver, cert, nums, rand):
    """request line for the Lean server model and the observed post-ClientKeyExchange behaviour in its notation"""
    if o.get("cke_index") is None or "enc" not in o["sent"]:
        return None
    enc = bytes.fromhex(o["sent"]["enc"])
    dec = ref_decrypt(nums, enc)
    cv = o["client_version"]
    line = "srv %d %d %d %d 1 %d %d %s %s %s %d" % (ver[0], ver[1], 1 if o["ems"] else 0, 1 if cert else 0, cv[0], cv[1], hx(rand),
                                                   "none" if dec is None else hx(dec), hx(bytes.fromhex(o["sent"]["pms"])),
                                                   o["cke_index"])
    ents = []
    for e, encf in zip(o["trace"], o["enc_flags"]):
        if e[-1] < o["cke_index"]:
            continue
        if e[0] == "alert":
            ents.append("alert:%d:%d@%d" % (e[1], e[2], e[3]))
        elif encf:
            ents.append("%d:e@%d" % (e[0], e[2]))
        else:
            ents.append("%d:p%d@%d" % (e[0], e[1], e[2]))
    sv = o["server"]
    if sv == ["done"]:
        out = "done"
    elif sv[0] == "TLSLocalAlert":
        out = "localAlert:%s" % sv[1]
    elif sv[0] == "TLSRemoteAlert":
        out = "remoteAlert:%s:%s" % (sv[2], sv[1])
    elif sv == ["stalled"]:
        out = "wouldBlock"
    else:
        out = "exception:" + str(sv[0])
    return line, (",".join(ents) if ents else "-") + " " + out


def server_cases(ctx):
    creds = server_creds(ctx)
    configs = []
    for ver in ((3, 0), (3, 1), (3, 2), (3, 3)):
        configs.append((ver, ver, "aes128"))
    configs.append(((3, 3), (3, 3), "aes128gcm"))
    for ver in ((3, 0), (3, 1), (3, 2)):
        configs.append(((3, 3), ver, "aes128"))          # client offers 1.2, negotiated lower: two accepted version values
    configs.append(((3, 2), (3, 0), "aes128"))
    if ctx.thorough():
        for ver in ((3, 1), (3, 3)):
            configs.append((ver, ver, "3des"))
            configs.append((ver, ver, "aes256"))
        configs.append(((3, 3), (3, 3), "aes256gcm"))
    configs = [c + (False,) for c in configs]
    # with a client certificate (CertificateVerify between ClientKeyExchange and ChangeCipherSpec)
    for ver in ((3, 0), (3, 1), (3, 3)) if not ctx.thorough() else ((3, 0), (3, 1), (3, 2), (3, 3)):
        configs.append((ver, ver, "aes128", True))
    srv_nums = pem_key_numbers(ctx)
    model_lines, model_meta = [], []
    for client_max, ver, cipher, cert in configs:
        cfg = {"client_max": list(client_max), "version": list(ver), "cipher": cipher, "cert": cert}

        def obs(cls, fixed=None):
            o = handshake_trace(ctx, creds, client_max, ver, cipher, cls, fixed, cert=cert)
            ctx.case(key=("srv", client_max, ver, cipher, cert, cls, o["sent"].get("enc")), sample=None)
            ctx.count("server:%d.%d/%s%s" % (ver[0], ver[1], cipher, "+clientcert" if cert else ""))
            ml = model_server_line(ctx, o, ver, cert, srv_nums, rbytes(ctx.rng, 48))
            if ml is None:
                ctx.count("server-model-tie-skipped")
            else:
                model_lines.append(ml[0])
                model_meta.append((dict(cfg, stage="server", cls=cls, observation=o, fixed=o["sent"]), ml[1]))
            return o
        valid = obs("valid")
        rep0 = dict(cfg, stage="server", cls="valid", observation=valid, fixed=valid["sent"])
        if valid["server"] != ["done"] or valid["client"] != ["done"]:
            ctx.violation("c11:valid-rsa-handshake-fails", "RSA key exchange handshake with a well-formed premaster secret fails: %s / %s"
                          % (valid["server"], valid["client"]), rep0)
            continue
        good_classes = ["valid"] * ctx.pick(1, 3)
        if tuple(client_max) != tuple(ver):
            good_classes.append("valid-negotiated-version")
        for cls in good_classes:
            o = obs(cls)
            if (o["server"], o["client"], o["trace"]) != (valid["server"], valid["client"], valid["trace"]):
                ctx.violation("c11:valid-rsa-handshake-fails",
                              "well-formed premaster secret (%s) not accepted like the baseline: server %s trace %s"
                              % (cls, o["server"], o["trace"][-2:]), dict(cfg, stage="server", cls=cls, observation=o, fixed=o["sent"],
                                                                          baseline=valid))
        classes = list(MALFORMED)
        if tuple(client_max) != tuple(ver):
            classes.append("version-below-negotiated")
        # wrong version bytes: every (3,m) that is neither the offered nor the negotiated version (strictly between,
        # just above the offered, just below the negotiated), and neighbours with another major byte
        cvv = tuple(client_max)
        for v in [(3, m) for m in range(0, 6)] + [(2, cvv[1]), (2, ver[1]), (4, cvv[1]), (4, ver[1]), (2, 255), (4, 0)]:
            name = "version-%d.%d" % v
            if v not in (cvv, tuple(ver)) and name not in classes:
                classes.append(name)
        base = None
        for cls in classes:
            for _ in range(ctx.pick(1, 3)):
                o = obs(cls)
                view = (o["server"], o["trace"], o["server_closed"], o["server_resumable"])
                rep = dict(cfg, stage="server", cls=cls, observation=o, fixed=o["sent"])
                if o["server"] == ["done"]:
                    ctx.violation("c11:server-accepts-malformed-premaster",
                                  "server completed the handshake although the encrypted premaster secret was malformed (%s, %s)"
                                  % (cls, cfg), rep)
                    continue
                if base is None:
                    base = (cls, view, o)
                    # relation to the valid run: identical up to the point where the valid server answers the
                    # client's Finished; the failure must come only after the client's Finished was read
                    tr = o["trace"]
                    common = 0
                    while common < len(tr) and common < len(valid["trace"]) and tr[common] == valid["trace"][common]:
                        common += 1
                    tail = tr[common:]
                    ok = (len(tail) == 1 and tail[0][0] == "alert" and tail[0][3] == o["client_records"]
                          and all(x[-1] < o["client_records"] for x in tr[:common])
                          and common == len([x for x in valid["trace"] if x[-1] < valid["client_records"]]))
                    if cert and tuple(ver) == (3, 0):
                        # SSLv3 signs the master secret in CertificateVerify (calcVerifyBytes): a replaced premaster
                        # already fails there, for every malformation alike; the model predicts it (tie below)
                        ok = True
                    if not ok:
                        ctx.violation("c11:server-fails-before-finished",
                                      "malformed premaster (%s): the server's trace %s departs from the valid run before the client's "
                                      "Finished is verified (valid: %s)" % (cls, tr, valid["trace"]), dict(rep, baseline=valid))
                elif view != base[1]:
                    ctx.violation("c11:server-trace-differs-across-malformations",
                                  "server behaves differently for malformation %r than for %r (%s): %s / %s  vs  %s / %s"
                                  % (cls, base[0], cfg, o["server"], o["trace"][-2:], base[2]["server"], base[2]["trace"][-2:]),
                                  dict(rep, other_cls=base[0], other_observation=base[2], other_fixed=base[2]["sent"]))
    # ---- tie: the Lean model of the server path after ClientKeyExchange predicts each observed run
    lc = ctx.lean()
    if lc is not None and model_lines:
        out = lc.batch(model_lines)
        for (rep, real), m in zip(model_meta, out):
            ctx.compared()
            if re.sub(r":e\d+@", ":e@", m) != real:
                ctx.disagree("server-after-cke", rep, m, real)


# ----------------------------------------------------------------------------------------------

def small_helpers(ctx):
    """numBits / numBytes of the model vs cryptomath (they fix k and the length mask)"""
    lc = ctx.lean()
    if lc is None:
        return
    from tlslite.utils.cryptomath import numBits, numBytes
    rng = ctx.rng
    vals = [0, 1, 2, 3, 7, 8, 117, 118, 127, 128, 129, 245, 246, 255, 256, 257, 65535, 65536, (1 << 1024) - 1, 1 << 1024]
    vals += [rng.getrandbits(rng.randrange(1, 2100)) for _ in range(40)]
    lines, exp = [], []
    for v in vals:
        lines += ["nbits " + nhex(v), "nbytes " + nhex(v)]
        exp += [str(numBits(v)), str(numBytes(v))]
    for l, o, e in zip(lines, lc.batch(lines), exp):
        ctx.compared()
        ctx.case(key=("nb", l), sample=None)
        if o != e:
            ctx.disagree("numBits/numBytes", l, o, e)
    # the plain parse of the model vs the Python reference parse
    lines, exp = [], []
    for k in (11, 12, 64):
        for kind, em in gen_ems(ctx, k):
            m = ref_unpad(em)
            lines.append("parse " + hx(em))
            exp.append("none" if m is None else str(k - len(m)))
    for l, o, e in zip(lines, lc.batch(lines), exp):
        ctx.compared()
        if o != e:
            ctx.disagree("parseEM-vs-python-reference", l, o, e)


def keys_for_run(ctx):
    rng = ctx.rng
    sizes = [512, 592, 1024, 1025, 1032, 1104] if not ctx.thorough() else [512, 520, 592, 768, 1024, 1025, 1031, 1032, 1104, 1536, 2049]
    res = [("gen%d" % b, make_key_numbers(b, rng)) for b in sizes]
    res.append(("pem2048", pem_key_numbers(ctx)))
    if ctx.thorough():
        res.append(("gen2048", make_key_numbers(2048, rng)))
    return res


def run(ctx):
    ctx.rule = ("per key (generated 512..2048-bit incl. odd sizes and k-10 a power of two, plus tests/serverX509Key.pem): valid "
                "messages of every length 0..k-11, every defect class (first byte, second byte, zero at each of the first eight "
                "PS positions, no separator, separator at each boundary position / every position, degenerate EMs), c>=n, c=n-1, "
                "wrong lengths, leading zeros, random ciphertexts; stubbed private operation: one ciphertext x every defect; "
                "processClientKeyExchange: every decrypt result shape x version pairs; loopback handshakes: version x cipher x "
                "malformation class; distinct = distinct (key, ciphertext[, EM]) / (config, class, bytes)")
    ctx.assumptions = ["hashlib SHA-256 / hmac and CPython pow are correct (they supply the oracle tables and the reference)",
                       "the reference implicit-rejection derivation in harness/props/c11.py (written from the algorithm description, "
                       "sees only d, k and the ciphertext) is the property's reading of 'fixed pseudo-random message'",
                       "Lean theorems: HMAC output is 32 bytes; 11 <= k < 65536",
                       "translate/gen_rsadecrypt.py renders the Python AST faithfully into Tls.Py/Tls.PyE (TlsModel/PyInt.lean, "
                       "PyExc.lean); cryptomath helpers, SHA-256, HMAC, the private-key operation and getRandomBytes are parameters"]
    keys = keys_for_run(ctx)
    ctx.extra["keys"] = [{"label": l, "bits": nums[0].bit_length(), "k": kbytes(nums[0])} for l, nums in keys]
    small_helpers(ctx)
    for label, nums in keys:
        decrypt_cases(ctx, nums, label)
    for label, nums in keys:
        if label in ("gen512", "gen1025", "gen1104", "pem2048") or ctx.thorough():
            uniformity_cases(ctx, nums, label)
    for label, nums in keys:
        synth_select_cases(ctx, nums, label)
    construction_path_cases(ctx)
    pcke_cases(ctx, keys[2][1])
    server_cases(ctx)
    cryptomath_oracle(ctx)
    broken = gen_obligations_broken(ctx)
    if broken:
        # the regenerated source no longer computes the hand model: look for a concrete input on which
        # the real code leaves the property (all streams above already ran; this widens them)
        ctx.extra["gen_obligations_broken"] = broken
        if not any(v["found"] for v in ctx.violations):
            deep_search(ctx, keys)


def cryptomath_oracle(ctx, prefix="c11", deep=False):
    """direct oracle: cryptomath's number <-> bytes helpers of the tree under check against their plain
    specification (int.bit_length, big/little endian positional notation, ceiling division)"""
    from tlslite.utils import cryptomath as cm
    rng = ctx.rng
    vals = [0, 1, 2, 127, 128, 255, 256, 257, 65535, 65536, (1 << 64) - 1, 1 << 64, (1 << 1023), (1 << 1024) - 1, 1 << 1024]
    vals += [rng.getrandbits(rng.choice([7, 8, 9, 15, 16, 17, 63, 64, 65, 511, 512, 513, 1031])) for _ in range(60 if deep else 20)]

    def call(f, *a):
        try:
            r = f(*a)
        except Exception as e:
            return "exception:" + type(e).__name__
        return bytes(r) if isinstance(r, (bytes, bytearray)) else r

    def check(name, args, got, want):
        ctx.count("cryptomath-oracle")
        if got != want:
            ctx.violation("%s:cryptomath-%s" % (prefix, name),
                          "cryptomath.%s%r returned %r, its specification says %r" % (name, tuple(args), got, want),
                          {"stage": "cryptomath", "fn": name, "args": [a if not isinstance(a, bytes) else a.hex() for a in args],
                           "got": repr(got), "want": repr(want)})

    for v in vals:
        bl = v.bit_length()
        nb = (bl + 7) // 8
        check("numBits", [v], call(cm.numBits, v), bl)
        check("numBytes", [v], call(cm.numBytes, v), nb)
        for k in sorted(set([0, 1, 2, 4, nb - 1 if nb else 0, nb, nb + 1, nb + 5])):
            full = v.to_bytes(max(nb, k), "big")
            check("numberToByteArray", [v, k], call(cm.numberToByteArray, v, k), full[len(full) - k:] if k else b"")
            check("numberToByteArray-little", [v, k, "little"], call(cm.numberToByteArray, v, k, "little"),
                  (full[len(full) - k:] if k else b"")[::-1])
        check("numberToByteArray-none", [v], call(cm.numberToByteArray, v), v.to_bytes(max(nb, 1), "big"))
        b = v.to_bytes(nb + rng.randrange(0, 3), "big")
        check("bytesToNumber", [b], call(cm.bytesToNumber, bytearray(b)), v)
        check("bytesToNumber-little", [b, "little"], call(cm.bytesToNumber, bytearray(b), "little"),
              int.from_bytes(b, "little"))
        for d in (1, 2, 7, 8, 9, 32, 64):
            check("divceil", [v, d], call(cm.divceil, v, d), -(-v // d))
    ctx.case(key=("cryptomath-oracle", prefix, deep), sample=None)


def gen_obligations_broken(ctx):
    b = ctx.build or {}
    return [t for t in b.get("failed", []) if ".gen_" in t or ".ct_" in t or t.startswith("Props.")]


def deep_search(ctx, keys):
    """run when a gen_* obligation fails and nothing above produced a concrete failing input: the ct_*
    helpers against their specification (wide), then the decrypt / uniformity / synthetic-selection /
    processClientKeyExchange streams on further key sizes: the smallest the property applies to, sizes
    around powers of two of k-10 (length mask), an odd large one.  Problems of the search itself are not
    violations."""
    from . import c12
    try:
        c12.helper_oracle(ctx, deep=True, prefix="c11")
        cryptomath_oracle(ctx, deep=True)
    except Exception as e:
        ctx.count("deep-search-error:helper:" + type(e).__name__)
    sizes = [136, 200, 208, 264, 272, 584, 600, 1112, 2056]
    for bits in sizes:
        if any(v["found"] for v in ctx.violations):
            return
        try:
            nums = make_key_numbers(bits, ctx.rng)
            label = "deep%d" % bits
            decrypt_cases(ctx, nums, label)
            uniformity_cases(ctx, nums, label)
            synth_select_cases(ctx, nums, label)
        except Exception as e:
            ctx.count("deep-search-error:%d:%s" % (bits, type(e).__name__))
    try:
        for label, nums in keys[:2]:
            pcke_cases(ctx, nums)
    except Exception as e:
        ctx.count("deep-search-error:pcke:" + type(e).__name__)


# ----------------------------------------------------------------------------------------------

def replay(ctx, rep):
    inp = rep["input"]
    stage = inp.get("stage")
    if stage == "paths":
        failed = construction_path_cases(ctx, inp)
        for v in ctx.violations:
            print(v["what"][:300])
        return failed
    if stage == "helper":
        from . import c12
        return c12.replay(ctx, rep)
    if stage == "cryptomath":
        n0 = len(ctx.violations)
        cryptomath_oracle(ctx, prefix=rep.get("key", "c11:").split(":")[0], deep=True)
        for v in ctx.violations[n0:]:
            print(v["what"][:300])
        return len(ctx.violations) > n0
    if stage == "decrypt":
        nums = blob_key(inp["key"])
        c = bytes.fromhex(inp["c"])
        key = build_key(nums)
        impl = impl_decrypt(key, c)
        again = impl_decrypt(key, c)
        want = ref_decrypt(nums, c)
        print("implementation:", canon(impl)[:100], " property demands:", canon(want)[:100])
        return impl != want or impl != again
    if stage == "uniformity":
        nums = blob_key(inp["key"])
        c = bytes.fromhex(inp["c"])
        outs = []
        for e in (inp["em"], inp.get("other_em")):
            if not e:
                continue
            key = build_key(nums)
            key._rawPrivateKeyOp = (lambda v: (lambda m: v))(int(e, 16))
            outs.append(impl_decrypt(key, c))
        want = ref_synthetic(nums[0], nums[1], c)
        print("implementation:", [canon(o)[:80] for o in outs], " reference synthetic:", canon(want)[:80])
        return any(o != want for o in outs) or len(set(canon(o) for o in outs)) > 1
    if stage == "synth-select":
        nums = blob_key(inp["key"])
        k = kbytes(nums[0])
        lr, mr, c = bytes.fromhex(inp["lr"]), bytes.fromhex(inp["mr"]), bytes.fromhex(inp["c"])
        key = build_key(nums)
        key._rawPrivateKeyOp = (lambda v: (lambda m: v))(int(inp["em"], 16))
        key._dec_prf = lambda key_, label_, out_len: bytearray((lr if bytes(label_) == b"length" else mr)[:out_len // 8])
        impl = impl_decrypt(key, c)
        print("implementation:", canon(impl)[:100], " property demands:", inp["want"][:100])
        return canon(impl) != inp["want"]
    if stage == "pcke":
        cv, sv = tuple(inp["cv"]), tuple(inp["sv"])
        rand = bytes.fromhex(inp["rand"])
        dec = None if inp["dec"] is None else bytes.fromhex(inp["dec"])
        priv = _StubKey(dec) if inp["stub"] else build_key(blob_key(inp["key"]))
        r, calls = run_pcke(priv, bytes.fromhex(inp["enc"]), cv, sv, rand)
        want = spec_premaster(dec, rand, cv, sv)
        print("implementation:", canon(r)[:110], "random draws:", calls, " property demands:", canon(want)[:110])
        return r != want
    if stage == "server":
        creds = server_creds(ctx)
        client_max, ver, cipher = tuple(inp["client_max"]), tuple(inp["version"]), inp["cipher"]
        cert = bool(inp.get("cert", False))
        o = handshake_trace(ctx, creds, client_max, ver, cipher, inp["cls"], inp.get("fixed"), cert=cert)
        print("class %s: server %s trace %s" % (inp["cls"], o["server"], o["trace"]))
        if inp["cls"].startswith("valid"):
            return o["server"] != ["done"] or o["client"] != ["done"]
        if o["server"] == ["done"]:
            return True
        # compare with reference malformations generated now
        bad = False
        for other in ("second-byte-1", "no-separator", "pmslen-47", "len-k-1"):
            r = handshake_trace(ctx, creds, client_max, ver, cipher, other, cert=cert)
            print("class %s: server %s trace %s" % (other, r["server"], r["trace"]))
            if (r["server"], r["trace"]) != (o["server"], o["trace"]):
                bad = True
        valid = handshake_trace(ctx, creds, client_max, ver, cipher, "valid", cert=cert)
        if valid["server"] == ["done"] and not (cert and ver == (3, 0)):
            pre = [x for x in valid["trace"] if x[-1] < valid["client_records"]]
            if o["trace"][:len(pre)] != pre or len(o["trace"]) != len(pre) + 1 or o["trace"][-1][-1] != o["client_records"]:
                bad = True
        return bad
    print("replay of stage %r: re-running the whole check" % stage)
    run(ctx)
    return bool(ctx.violations or ctx.disagreements)
