"""C06 — handshake messages are accepted only in the order the protocol allows.

Lean: lean/TlsModel/Order.lean (receive automaton mirroring the `_getMsg` call sequence of the
client/server flows + `_getMsg`'s own rules, and a separately written RFC grammar `allowed`),
lean/Props/C06.lean (accepted_in_grammar_partial + witnesses of the exceptions,
deviation_aborts_before_data, renegotiation_refused), lean/Drv/C06.lean.

Tie: honest message traces are recorded from lab handshakes for every configuration that can be
set up; then one endpoint is the victim and the other a cooperating peer whose OUTGOING MESSAGE
SEQUENCE is edited in front of its send path (skip / duplicate / swap adjacent / insert a message
of another type / replace / application data before Finished / wrong-epoch record).  What the peer
really emitted (kind, key epoch, coalescing) is fed to the automaton and its verdict
(complete / abort position+alert / waiting, messages accepted, bytes delivered, read epoch) is
compared with the real victim.

Direct oracle (independent of the automaton): a Python grammar written from RFC 5246 7.3 /
RFC 8446 2,4 / RFC 5054 / RFC 5077 / the NPN draft; the victim must not complete on a received
sequence outside the grammar, must not deliver application data without completing, must abort
with a fatal alert on the wire and a closed connection, and must refuse renegotiation.
"""
import copy

from ..leanclient import hx  # noqa: F401  (kept for symmetry with other modules)

TRANSLATORS = ["order"]

MANIFEST = {
    "text": "Proof: Tls.Order.step/feed/run/hsRun (hand-written Lean model of the receive automaton induced by the _getMsg call "
            "sequence of _handshakeClientAsyncHelper/_clientGetServerHello/_clientKeyExchange/_clientTLS13Handshake/"
            "_handshakeServerAsyncHelper/_serverGetClientHello/_serverCertKeyExchange/_serverTLS13Handshake/_getFinished/readAsync plus "
            "_getMsg's own gate: content type, handshake type, TLS 1.3 CCS tolerance while _middlebox_compat_mode, record-boundary "
            "alignment, key epochs incl. the unprotected-alert window, heartbeat, renegotiation refusal) is proved, for all 744 "
            "negotiable configurations (role x version family x key exchange x client auth x client cert x tickets x NPN x HRR x "
            "resumption x compressed certificates x heartbeat x compat) and message sequences of ANY length, to reach _handshakeDone "
            "only on sequences of the separately written RFC grammar Tls.Order.allowed (accepted_in_grammar, full strength: generic "
            "induction checkFrom_sound over the only cycles = dropped transparent records, plus one kernel evaluation of the bounded "
            "exploration per role x version family); every message from every handshake position is accepted in order, dropped as a "
            "transparent record, or ends the connection with a fatal alert / the peer's alert (deviation_aborts_before_data), "
            "application data is never enabled before completion and never delivered without it, the first deviation is final "
            "(first_deviation_is_final, no_data_before_completion); after completion no input re-enters the handshake, the attempt is "
            "answered by a no_renegotiation warning (<=1.2) or fatal unexpected_message (1.3) and _handshakeStart raises "
            "(renegotiation_refused, renegotiation_attempt_answer, handshakeStart_open_raises); the post-handshake phase (readAsync "
            "dispatch by role, TLS 1.3 post-handshake authentication flights, KeyUpdate, NewSessionTicket, <=1.2 renegotiation "
            "attempts, heartbeat, the close-wait loop of _decrefAsync) is part of the automaton and proved, for event sequences of "
            "any length, to stay inside the separately written post-handshake grammar postSpec unless a fatal alert is sent, and "
            "conversely every deviation is fatal (post_handshake_in_grammar, post_handshake_deviation_fatal); records are modelled "
            "as pieces (whole / head / tail of a handshake message) with the defragmenter, the TLS 1.3 interleaving rule, the "
            "alignment checks of _getMsg and of the first hello, and the <=1.2 check in _getFinished, and whenever read keys "
            "change nothing is buffered and the triggering message ends its record (no_message_spans_key_change, all versions); "
            "TIE BY REGENERATION: translate/gen_order.py rewrites lean/TlsModel/Gen/Order.lean on every run from the AST of "
            "tlsconnection.py / tlsrecordlayer.py (every _getMsg with its expected types, the variables holding such types, the "
            "guards as named atoms, sends, key changes, defragmenter checks, order-level _sendErrors, readAsync's dispatch, "
            "_getMsg's aligned types; unknown shapes are poison) and the kernel decides for all valid configurations that the "
            "transcribed flows complete on exactly the grammar's sentences, admit no type the grammar forbids, guard every "
            "key change and match the automaton's post-handshake dispatch (gen_expectations_match_grammar, "
            "gen_no_extra_type_admitted, gen_key_change_guarded, gen_post_dispatch_matches); "
            "regression theorems pin the "
            "order defects this check found (server took a client NewSessionTicket, server dropped a mid-handshake ClientHello, "
            "client NewSessionTicket leniency both ways). Tie: single (quick) and additionally double (thorough) deviations of "
            "honest traces replayed to live endpoints through a real peer with an edited send path; verdict, alert, position, "
            "messages handed out, read epoch and delivered bytes compared with the automaton; Lean grammar vs independent Python "
            "grammar compared on every received sequence.",
    "note": "Trusted: Lean kernel (axioms propext, Classical.choice, Quot.sound), the hand extraction of the automaton from the "
            "flow code (its fidelity is what the correspondence samples: it caught three concurrent code changes while being "
            "built), the lab, the Python RFC grammar. Not modelled: message contents (signatures, verify_data, extensions, PHA request contexts; "
            "a foreign-content message the automaton accepts ends the exact comparison there), fragments beyond head/tail of one "
            "message (bytes glued to an unrelated fragment are the class `garbled`), early data, client_cert_required policy, "
            "heartbeat policy other than peer_allowed_to_send, "
            "SSLv2-framed ClientHello, TACK, DTLS. A record under foreign keys is compared as a class (never proceeds).",
    "technique": "Lean 4 proof: generic induction + kernel-evaluated bounded exploration over an explicit enumeration; "
                 "differential correspondence automaton vs live endpoints under edited peer traces; RFC grammar oracle",
}

VERS = {"ssl3": (3, 0), "tls10": (3, 1), "tls11": (3, 2), "tls12": (3, 3), "tls13": (3, 4)}

# ---------------------------------------------------------------------------------------------
# scenarios: how the two endpoints are configured
_STATE = {}


def verifier_db():
    if "db" not in _STATE:
        from tlslite.verifierdb import VerifierDB
        db = VerifierDB()
        db.create()
        db[b"alice"] = VerifierDB.makeVerifier(b"alice", b"password", 1024)
        _STATE["db"] = db
    return _STATE["db"]


def scn_name(scn):
    keys = ["ver", "kx"] + sorted(k for k in scn if k not in ("ver", "kx") and scn[k])  # incl. nosid
    return ",".join("%s=%s" % (k, scn[k]) if k in ("ver", "kx", "res", "psk_mode") else k for k in keys)


def mk_settings(scn, side):
    from harness import lab
    v = VERS[scn["ver"]]
    s = lab.settings(minv=v, maxv=v)
    kx = scn["kx"]
    if v == (3, 4):
        s.eccCurves = [c for c in s.eccCurves if not c.startswith("brainpool")]
        if scn.get("hrr"):
            if side == "client":
                s.keyShares = ["x25519"]
            else:
                s.eccCurves = ["secp384r1"]
                s.dhGroups = []
                s.keyShares = []
        if kx == "dhe":
            s.eccCurves = []
            s.keyShares = ["ffdhe2048"]
            s.dhGroups = ["ffdhe2048"]
        if kx == "psk":
            s.pskConfigs = [(b"ident", b"\x11" * 32, "sha256")]
            s.psk_modes = [scn.get("psk_mode", "psk_dhe_ke")]
        if scn.get("nocomp") and side == "client":
            # (a server with an empty certificate_compression_receive list puts an EMPTY
            # compress_certificate extension into its CertificateRequest, which the client refuses
            # with TLSDecodeError - so only the client side switches compression off)
            s.certificate_compression_send = []
            s.certificate_compression_receive = []
    else:
        names = {"rsa": ["rsa"], "dhe": ["dhe_rsa"], "ecdhe": ["ecdhe_rsa"], "ecdsa": ["ecdhe_ecdsa"],
                 "srp": ["srp_sha"], "srpcert": ["srp_sha_rsa"], "anon": ["dh_anon"], "ecanon": ["ecdh_anon"]}[kx]
        s.keyExchangeNames = names
        if kx in ("dhe", "anon"):
            s.dhGroups = ["ffdhe2048"]
    if scn.get("nohb"):
        s.use_heartbeat_extension = False
    if scn.get("nocomp_srv") and side == "server" and v == (3, 4):
        # the server does not offer compress_certificate in its CertificateRequest
        s.certificate_compression_receive = []
    if side == "server":
        if scn.get("tickets"):
            s.ticketKeys = [b"\x22" * 32]
            s.ticket_count = 1
        else:
            s.ticket_count = 0
    return s


def start(scn, L, session=None, cache=None):
    """start both handshake generators of scenario `scn` on lab L"""
    from harness import lab
    cs = mk_settings(scn, "client")
    ss = mk_settings(scn, "server")
    kx = scn["kx"]
    chain, key = lab.creds("ecdsa" if kx == "ecdsa" else "rsa")
    skw = {}
    if scn.get("reqcert"):
        skw["reqCert"] = True
    if scn.get("npn"):
        skw["nextProtos"] = [b"http/1.1"]
    if cache is not None:
        skw["sessionCache"] = cache
    if kx in ("srp", "srpcert"):
        L.start_client(lambda c: c.handshakeClientSRP(bytearray(b"alice"), bytearray(b"password"),
                                                      session=session, settings=cs, async_=True))
        skw["verifierDB"] = verifier_db()
        if kx == "srpcert":
            skw.update(certChain=chain, privateKey=key)
    elif kx in ("anon", "ecanon"):
        L.start_client(lambda c: c.handshakeClientAnonymous(session=session, settings=cs, async_=True))
        skw["anon"] = True
    else:
        ckw = {}
        if scn.get("clientcert") or scn.get("keypair"):
            cc, ck = lab.creds("client_rsa")
            ckw.update(certChain=cc, privateKey=ck)
        if scn.get("npn"):
            ckw["nextProtos"] = [b"http/1.1"]
        L.start_client(lambda c: c.handshakeClientCert(session=session, settings=cs, async_=True, **ckw))
        skw.update(certChain=chain, privateKey=key)
    L.start_server(lambda c: c.handshakeServerAsync(settings=ss, **skw))
    if scn.get("nosid"):
        # a TLS 1.3 client that does not use middlebox compatibility mode: empty legacy_session_id.
        # The ClientHello OBJECT is changed before it is serialised and hashed, and the client keeps
        # using that object (echo check, "send a CCS?"), so the endpoint stays self-consistent.
        cconn = L.client.conn
        orig_send = cconn._sendMsg

        def strip_sid(msg):
            if type(msg).__name__ == "ClientHello":
                msg.session_id = bytearray(0)

        def send_nosid(msg, *a, **kw):
            strip_sid(msg)
            for r in orig_send(msg, *a, **kw):
                yield r
        cconn._sendMsg = send_nosid
        cconn._c06_pre = strip_sid          # the Editor sends through the class method: it calls this first


# ---------------------------------------------------------------------------------------------
# message kinds (names shared with Tls.Order.MsgKind)
HS_KINDS = {0: "hello_request", 1: "client_hello", 2: "server_hello", 4: "new_session_ticket",
            5: "end_of_early_data", 8: "encrypted_extensions", 11: "certificate",
            12: "server_key_exchange", 13: "certificate_request", 14: "server_hello_done",
            15: "certificate_verify", 16: "client_key_exchange", 20: "finished", 22: "certificate_status",
            24: "key_update",
            25: "compressed_certificate", 67: "next_protocol"}
HRR_RANDOM = bytes.fromhex("CF21AD74E59A6111BE1D8C021E65B891C2A211167ABB8C5E079E09E2C8A8339C")


def kinds_of(msg):
    """kinds of the handshake messages / record carried by an outgoing message object
    (a flush of the TLS 1.3 queue carries several handshake messages)"""
    ct = getattr(msg, "contentType", None)
    try:
        data = bytes(msg.write())
    except Exception:
        return ["unknown"]
    if ct == 22:
        out = []
        i = 0
        while i + 4 <= len(data):
            ln = int.from_bytes(data[i + 1:i + 4], "big")
            k = HS_KINDS.get(data[i], "unknown")
            if k == "server_hello" and data[i + 6:i + 38] == HRR_RANDOM:
                k = "hrr"
            out.append(k)
            i += 4 + ln
        return out or ["unknown"]
    if ct == 20:
        return ["ccs"]
    if ct == 23:
        return ["app_data"] if data else ["empty_app_data"]
    if ct == 21:
        if len(data) >= 2:
            if data[1] == 0:
                return ["close_notify"]
            if data[0] == 1 and data[1] == 41:
                return ["no_certificate_alert"]
            return ["alert_warning" if data[0] == 1 else "alert_fatal"]
        return ["alert_fatal"]
    if ct == 24:
        return ["heartbeat"]
    return ["unknown"]


def drain(gen):
    """run a send generator synchronously (the in-memory socket never blocks on send)"""
    n = 0
    for r in gen:
        n += 1
        if n > 100000:
            raise RuntimeError("send generator does not terminate")




class Editor(object):
    """Sits in front of the send path of the cooperating peer (installed with lab.hook_messages).

    Positions count the peer's own outgoing protocol messages (handshake messages and CCS; not its
    alerts / data, not the flush of the queue) in program order.  edits: list of tuples
        ('skip', j) ('dup', j) ('swap', j) ('insert', j, kind) ('replace', j, kind)
        ('nohash_insert', j, kind) ('epoch', j, 'null'|'prev'|'pending')
        ('frag', j): the record of message j also carries the first 3 bytes of a KeyUpdate (rest sent later)
        ('span', j): the record of message j also carries the first 3 bytes of message j+1
    inserts go before message j.  'swap' j: message j+1 goes out first under the write state of
    position j, then message j under the then-current state.  Everything really emitted is logged
    in self.emitted: {kind, epoch (index of the write state used), plus (another handshake message
    follows inside the same record), origin}.
    """

    def __init__(self, L, who, edits, bank, version):
        from harness import lab
        self.conn = conn = L.end(who).conn
        self.edits = [tuple(e) for e in edits]
        self.bank = bank
        self.version = version
        self.pos = 0
        self.emitted = []
        self.pending_q = []               # log entries of messages sitting in the queue
        self.held = None
        self.span = None                  # message whose record will also carry the head of the next one
        self.strip_next = 0               # bytes of the next handshake message that went out early
        self.frag_rest = None
        self.applied = set()
        self.na = []                      # edits that could not be applied (with reason)
        self.states = []                  # write states in the order they became current
        self.orig = []                    # the peer's own outgoing kinds, in program order
        self._note_state()
        self.cls = type(conn)
        orig_cws = conn._changeWriteState

        def cws():
            orig_cws()
            self._note_state()
        conn._changeWriteState = cws
        lab.hook_messages(conn, self.fn)

    # -- write states / epochs
    def _note_state(self):
        ws = self.conn._recordLayer._writeState
        if not any(ws is s for s in self.states):
            self.states.append(ws)

    def epoch_now(self):
        ws = self.conn._recordLayer._writeState
        for i, s in enumerate(self.states):
            if s is ws:
                return i
        self.states.append(ws)
        return len(self.states) - 1

    def _other_state(self, which):
        """(epoch index, ConnectionState) for a wrong-epoch emission, or None if not applicable"""
        from tlslite.recordlayer import ConnectionState
        rl = self.conn._recordLayer
        cur = self.epoch_now()
        if which == "null":
            if rl._writeState.encContext is None:
                return None
            return (0, ConnectionState())
        if which == "prev":
            if cur == 0:
                return None
            return (cur - 1, self.states[cur - 1])
        if which == "pending":
            p = rl._pendingWriteState
            if p is None or p.encContext is None:
                return None
            return (cur + 1, copy.copy(p))
        return None

    # -- synthetic messages
    def synth(self, kind):
        from tlslite.messages import (Message, ChangeCipherSpec, ApplicationData, Alert, HelloRequest,
                                      ServerHelloDone, Finished, KeyUpdate, Heartbeat)
        from tlslite.constants import AlertDescription, AlertLevel
        v = self.version
        if kind == "ccs":
            return ChangeCipherSpec().create()
        if kind == "app_data":
            return ApplicationData().create(bytearray(b"early-data!"))
        if kind == "empty_app_data":
            return ApplicationData().create(bytearray(0))
        if kind == "alert_warning":
            return Alert().create(AlertDescription.user_canceled, AlertLevel.warning)
        if kind == "no_certificate_alert":
            return Alert().create(AlertDescription.no_certificate, AlertLevel.warning)
        if kind == "close_notify":
            return Alert().create(AlertDescription.close_notify, AlertLevel.warning)
        if kind == "alert_fatal":
            return Alert().create(AlertDescription.internal_error, AlertLevel.fatal)
        if kind == "hello_request":
            return HelloRequest().create()
        if kind == "server_hello_done":
            return ServerHelloDone().create()
        if kind == "finished":
            if v == (3, 4):
                return Finished(v, 32).create(bytearray(32))
            return Finished(v).create(bytearray(36 if v == (3, 0) else 12))
        if kind == "key_update":
            return KeyUpdate().create(0)
        if kind == "end_of_early_data":
            return Message(22, bytearray(b"\x05\x00\x00\x00"))
        if kind == "heartbeat":
            return Heartbeat().create(1, bytearray(b"ping"), 16)
        if kind == "certificate_status":
            # CertificateStatus (status_request): status_type ocsp(1), a 1-byte response
            return Message(22, bytearray(b"\x16\x00\x00\x05\x01\x00\x00\x01\x00"))
        b = self.bank.get(kind)
        if b is None:
            return None
        return Message(22, bytearray(b))

    # -- emission primitives
    def _log(self, msg, origin, epoch=None):
        ks = kinds_of(msg)
        e = self.epoch_now() if epoch is None else epoch
        ents = [{"kind": k, "epoch": e, "plus": i + 1 < len(ks), "origin": origin} for i, k in enumerate(ks)]
        self.emitted.extend(ents)
        return ents

    def _flush(self):
        conn = self.conn
        if conn._buffer:
            msg_t = __import__("tlslite.messages", fromlist=["Message"]).Message
            m = msg_t(conn._buffer_content_type, conn._buffer)
            drain(self.cls._sendMsg(conn, m, True, False))
        conn._buffer_content_type = None
        conn._buffer = bytearray()
        for e in self.pending_q[:-1]:
            e["plus"] = True
        self.pending_q = []

    def _queue(self, m, origin):
        self.pending_q.extend(self._log(m, origin))
        self.cls._queue_message(self.conn, m)

    def _direct(self, m, origin, state=None, update_hashes=True):
        """send m now as its own record(s), optionally under another write state"""
        self._flush()
        rl = self.conn._recordLayer
        if state is not None:
            saved = rl._writeState
            rl._writeState = state[1]
            try:
                self._log(m, origin, epoch=state[0])
                drain(self.cls._sendMsg(self.conn, m, False, update_hashes))
            finally:
                rl._writeState = saved
        else:
            self._log(m, origin)
            # randomizeFirstBlock=False: application data stays one record also with CBC in <= TLS 1.0
            drain(self.cls._sendMsg(self.conn, m, origin == "own", update_hashes))

    def _emit(self, via, m, origin, state=None, update_hashes=True):
        if via == "queue" and getattr(m, "contentType", None) == 22 and state is None and update_hashes:
            self._queue(m, origin)
        else:
            self._direct(m, origin, state, update_hashes)

    def _emit_with_fragment(self, via, msg):
        """message `msg` and, inside the same record, the first 3 bytes of a KeyUpdate message whose
        remaining 2 bytes follow after the handshake (finish()): handshake bytes that span a key change"""
        from tlslite.messages import Message, KeyUpdate
        conn = self.conn
        ku = bytes(KeyUpdate().create(0).write())
        head, self.frag_rest = ku[:3], ku[3:]
        if via == "queue":
            ents = self._log(msg, "own")
            self.pending_q.extend(ents)
            self.cls._queue_message(conn, msg)
            conn._buffer += bytearray(head)
        else:
            self._flush()
            ents = self._log(msg, "own")
            body = bytearray(msg.write())
            conn._handshake_hash.update(body)
            drain(self.cls._sendMsg(conn, Message(22, body + bytearray(head)), True, False))
        ents[-1]["plus"] = True
        ents[-1]["frag"] = True
        self.emitted.append({"kind": "key_update", "epoch": ents[-1]["epoch"], "plus": False, "origin": "insert",
                             "part": "head"})

    def _release_span(self, nxt, via):
        """send the held message; its record also carries the first 3 bytes of `nxt` (the next handshake
        message, whose remaining bytes travel the normal way, under the then-current keys)"""
        from tlslite.messages import Message
        if self.span is None:
            return
        conn = self.conn
        sp, self.span = self.span, None
        body = bytearray(sp["msg"].write())
        nb = bytearray(nxt.write()) if nxt is not None else bytearray()
        head = nb[:3]
        rl = conn._recordLayer
        ents = self._log(sp["msg"], "own", epoch=sp["state"][0])
        if head:
            ents[-1]["plus"] = True
            ents[-1]["span"] = True
            self.emitted.append({"kind": kinds_of(nxt)[0], "epoch": sp["state"][0], "plus": False, "origin": "own",
                                 "part": "head"})
        saved = rl._writeState
        rl._writeState = sp["state"][1]
        try:
            drain(self.cls._sendMsg(conn, Message(22, body + head), True, False))
        finally:
            rl._writeState = saved
        for x in sp["extra"]:
            self._log(x, "own")
            drain(self.cls._sendMsg(conn, x, True, True))
        if nxt is None:
            return
        conn._handshake_hash.update(nb)
        rest = Message(22, nb[3:])
        if via == "queue":
            ents = self._log(nxt, "own")
            self.pending_q.extend(ents)
            if conn._buffer_content_type is None:
                conn._buffer_content_type = 22
            conn._buffer += nb[3:]
        else:
            ents = self._log(nxt, "own")
            drain(self.cls._sendMsg(conn, rest, True, False))
        ents[0]["part"] = "tail"

    # -- the hook
    def fn(self, via, msg):
        conn = self.conn
        pre = getattr(conn, "_c06_pre", None)
        if pre is not None:
            pre(msg)
        ct = getattr(msg, "contentType", None)
        if via == "send" and type(msg).__name__ == "Message" and msg.data is conn._buffer:
            self._flush()                          # the peer's own flush of its queue
            return []
        if ct != 22 and ct != 20:
            self._release_span(None, via)
            self._direct(msg, "own")               # the peer's own alerts / data: logged, not edited
            return []
        j = self.pos
        self.pos += 1
        self.orig.append(kinds_of(msg)[0])
        if self.span is not None:
            if ct == 20:
                self.span["extra"].append(msg)     # a CCS between the two messages goes out after the record
                return []
            self._release_span(msg, via)
            return []
        mine = [e for e in self.edits if e[1] == j]
        before = []
        skip = False
        dup = False
        hold = False
        frag = False
        span = False
        headfirst = False
        state = None
        for e in mine:
            op = e[0]
            if op in ("insert", "replace", "nohash_insert"):
                m = self.synth(e[2])
                if m is None:
                    self.na.append((e, "no synthetic " + e[2]))
                    continue
                before.append((m, op, op != "nohash_insert"))
                if op == "replace":
                    skip = True
            elif op == "skip":
                skip = True
            elif op == "dup":
                dup = True
            elif op == "swap":
                hold = True
            elif op == "frag":
                frag = True
            elif op == "span":
                span = True
            elif op == "headfirst":
                headfirst = True
            elif op == "realku":
                # a genuine KeyUpdate before this message: sent, then the peer's write keys move on
                from tlslite.messages import KeyUpdate
                self._direct(KeyUpdate().create(0), "insert")
                sess = conn.session
                sess.cl_app_secret, sess.sr_app_secret = conn._recordLayer.calcTLS1_3KeyUpdate_reciever(
                    sess.cipherSuite, sess.cl_app_secret, sess.sr_app_secret)
            elif op == "epoch":
                state = self._other_state(e[2])
                if state is None:
                    self.na.append((e, "no such write state"))
                    continue
            self.applied.add(e)
        held = self.held
        self.held = None
        hstate = None
        if held is not None and held[1][1] is not conn._recordLayer._writeState:
            hstate = held[1]
        for (m, o, uh) in before:
            self._emit(via, m, o, hstate, uh)
        if self.strip_next and ct == 22 and not skip:
            # the first bytes of this message went out already (headfirst): send the rest only
            from tlslite.messages import Message
            body = bytearray(msg.write())
            n = self.strip_next
            self.strip_next = 0
            if bytes(body[:n]) == b"\x14\x00\x00":
                self._flush()
                conn._handshake_hash.update(body)
                ents = self._log(msg, "own")
                ents[0]["part"] = "tail"
                drain(self.cls._sendMsg(conn, Message(22, body[n:]), True, False))
                return []
            self.na.append((("headfirst",), "next message is not a Finished"))
        if headfirst and not skip:
            # the type and the first two length bytes of the Finished that follows (always 14 00 00)
            # are sent now, before this message, under the current keys
            from tlslite.messages import Message
            self._flush()
            self.emitted.append({"kind": "finished", "epoch": self.epoch_now(), "plus": False, "origin": "own",
                                 "part": "head"})
            drain(self.cls._sendMsg(conn, Message(22, bytearray(b"\x14\x00\x00")), True, False))
            self.strip_next = 3
        if hold and not skip:
            self.held = (msg, (self.epoch_now(), conn._recordLayer._writeState), via)
        elif not skip and span and ct == 22:
            # keep it back until the next handshake message exists; it is hashed NOW (the peer's key
            # schedule depends on the transcript at this point), only the record is built later
            if via == "queue":
                self._flush()
            conn._handshake_hash.update(bytearray(msg.write()))
            self.span = {"msg": msg, "state": (self.epoch_now(), conn._recordLayer._writeState), "extra": []}
        elif not skip and frag:
            self._emit_with_fragment(via, msg)
        elif not skip:
            self._emit(via, msg, "own", state if state is not None else hstate)
            if dup:
                self._emit(via, msg, "dup", state if state is not None else hstate)
        if held is not None:
            self._emit(held[2] if held[2] == via else "send", held[0], "swapped")
        return []

    def finish(self):
        """after the handshake generators have stopped: a held (swapped) message without successor
        is never sent; inserts addressed past the last message go out now"""
        if self.held is not None:
            self.na.append((("swap", self.pos - 1), "no successor"))
            self.held = None
        if self.span is not None:
            try:
                self._release_span(None, "send")
                self.conn.sock.flush()
            except Exception as x:  # noqa: B902
                self.na.append((("span",), "send failed: " + type(x).__name__))
        if getattr(self, "frag_rest", None) and not self.conn.closed:
            from tlslite.messages import Message
            try:
                self._flush()
                self.emitted.append({"kind": "key_update", "epoch": self.epoch_now(), "plus": False,
                                     "origin": "insert", "part": "tail"})
                drain(self.cls._sendMsg(self.conn, Message(22, bytearray(self.frag_rest)), True, False))
                self.conn.sock.flush()
            except Exception as x:  # noqa: B902
                self.na.append((("frag-rest",), "send failed: " + type(x).__name__))
            self.frag_rest = None
        tail = [e for e in self.edits if e not in self.applied and e[0] in ("insert", "nohash_insert")
                and e[1] >= self.pos]
        if tail and not self.conn.closed:
            for e in tail:
                m = self.synth(e[2])
                if m is None:
                    self.na.append((e, "no synthetic " + e[2]))
                    continue
                try:
                    self._direct(m, e[0], None, e[0] == "insert")
                    self.applied.add(e)
                except Exception as x:  # noqa: B902
                    self.na.append((e, "send failed: " + type(x).__name__))
            try:
                self.conn.sock.flush()
            except Exception:  # noqa: B902
                pass
        for e in self.edits:
            if e not in self.applied and not any(n[0] == e for n in self.na):
                self.na.append((e, "position not reached"))


class Watch(object):
    """observation only, on the victim: what `_getNextRecord` hands to `_getMsg` (= the messages the
    endpoint received, as it saw them), what `_getMsg` hands out, read-state changes, completion"""

    def __init__(self, conn):
        self.acc = 0
        self.got = []
        self.received = []          # kinds, in the order the victim's _getMsg loop saw them
        self.read_epoch = 0
        self.acc_at_done = None
        self.recs_at_done = None
        orig = conn._getMsg
        orig_gnr = conn._getNextRecord
        orig_crs = conn._changeReadState
        orig_done = conn._handshakeDone

        def gm(*a, **kw):
            for r in orig(*a, **kw):
                if r in (0, 1):
                    yield r
                else:
                    self.acc += 1
                    self.got.append(type(r).__name__)
                    yield r

        def gnr():
            for r in orig_gnr():
                if r in (0, 1):
                    yield r
                else:
                    try:
                        hdr, p = r
                        self.received.append(kind_of_record(hdr.type, bytes(p.bytes), getattr(hdr, "ssl2", False)))
                    except Exception:  # noqa: B902
                        self.received.append("unknown")
                    yield r

        def crs():
            orig_crs()
            self.read_epoch += 1

        def done(resumed):
            orig_done(resumed)
            self.acc_at_done = self.acc
            self.recs_at_done = len(self.received)
        conn._getMsg = gm
        conn._getNextRecord = gnr
        conn._changeReadState = crs
        conn._handshakeDone = done
        self.in_pha = False
        orig_pha = conn._handle_srv_pha

        def pha(cert):
            self.in_pha = True
            for r in orig_pha(cert):
                yield r
            self.in_pha = False
        conn._handle_srv_pha = pha
        rl = conn._recordLayer
        orig_ku = rl.calcTLS1_3KeyUpdate_sender

        def ku(*a, **kw):
            r = orig_ku(*a, **kw)          # a received KeyUpdate installs new READ keys
            self.read_epoch += 1
            return r
        rl.calcTLS1_3KeyUpdate_sender = ku


def kind_of_record(ct, data, ssl2=False):
    """kind of one item handed to _getMsg: a whole handshake message or a non-handshake record"""
    if ssl2:
        return "client_hello_v2"
    if ct == 22:
        if not data:
            return "unknown"
        k = HS_KINDS.get(data[0], "unknown")
        if k == "server_hello" and data[6:38] == HRR_RANDOM:
            k = "hrr"
        return k
    if ct == 20:
        return "ccs"
    if ct == 23:
        return "app_data" if data else "empty_app_data"
    if ct == 21:
        if len(data) >= 2:
            if data[1] == 0:
                return "close_notify"
            if data[0] == 1 and data[1] == 41:
                return "no_certificate_alert"
            return "alert_warning" if data[0] == 1 else "alert_fatal"
        return "alert_fatal"
    if ct == 24:
        return "heartbeat"
    return "unknown"


def alert_name(desc):
    from tlslite.constants import AlertDescription
    return AlertDescription.toStr(desc)


def outcome_of(end):
    """canonical outcome of an endpoint's handshake generator"""
    from tlslite import errors
    if end.state == "done":
        return "complete"
    if end.state == "stall":
        return "waiting"
    e = end.exc
    if isinstance(e, errors.TLSLocalAlert):
        return "abort:" + alert_name(e.description)
    if isinstance(e, errors.TLSRemoteAlert):
        return "closed:" + alert_name(e.description)
    return "exc:" + type(e).__name__


def run_case(scn, victim, edits, bank, session=None, cache=None, after=None):
    """one handshake of scenario scn in which `victim` faces a peer with an edited send path.
    Returns an observation dict."""
    from harness import lab
    L = lab.Lab()
    peer = "server" if victim == "client" else "client"
    start(scn, L, session=session, cache=cache)
    ed = Editor(L, peer, edits, bank, VERS[scn["ver"]])
    w = Watch(L.end(victim).conn)
    L.run()
    n_before = len(ed.emitted)
    ed.finish()
    if len(ed.emitted) > n_before:
        # messages addressed past the peer's last one went out now: let a still waiting endpoint go on
        for e in (L.client, L.server):
            if e.state == "stall":
                e.state = "running"
        L.run()
    v = L.end(victim)
    hs = outcome_of(v)
    obs = {"hs": hs, "peer": outcome_of(L.end(peer)), "acc_hs": w.acc, "data": b"", "post": None}
    # let the victim's application read whatever else arrived
    data = b""
    post = None
    if v.state == "done":
        for _ in range(40):
            r = L.read(victim)
            if r[0] == "ok" and r[1]:
                data += r[1]
                continue
            if r[0] == "error":
                from tlslite import errors
                e = r[1]
                if isinstance(e, errors.TLSLocalAlert):
                    post = "abort:" + alert_name(e.description)
                elif isinstance(e, errors.TLSRemoteAlert):
                    post = "closed:" + alert_name(e.description)
                else:
                    post = "exc:" + type(e).__name__
            elif r[0] == "ok":
                post = "eof"          # b'' from a closed connection (close_notify)
            break
    else:
        # an endpoint that did not complete must not hand data to its caller
        try:
            r = L.read(victim)
        except Exception as e:  # noqa: B902
            r = ("error", e)
        if r[0] == "ok" and r[1]:
            data += r[1]
        data += bytes(v.conn._readBuffer)
    obs.update(data=data, post=post, acc=w.acc, acc_at_done=w.acc_at_done, read_epoch=w.read_epoch,
               received=list(w.received), recs_at_done=w.recs_at_done,
               emitted=ed.emitted, na=ed.na, applied=len(ed.applied), orig=ed.orig,
               closed=bool(v.conn.closed), sock_closed=bool(v.sock.is_closed), got=w.got)
    # what the victim wrote last: a fatal alert must be on the wire when it aborted
    recs = L.link.records("c2s" if victim == "client" else "s2c")
    obs["last_rec_type"] = recs[-1][0] if recs else None
    obs["last_rec_plain"] = bytes(recs[-1][2]) if recs else b""
    obs["session"] = v.conn.session
    obs["lab"] = L
    if after:
        after(L, obs)
    return obs


# ---------------------------------------------------------------------------------------------
# negotiated parameters of a scenario, for the model (cfg string) and for the oracle (dict)
def params_of(scn, victim, resumed=None):
    ver = scn["ver"]
    fam = "ssl3" if ver == "ssl3" else ("tls13" if ver == "tls13" else "tls")
    kx = {"rsa": "rsa", "dhe": "dhe", "ecdhe": "ecdhe", "ecdsa": "ecdhe", "srp": "srp", "srpcert": "srpcert",
          "anon": "anon", "ecanon": "anon", "psk": "psk"}[scn["kx"]]
    res = scn.get("res") or "none"
    resumed = res != "none"
    p = {"role": victim, "ver": fam, "kx": kx,
         "reqcert": bool(scn.get("reqcert")) and not (fam == "tls13" and (kx == "psk" or resumed)),
         "clientcert": bool(scn.get("reqcert")) and bool(scn.get("clientcert")) and not (fam == "tls13" and (kx == "psk" or resumed)),
         "tickets": bool(scn.get("tickets")) and fam == "tls" and not resumed,
         "npn": bool(scn.get("npn")) and fam != "tls13" and not resumed,
         "hrr": bool(scn.get("hrr")) and fam == "tls13",
         "resume": res, "resumed": resumed,
         "compcert": fam == "tls13" and (not scn.get("nocomp_srv") if victim == "server" else not scn.get("nocomp")),
         "hb": fam != "ssl3" and not scn.get("nohb"),
         "compat": fam == "tls13" and not scn.get("nosid"),
         # TLS 1.3: the client holds a key pair (offers post_handshake_auth)
         "keypair": fam == "tls13" and bool(scn.get("keypair") or scn.get("clientcert"))}
    return p


def cfg_string(p):
    b = lambda x: "1" if x else "0"  # noqa: E731
    return ",".join([p["role"], p["ver"], p["kx"], b(p["reqcert"]), b(p["clientcert"]), b(p["tickets"]), b(p["npn"]),
                     b(p["hrr"]), p["resume"], b(p["compcert"]), b(p["hb"]), b(p["compat"]), b(p["keypair"])])


# ---------------------------------------------------------------------------------------------
# the direct oracle: RFC grammar in Python (regular expression over one letter per message kind),
# written from RFC 5246 7.3, RFC 5054 2.2, RFC 5077 3.1/3.3, NPN draft, RFC 6101 5.6.6, RFC 8446 2/4.
LETTER = {"hello_request": "h", "client_hello": "C", "server_hello": "S", "hrr": "R", "certificate": "c",
          "compressed_certificate": "z", "server_key_exchange": "k", "certificate_request": "q",
          "server_hello_done": "d", "client_key_exchange": "x", "certificate_verify": "v", "ccs": "s",
          "finished": "f", "new_session_ticket": "t", "next_protocol": "n", "encrypted_extensions": "e",
          "end_of_early_data": "y", "key_update": "u", "alert_warning": "w", "alert_fatal": "F",
          "close_notify": "o", "no_certificate_alert": "N", "heartbeat": "b", "app_data": "a",
          "empty_app_data": "m", "unknown": "?", "client_hello_v2": "2", "certificate_status": "T"}


def rfc_regex(p):
    r, v = p["role"], p["ver"]
    psk = p["kx"] == "psk" or p["resumed"]
    if v == "tls13":
        cert = "[cz]" if p["compcert"] else "c"
        if r == "client":
            # [HelloRetryRequest] ServerHello EncryptedExtensions [CertificateRequest] [Certificate CertificateVerify] Finished
            return ("R?" if p["hrr"] else "") + "Se" + ("" if psk else "q?" + cert + "v") + "f"
        # ClientHello [ClientHello after HRR] [Certificate [CertificateVerify]] Finished
        auth = ""
        if p["reqcert"] and not psk:
            auth = cert + ("v" if p["clientcert"] else "")
        return "C" + ("C" if p["hrr"] else "") + auth + "f"
    certkx = p["kx"] in ("rsa", "dhe", "ecdhe", "srpcert")
    if r == "client":
        if p["resumed"]:
            return "S" + ("t" if p["tickets"] else "") + "sf"
        return ("S" + ("c" if certkx else "") + ("k" if p["kx"] != "rsa" else "") + ("q?" if certkx else "") + "d" +
                ("t" if p["tickets"] else "") + "sf")
    if p["resumed"]:
        return "Cs" + ("n?" if p["npn"] else "") + "f"
    auth = "x"
    if p["reqcert"]:
        if p["clientcert"]:
            auth = "(cxv|Nx)" if v == "ssl3" else "cxv"
        else:
            auth = "[cN]x" if v == "ssl3" else "cx"
    return "C" + auth + "s" + ("n" if p["npn"] else "") + "f"


def rfc_sentences(p):
    """the (finite) set of letter strings of rfc_regex(p): literals, [classes], (a|b) groups, `?`"""
    rx = rfc_regex(p)
    atoms = []          # list of (alternatives, optional)
    i = 0
    while i < len(rx):
        ch = rx[i]
        if ch == "[":
            j = rx.index("]", i)
            alts = list(rx[i + 1:j])
            i = j + 1
        elif ch == "(":
            j = rx.index(")", i)
            alts = rx[i + 1:j].split("|")
            i = j + 1
        else:
            alts = [ch]
            i += 1
        opt = i < len(rx) and rx[i] == "?"
        if opt:
            i += 1
        atoms.append((alts, opt))
    out = [""]
    for alts, opt in atoms:
        nxt = []
        for pre in out:
            for a in alts:
                nxt.append(pre + a)
            if opt:
                nxt.append(pre)
        out = nxt
    return sorted(set(out))


def rfc_viable_prefix(p, kinds):
    """can `kinds` still be extended to a permitted sequence?"""
    transparent = set()
    if p["ver"] == "tls13":
        transparent.add("ccs")
    if p["hb"]:
        transparent.add("heartbeat")
    if kinds and kinds[0] in transparent:
        return False
    s = "".join(LETTER.get(k, "?") for k in kinds if k not in transparent)
    return any(x.startswith(s) for x in rfc_sentences(p))


def rfc_allowed(p, kinds):
    """is `kinds` (what the endpoint received until it completed) a sequence the negotiated parameters
    permit for its role?"""
    import re
    if not kinds:
        return False
    transparent = set()
    if p["ver"] == "tls13":
        transparent.add("ccs")          # RFC 8446 5 / D.4: unprotected compatibility CCS is dropped
    if p["hb"]:
        transparent.add("heartbeat")    # RFC 6520 3: discarded while a handshake is in progress
    if kinds[0] in transparent:
        return False
    s = "".join(LETTER.get(k, "?") for k in kinds if k not in transparent)
    return re.fullmatch(rfc_regex(p), s) is not None


# ---------------------------------------------------------------------------------------------
# model verdict
def tokens_of(emitted):
    toks = []
    for e in emitted:
        if e["kind"] == "unknown":
            return None
        toks.append("%s:%d%s%s" % (e["kind"], e["epoch"], "+" if e["plus"] else "",
                                     {"head": "<", "tail": ">"}.get(e.get("part"), "")))
    return toks


def parse_model(line):
    parts = line.split()
    m = {"status": parts[0]}
    for kv in parts[1:]:
        k, _, v = kv.partition("=")
        m[k] = v
    for k in ("acc", "accdone", "del", "ep", "warn", "hs"):
        m[k] = int(m[k])
    return m


WRONG_EPOCH_OK = ("abort:bad_record_mac", "abort:unexpected_message", "abort:decode_error", "abort:record_overflow",
                  "abort:decryption_failed", "abort:illegal_parameter", "abort:decrypt_error", "waiting")
CONTENT_KINDS = ("client_hello", "server_hello", "hrr", "certificate", "compressed_certificate", "server_key_exchange",
                 "certificate_request", "client_key_exchange", "certificate_verify", "finished", "new_session_ticket",
                 "next_protocol", "encrypted_extensions")


def compare(obs, m):
    """list of differences between the model verdict m and the observation (empty = agree)"""
    diffs = []
    steps = m["steps"] if m["steps"] != "." else ""
    em = obs["emitted"]
    # a message with foreign content (taken from another handshake / all-zero verify data) that the
    # automaton ACCEPTS by order makes everything after it depend on message contents
    cut = None
    handed = 0
    for i, code in enumerate(steps):
        if code in "NXDP":
            handed += 1
        e = em[i]
        if e["origin"] in ("insert", "replace", "nohash_insert") and e["kind"] in CONTENT_KINDS and code in "NP":
            cut = handed
            break
        if e["origin"] == "swapped" and code in "NXP":
            cut = handed               # the peer computed later messages (Finished) before this one went out
            break
        if e["origin"] in ("insert", "replace", "dup", "swapped") and code == "W":
            cut = handed               # dropped by the victim but hashed by the peer: transcripts diverge
            break
        if e["origin"] == "dup" and e["kind"] in CONTENT_KINDS and code in "NP":
            cut = handed               # e.g. a duplicated hello taken as the second hello
            break
    if cut is not None:
        parse_fail = obs["acc"] == cut - 1 and (obs["post"] if obs["hs"] == "complete" else obs["hs"]) in (
            "abort:decode_error", "abort:illegal_parameter", "abort:bad_certificate")
        if obs["acc"] < cut and not parse_fail:
            diffs.append("victim handed out %d messages, automaton accepts %d up to the foreign-content message" % (obs["acc"], cut))
        return diffs, True
    st = m["status"]
    hs, post = obs["hs"], obs["post"]
    if st == "complete":
        if hs != "complete" or post not in (None,):
            diffs.append("status")
    elif st == "waiting":
        if hs != "waiting":
            diffs.append("status")
    elif st.startswith("abort@"):
        alert = st.split(":", 1)[1]
        real = post if m["hs"] == 1 else hs
        if m["hs"] == 1 and hs != "complete":
            diffs.append("status")
        elif alert in ("wrong_epoch", "garbled"):
            # the record is garbage for the victim: it never proceeds; which alert (or an endless wait
            # for the rest of a "message" whose length field is random) depends on the bytes
            # (an alert-type record of garbage is read as some alert from the peer: closed)
            if real not in WRONG_EPOCH_OK and not (real or "").startswith("closed:"):
                diffs.append("status")
            if nrec_of(obs) != m["del"]:
                diffs.append("delivered")
            return diffs, False
        elif real != "abort:" + alert:
            diffs.append("status")
    elif st.startswith("closed@"):
        real = post if m["hs"] == 1 else hs
        if m["hs"] == 1 and hs != "complete":
            diffs.append("status")
        elif not (real == "eof" or (real or "").startswith("closed:")):
            diffs.append("status")
    if obs["acc"] != m["acc"]:
        diffs.append("acc")
    if (obs["acc_at_done"] or 0) != m["accdone"]:
        diffs.append("accdone")
    if obs["read_epoch"] != m["ep"]:
        diffs.append("epoch")
    if nrec_of(obs) != m["del"]:
        diffs.append("delivered")
    return diffs, False


def nrec_of(obs):
    return len(obs["data"]) // 11 if len(obs["data"]) % 11 == 0 else -1


# ---------------------------------------------------------------------------------------------
# scenario lists
def all_scenarios():
    """(scenario dict, main?) — main ones get every single deviation in the quick tier"""
    out = []

    def add(main=False, **kw):
        out.append((kw, main))
    for ver in ("tls12", "tls10", "ssl3", "tls11"):
        m = ver == "tls12"
        add(m, ver=ver, kx="rsa")
        add(m, ver=ver, kx="ecdhe")
        add(False, ver=ver, kx="dhe")
        add(False, ver=ver, kx="ecdsa")
        add(m, ver=ver, kx="srp")
        add(False, ver=ver, kx="srpcert")
        add(m, ver=ver, kx="anon")
        add(False, ver=ver, kx="ecanon")
        add(ver == "ssl3", ver=ver, kx="rsa", reqcert=True)
        add(m or ver == "ssl3", ver=ver, kx="ecdhe", reqcert=True, clientcert=True)
        add(m, ver=ver, kx="ecdhe", npn=True)
        add(False, ver=ver, kx="dhe", reqcert=True, clientcert=True, npn=True)
        add(m, ver=ver, kx="ecdhe", res="sessionid")
        add(False, ver=ver, kx="rsa", res="sessionid")
        if ver != "ssl3":
            add(m or ver == "tls10", ver=ver, kx="ecdhe", tickets=True)
            add(False, ver=ver, kx="rsa", tickets=True, reqcert=True, clientcert=True, npn=True)
            add(m, ver=ver, kx="ecdhe", tickets=True, res="ticket")
    add(True, ver="tls13", kx="ecdhe")
    add(False, ver="tls13", kx="ecdhe", nocomp=True)
    add(True, ver="tls13", kx="ecdhe", hrr=True)
    add(False, ver="tls13", kx="ecdhe", reqcert=True)
    add(True, ver="tls13", kx="ecdhe", reqcert=True, clientcert=True)
    add(False, ver="tls13", kx="ecdhe", reqcert=True, clientcert=True, nocomp=True, hrr=True)
    add(False, ver="tls13", kx="ecdhe", tickets=True)
    add(True, ver="tls13", kx="ecdhe", tickets=True, res="ticket")
    add(False, ver="tls13", kx="dhe")
    add(True, ver="tls13", kx="psk")
    add(False, ver="tls13", kx="ecdhe", keypair=True)
    # what was NOT offered must not be taken: certificate compression off in either direction (with
    # and without CertificateRequest / client certificate), heartbeat off
    add(False, ver="tls13", kx="ecdhe", reqcert=True, nocomp=True)
    add(False, ver="tls13", kx="ecdhe", reqcert=True, clientcert=True, nocomp=True)
    add(False, ver="tls13", kx="ecdhe", reqcert=True, nocomp_srv=True)
    add(False, ver="tls13", kx="ecdhe", reqcert=True, clientcert=True, nocomp_srv=True)
    add(False, ver="tls13", kx="ecdhe", nohb=True)
    add(False, ver="tls12", kx="ecdhe", nohb=True)
    # client without middlebox compatibility mode (empty legacy_session_id: nobody sends a CCS)
    add(True, ver="tls13", kx="ecdhe", nosid=True)
    add(False, ver="tls13", kx="ecdhe", nosid=True, hrr=True)
    add(False, ver="tls13", kx="ecdhe", nosid=True, reqcert=True, clientcert=True)
    add(False, ver="tls13", kx="psk", psk_mode="psk_ke")
    add(False, ver="tls13", kx="psk", hrr=True)
    return out


def prime(scn):
    """resumption scenarios: run the full handshake that creates the session; returns kwargs for run_case"""
    from harness import lab
    res = scn.get("res")
    if not res:
        return {}
    from tlslite.sessioncache import SessionCache
    first = dict((k, v) for k, v in scn.items() if k != "res")
    cache = SessionCache() if res == "sessionid" else None
    L = lab.Lab()
    start(first, L, cache=cache)
    L.run()
    if L.client.state != "done" or L.server.state != "done":
        raise RuntimeError("priming handshake failed for " + scn_name(scn))
    if scn["ver"] == "tls13":
        L.read("client", min=0)
    sess = L.client.conn.session
    return {"session": sess, "cache": cache}


_BANKS = {}


def record_bank(ver):
    """serialized honest messages of every kind that occurs in version `ver` (for inserts/replacements)"""
    from harness import lab
    from tlslite.messages import Message
    if ver in _BANKS:
        return _BANKS[ver]
    bank = {}
    if ver == "tls13":
        scns = [dict(ver=ver, kx="ecdhe", reqcert=True, clientcert=True, tickets=True, nocomp=True),
                dict(ver=ver, kx="ecdhe", hrr=True)]
    else:
        scns = [dict(ver=ver, kx="ecdhe", reqcert=True, clientcert=True, tickets=True), dict(ver=ver, kx="ecdhe", npn=True)]
    for scn in scns:
        L = lab.Lab()
        start(scn, L)
        logs = {"client": [], "server": []}
        lab.trace_messages(L.client.conn, logs["client"])
        lab.trace_messages(L.server.conn, logs["server"])
        L.run()
        if scn["ver"] == "tls13":
            L.read("client", min=0)
        for who in ("client", "server"):
            for via, name, b in logs[who]:
                if not name.startswith("handshake:"):
                    continue
                ks = kinds_of(Message(22, bytearray(b)))
                if len(ks) == 1:
                    bank.setdefault(ks[0], bytes(b))
    _BANKS[ver] = bank
    return bank


def bank_for(ver):
    b = dict(record_bank(ver))
    other = record_bank("tls12" if ver == "tls13" else "tls13")
    for k, v in other.items():
        b.setdefault(k, v)
    return b


INSERT_KINDS = ["hello_request", "client_hello", "server_hello", "hrr", "certificate", "compressed_certificate",
                "server_key_exchange", "certificate_request", "server_hello_done", "client_key_exchange",
                "certificate_verify", "ccs", "finished", "new_session_ticket", "next_protocol", "encrypted_extensions",
                "end_of_early_data", "key_update", "app_data", "empty_app_data", "alert_warning", "heartbeat",
                "no_certificate_alert", "certificate_status"]
CORE_KINDS = ["ccs", "finished", "app_data", "hello_request", "client_hello", "server_hello_done", "key_update",
              "new_session_ticket", "certificate_request", "certificate_verify", "heartbeat"]


def single_deviations(orig, kinds_at, replace_at=None):
    """all single deviations of an honest outgoing sequence `orig`; kinds_at(j) -> kinds to insert,
    replace_at(j) -> kinds to replace message j with (default: the same)"""
    replace_at = replace_at or kinds_at
    n = len(orig)
    devs = []
    for j in range(n):
        devs.append([("skip", j)])
        devs.append([("dup", j)])
        if j + 1 < n:
            devs.append([("swap", j)])
        for w in ("null", "prev", "pending"):
            devs.append([("epoch", j, w)])
    for j in range(n + 1):
        for k in kinds_at(j):
            devs.append([("insert", j, k)])
    for j in range(n):
        for k in replace_at(j):
            if k != orig[j]:
                devs.append([("replace", j, k)])
    return devs


MUST_ALIGN = ("client_hello", "end_of_early_data", "server_hello", "hrr", "finished", "key_update")


ALT_FORM = {"certificate": ["compressed_certificate", "no_certificate_alert"],
            "compressed_certificate": ["certificate"]}


def alt_form_deviations(orig, victim, ver):
    """every optional message and every alternative form of a message, put where it would
    legitimately travel if it had been negotiated - run in EVERY configuration (the oracle knows
    from the negotiated parameters whether it may be taken): compressed <-> plain Certificate,
    no_certificate alert, CertificateStatus, CertificateRequest / CertificateVerify where none is
    due, NewSessionTicket and NextProtocol around the CCS, EndOfEarlyData, heartbeat"""
    devs = []
    n = len(orig)
    for j, k in enumerate(orig):
        for a in ALT_FORM.get(k, []):
            devs.append([("replace", j, a)])
            if a == "no_certificate_alert" and "certificate_verify" in orig[j:]:
                devs.append([("replace", j, a), ("skip", orig.index("certificate_verify", j))])
        if k in ("certificate", "compressed_certificate"):
            for a in ("certificate_status", "certificate_verify", "certificate_request"):
                if j + 1 >= n or orig[j + 1] != a:
                    devs.append([("insert", j + 1, a)])
        if k in ("server_hello_done", "encrypted_extensions"):
            pos = j if k == "server_hello_done" else j + 1
            if not (pos < n and orig[pos] == "certificate_request") and not (pos > 0 and orig[pos - 1] == "certificate_request"):
                devs.append([("insert", pos, "certificate_request")])
        if k == "client_key_exchange" and (j + 1 >= n or orig[j + 1] != "certificate_verify"):
            devs.append([("insert", j + 1, "certificate_verify")])
        if k == "ccs" and ver != "tls13":
            if j == 0 or orig[j - 1] != "new_session_ticket":
                devs.append([("insert", j, "new_session_ticket")])
            if j + 1 < n and orig[j + 1] != "next_protocol":
                devs.append([("insert", j + 1, "next_protocol")])
        if k == "finished":
            for a in ("end_of_early_data", "heartbeat", "certificate_status"):
                devs.append([("insert", j, a)])
    if n > 1:
        devs.append([("insert", 1, "heartbeat")])
    # after the peer's last message (for the endpoint that completes on it: on the established
    # connection): what must never be taken late
    for a in ("ccs", "finished", "new_session_ticket", "certificate_request", "certificate",
              "client_hello" if victim == "server" else "hello_request"):
        devs.append([("insert", n, a)])
    return devs


def targeted_deviations(orig, victim, ver=None):
    """deviations aimed at the renegotiation branch of _getMsg: a hello the peer does not put into
    its own transcript (what an on-path injector of a plaintext record achieves); and the SSLv3
    no_certificate warning in place of the client Certificate (accepted by an SSLv3 server only)"""
    k = "client_hello" if victim == "server" else "hello_request"
    devs = [[("nohash_insert", j, k)] for j in range(1, len(orig) + 1)]
    devs.append([("nohash_insert", len(orig) - 2, k), ("nohash_insert", len(orig) - 2, k)] if len(orig) >= 2 else [])
    if victim == "server" and "certificate" in orig:
        j = orig.index("certificate")
        devs.append([("replace", j, "no_certificate_alert")])
        if "certificate_verify" in orig:
            devs.append([("replace", j, "no_certificate_alert"), ("skip", orig.index("certificate_verify"))])
    for j, k in enumerate(orig):
        # the head of Finished travels before the message that precedes it (<= 1.2: before the CCS,
        # i.e. a Finished that starts under the old keys)
        if k == "finished" and j > 0:
            devs.append([("headfirst", j - 1)])
    if ver == "tls13":
        # RFC 8446 5.1: the messages before a key change must end their record; here the record also
        # carries the first bytes of a following handshake message
        for j, k in enumerate(orig):
            if k in MUST_ALIGN:
                devs.append([("frag", j)])
                if any(x != "ccs" for x in orig[j + 1:]):
                    devs.append([("span", j)])
    return [d for d in devs if d]


# ---------------------------------------------------------------------------------------------
# one evaluated case: run, oracle, queue for the model
def violation_key(p, received, completed_prefix):
    r = p["role"]
    if completed_prefix is None:
        if p["ver"] == "tls13" and r == "client" and received.count("hrr") > 1:
            return "c06:client-crashes-on-second-hello_retry_request"
        return "c06:deviation-not-answered-with-fatal-alert"
    if p["ver"] != "tls13":
        if r == "server" and "new_session_ticket" in completed_prefix:
            return "c06:server-accepts-client-new_session_ticket"
        if r == "server" and completed_prefix.count("client_hello") > 1:
            return "c06:server-ignores-client_hello-before-ccs"
        if r == "client" and "hello_request" in completed_prefix:
            return "c06:client-ignores-hello_request-during-handshake"
        if r == "client" and "new_session_ticket" in completed_prefix and not p["tickets"]:
            return "c06:client-accepts-unnegotiated-new_session_ticket"
        if r == "client" and "new_session_ticket" not in completed_prefix and p["tickets"]:
            return "c06:client-completes-without-negotiated-new_session_ticket"
    return "c06:completes-outside-grammar:" + r + ":" + p["ver"]


def fmt_emitted(em):
    return " ".join("%s:%d%s%s%s" % (e["kind"], e["epoch"], "+" if e["plus"] else "",
                                     {"head": "<", "tail": ">"}.get(e.get("part"), ""),
                                     "" if e["origin"] == "own" else "(" + e["origin"] + ")") for e in em)


def evaluate(ctx, pending, scn, victim, edits, bank, kw, label="dev"):
    p = params_of(scn, victim)
    try:
        obs = run_case(scn, victim, edits, bank, **kw)
    except Exception as e:  # noqa: B902 - the lab itself failed: infrastructure, not a verdict
        ctx.count("lab-error:" + type(e).__name__)
        ctx.extra.setdefault("lab_errors", []).append({"scn": scn_name(scn), "victim": victim, "edits": edits, "error": repr(e)})
        return None
    rep = {"scn": scn, "victim": victim, "edits": [list(e) for e in edits]}
    ctx.case(key=(scn_name(scn), victim, tuple(map(tuple, edits))), nontrivial=bool(edits) or label == "honest",
             sample=dict(rep, hs=obs["hs"], post=obs["post"], emitted=fmt_emitted(obs["emitted"]))
             if ctx.evaluations % 401 == 0 else None)
    ctx.count("victim:" + victim)
    ctx.count("ver:" + scn["ver"])
    ctx.count("outcome:" + obs["hs"].split(":")[0])
    for e in edits:
        ctx.count("op:" + e[0])
    if obs["na"] and not obs["applied"]:
        ctx.count("not-applicable")
    summary = dict(rep, hs=obs["hs"], post=obs["post"], peer=obs["peer"], received=obs["received"],
                   recs_at_done=obs["recs_at_done"], emitted=fmt_emitted(obs["emitted"]), data=obs["data"].hex(),
                   cfg=cfg_string(p))
    # ---- direct oracle -----------------------------------------------------------------------
    if p["ver"] == "tls13":
        # RFC 8446 5.1: ClientHello, EndOfEarlyData, ServerHello, Finished and KeyUpdate must end at a
        # record boundary; an endpoint must not get past one whose record carries further handshake bytes
        for i, e in enumerate(obs["emitted"]):
            if e["plus"] and e["kind"] in MUST_ALIGN and e["origin"] not in ("nohash_insert",):
                # a key change follows for the RECEIVER after: ServerHello (not HRR), the ClientHello the
                # server answers with its flight (the second one after an HRR), Finished, KeyUpdate
                if e["kind"] == "hrr":
                    continue
                if e["kind"] == "client_hello" and p["hrr"] and \
                        [x["kind"] for x in obs["emitted"][:i]].count("client_hello") == 0:
                    continue
                whole = [x["kind"] for x in obs["emitted"][:i + 1] if x.get("part") != "head"]
                i = len(whole) - 1
                past = len(obs["received"]) > i + 1 or (obs["hs"] == "complete" and (obs["recs_at_done"] or 0) > i)
                if past and obs["received"][:i + 1] == whole:
                    ctx.violation("c06:tls13-message-before-key-change-not-aligned:%s:%s" % (victim, e["kind"]),
                                  "%s (%s) went on after a %s whose record carried further handshake bytes "
                                  "(RFC 8446 5.1: handshake messages must not span key changes)"
                                  % (victim, scn_name(scn), e["kind"]), dict(summary, stage="oracle-align"))
                break
    heads = [i for i, e in enumerate(obs["emitted"]) if e.get("part") == "head"]
    for i in heads:
        tails = [j for j in range(i + 1, len(obs["emitted"])) if obs["emitted"][j].get("part") == "tail"
                 and obs["emitted"][j]["kind"] == obs["emitted"][i]["kind"]]
        if tails and obs["emitted"][tails[0]]["epoch"] != obs["emitted"][i]["epoch"]:
            # the message started under other keys than it ended: the victim must never hand it out
            n_whole = len([x for x in obs["emitted"][:tails[0] + 1] if x.get("part") != "head"])
            if len(obs["received"]) >= n_whole and obs["received"][n_whole - 1] == obs["emitted"][i]["kind"] \
                    and (obs["hs"] == "complete" or obs["acc"] >= n_whole - len(
                        [x for x in obs["emitted"][:tails[0]] if x["kind"] == "ccs" and p["ver"] == "tls13"])):
                ctx.violation("c06:message-spans-key-change:%s:%s" % (victim, p["ver"]),
                              "%s (%s) accepted a %s whose first bytes arrived under key epoch %d and whose rest "
                              "arrived under epoch %d" % (victim, scn_name(scn), obs["emitted"][i]["kind"],
                                                          obs["emitted"][i]["epoch"], obs["emitted"][tails[0]]["epoch"]),
                              dict(summary, stage="oracle-span"))
            break
    if obs["hs"] == "complete":
        prefix = obs["received"][:obs["recs_at_done"]]
        if not rfc_allowed(p, prefix):
            ctx.violation(violation_key(p, obs["received"], prefix),
                          "%s completed its handshake (%s) although the messages it received are not a sequence "
                          "RFC grammar %r permits: %s" % (victim, scn_name(scn), rfc_regex(p), " ".join(prefix)),
                          dict(summary, stage="oracle-grammar"))
        # after completion: a handshake-protocol / CCS record that is not part of the post-handshake
        # traffic of this version must end the connection, not be skipped
        late = obs["received"][obs["recs_at_done"]:]
        ok_late = {"app_data", "empty_app_data", "alert_warning", "alert_fatal", "close_notify", "no_certificate_alert"}
        if p["hb"]:
            ok_late.add("heartbeat")
        if p["ver"] == "tls13":
            ok_late.add("key_update")
            if victim == "client":
                ok_late.add("new_session_ticket")
                ok_late.add("certificate_request")      # post-handshake authentication
        else:
            ok_late.add("client_hello" if victim == "server" else "hello_request")   # refused with a warning
        bad = [k for k in late[:-1] if k not in ok_late]
        if late and late[-1] not in ok_late and obs["post"] is None:
            bad.append(late[-1])
        if bad:
            ctx.violation("c06:late-message-not-refused:" + bad[0],
                          "%s (%s) kept the connection open after receiving %s on the established connection"
                          % (victim, scn_name(scn), bad[0]), dict(summary, stage="oracle-late"))
    else:
        if obs["data"]:
            ctx.violation("c06:data-before-completion",
                          "%s handed %d bytes of application data to its caller without completing the handshake (%s)"
                          % (victim, len(obs["data"]), scn_name(scn)), dict(summary, stage="oracle-data"))
        if obs["hs"].startswith("exc:") and not rfc_viable_prefix(p, obs["received"]):
            ctx.violation(violation_key(p, obs["received"], None),
                          "%s (%s) received a sequence that can no longer become a permitted one (%s) and ended with %s "
                          "instead of a fatal alert" % (victim, scn_name(scn), " ".join(obs["received"]), obs["hs"]),
                          dict(summary, stage="oracle-exception"))
        if obs["hs"].startswith("abort:"):
            wire_alert = obs["last_rec_type"] == 21 or (p["ver"] == "tls13" and obs["last_rec_type"] == 23)
            if not (wire_alert and obs["closed"] and obs["sock_closed"]):
                ctx.violation("c06:abort-without-fatal-alert-or-close",
                              "%s aborted (%s) but no alert record was its last record on the wire or the connection "
                              "stayed open (%s)" % (victim, obs["hs"], scn_name(scn)), dict(summary, stage="oracle-abort"))
    pending.append((summary, obs, p))
    return obs


def flush(ctx, pending):
    lc = ctx.lean()
    if lc is None or not pending:
        del pending[:]
        return
    lines, idx = [], []
    for i, (summary, obs, p) in enumerate(pending):
        toks = tokens_of(obs["emitted"])
        if toks is None:
            ctx.count("unmodelled-token")
            continue
        lines.append("run %s %s" % (cfg_string(p), " ".join(toks)))
        idx.append(i)
        # the two independently written grammars (Lean `allowed`, Python `rfc_allowed`) on what the
        # victim received: up to completion if it completed, everything otherwise (negative examples)
        rk = obs["received"][:obs["recs_at_done"]] if obs["hs"] == "complete" and obs["recs_at_done"] is not None \
            else obs["received"]
        if rk and all(k in LETTER and k not in ("unknown", "client_hello_v2") for k in rk):
            obs["grammar_trace"] = rk
            lines.append("allowed %s %s" % (cfg_string(p), " ".join(rk)))
            idx.append(-1 - i)
    out = lc.batch(lines)
    for line, o, i in zip(lines, out, idx):
        if i < 0:
            summary, obs, p = pending[-1 - i]
            py = rfc_allowed(p, obs["grammar_trace"])
            ctx.compared()
            if o != ("true" if py else "false"):
                ctx.disagree("lean-grammar-vs-python-grammar", summary, o, py)
            continue
        summary, obs, p = pending[i]
        if o == "bad-op":
            ctx.disagree("driver", dict(summary, line=line), o, obs["hs"])
            continue
        m = parse_model(o)
        diffs, cut = compare(obs, m)
        ctx.compared()
        if cut:
            ctx.count("compared-up-to-foreign-content")
        if diffs:
            ctx.disagree("automaton", dict(summary, diffs=diffs, acc=obs["acc"], acc_at_done=obs["acc_at_done"],
                                           read_epoch=obs["read_epoch"]), o,
                         "%s post=%s acc=%s accdone=%s ep=%s del=%d" % (obs["hs"], obs["post"], obs["acc"], obs["acc_at_done"],
                                                                        obs["read_epoch"], len(obs["data"]) // 11))
    del pending[:]


# ---------------------------------------------------------------------------------------------
# renegotiation after completion
def renegotiation_case(ctx, pending, scn, victim, bank, kw):
    """after an honest handshake the peer sends a ClientHello (to a server) / HelloRequest (to a
    client) inside the established connection, then application data"""
    from tlslite import errors
    p = params_of(scn, victim)
    peer = "server" if victim == "client" else "client"
    kind = "client_hello" if victim == "server" else "hello_request"
    box = {}

    def after(L, obs):
        box["L"] = L
    # the attempt goes out after the handshake (tail insert), then data written by the peer
    from harness import lab
    L = lab.Lab()
    start(scn, L, **kw)
    ed = Editor(L, peer, [], bank, VERS[scn["ver"]])
    w = Watch(L.end(victim).conn)
    L.run()
    v = L.end(victim)
    rep = {"scn": scn, "victim": victim, "edits": [], "stage": "renegotiation"}
    ctx.case(key=("reneg", scn_name(scn), victim), sample=None)
    ctx.count("renegotiation-cases")
    if v.state != "done" or L.end(peer).state != "done":
        ctx.disagree("honest-handshake-failed", rep, "complete", outcome_of(v))
        return
    sess_before = v.conn.session
    sid_before = bytes(sess_before.sessionID) if sess_before is not None else None
    ms_before = bytes(sess_before.masterSecret) if sess_before is not None else None
    pc = L.end(peer).conn
    n_rec_before = len(L.link.records("c2s" if victim == "client" else "s2c"))
    ed._direct(ed.synth(kind), "insert")
    pc.sock.flush()
    ed._direct(ed.synth("app_data"), "insert")
    pc.sock.flush()
    r1 = L.read(victim)
    sess_after = v.conn.session
    same_session = sess_after is sess_before and (sess_after is None or (
        bytes(sess_after.sessionID) == sid_before and bytes(sess_after.masterSecret) == ms_before))
    recs = L.link.records("c2s" if victim == "client" else "s2c")
    wrote_alert = len(recs) > n_rec_before
    open_after = not v.conn.closed
    toks_now = tokens_of(ed.emitted)
    # what the peer sees
    r2 = L.read(peer)
    peer_saw = None
    if r2[0] == "error" and isinstance(r2[1], errors.TLSRemoteAlert):
        peer_saw = alert_name(r2[1].description)
    # a second handshake must not be startable on the open connection
    start_raises = None
    if open_after:
        try:
            g = (v.conn.handshakeServerAsync(certChain=lab.creds("rsa")[0], privateKey=lab.creds("rsa")[1])
                 if victim == "server" else v.conn.handshakeClientCert(async_=True))
            next(g)
            start_raises = False
        except ValueError:
            start_raises = True
        except StopIteration:
            start_raises = False
        except Exception as e:  # noqa: B902
            start_raises = "other:" + type(e).__name__
    data_ok = r1[0] == "ok" and r1[1] == b"early-data!"
    fatal = r1[0] == "error" and isinstance(r1[1], errors.TLSLocalAlert)
    summary = dict(rep, attempt=kind, read=(r1[0], repr(r1[1])), peer_saw=peer_saw, same_session=same_session,
                   start_raises=start_raises, cfg=cfg_string(p))
    ok = same_session and wrote_alert and (
        (data_ok and peer_saw == "no_renegotiation" and start_raises is True and open_after) or
        (fatal and v.conn.closed and peer_saw is not None))
    if w.acc_at_done is None or v.conn.resumed not in (True, False):
        ok = False
    if not ok:
        ctx.violation("c06:renegotiation-not-refused",
                      "after completion a %s sent to the %s (%s) was not refused as required: data_ok=%s fatal=%s "
                      "peer saw alert %s, session unchanged=%s, _handshakeStart raises=%s"
                      % (kind, victim, scn_name(scn), data_ok, fatal, peer_saw, same_session, start_raises), summary)
    lc = ctx.lean()
    if lc is not None:
        toks = toks_now
        if toks is not None:
            o = lc.ask("run %s %s" % (cfg_string(p), " ".join(toks)))
            h = lc.ask("hsstart %s %s" % (cfg_string(p), " ".join(toks)))
            ctx.compared()
            if o == "bad-op":
                ctx.disagree("driver", summary, o, None)
                return
            m = parse_model(o)
            if p["ver"] == "tls13":
                agree = m["status"].startswith("abort@") and m["status"].endswith(":unexpected_message") and m["hs"] == 1 and fatal
            else:
                agree = m["status"] == "complete" and m["warn"] == 1 and m["del"] == 1 and data_ok
            if agree and open_after:
                agree = (h == "error") == (start_raises is True)
            if not agree:
                ctx.disagree("automaton-renegotiation", summary, o + " hsstart=" + h,
                             "data_ok=%s fatal=%s peer_saw=%s start_raises=%s" % (data_ok, fatal, peer_saw, start_raises))


# ---------------------------------------------------------------------------------------------
def run(ctx):
    import time
    ctx.rule = ("honest message traces recorded from lab handshakes (SSLv3..TLS1.3 x RSA/DHE/ECDHE_RSA/ECDHE_ECDSA/SRP/SRP+cert/"
                "anon/PSK x client auth x tickets x NPN x HRR x session-ID/ticket resumption); then one endpoint is the victim and "
                "the peer's outgoing sequence gets one (thorough: also two) deviation(s): skip, duplicate, swap adjacent, insert or "
                "replace by a message of another type (22 kinds incl. application data, CCS, Finished, HelloRequest, KeyUpdate, "
                "heartbeat, alerts), wrong-epoch record (null / previous / pending keys), un-hashed injected hello; plus a "
                "renegotiation attempt after completion. distinct = (scenario, victim, edits); non-trivial = at least one edit")
    ctx.assumptions = ["the peer is a real tlslite endpoint whose send path is edited, so its transcript and keys stay self-consistent",
                       "message contents are not modelled: when the automaton accepts an inserted message whose content comes from "
                       "another handshake, only the prefix up to that message is compared",
                       "a record protected under other keys than the victim's read state is compared as a class "
                       "(never proceeds: some fatal alert or an endless wait), not by alert description",
                       "RFC grammar oracle: harness/props/c06.py:rfc_regex (NewSessionTicket iff session_ticket extension, RFC 5077 3.3)"]
    rng = ctx.rng
    thorough = ctx.thorough()
    budget = 1150.0 if thorough else 90.0
    t0 = time.time()
    pending = []
    scns = sorted(all_scenarios(), key=lambda sm: not sm[1])      # main configurations first
    stats = {"scenarios": 0, "skipped_for_time": 0}
    honest_traces = {}
    for scn, main in scns:
        try:
            kw0 = prime(scn)
        except Exception as e:  # noqa: B902
            ctx.disagree("priming-failed", {"scn": scn}, "complete", repr(e))
            continue
        bank = bank_for(scn["ver"])
        stats["scenarios"] += 1
        for victim in ("server", "client"):
            kw = prime(scn) if scn.get("res") else {}
            obs = evaluate(ctx, pending, scn, victim, [], bank, kw, label="honest")
            if obs is None:
                continue
            if obs["hs"] != "complete" or obs["peer"] != "complete":
                ctx.disagree("honest-handshake-failed", {"scn": scn, "victim": victim}, "complete", obs["hs"] + "/" + obs["peer"])
                continue
            orig = obs["orig"]
            honest_traces[scn_name(scn) + "/" + victim] = " ".join(obs["received"])
            full = main or thorough
            for edits in alt_form_deviations(orig, victim, scn["ver"]):
                kw = prime(scn) if scn.get("res") else {}
                evaluate(ctx, pending, scn, victim, edits, bank, kw, label="alt-form")
                if len(pending) >= 300:
                    flush(ctx, pending)
            elapsed = time.time() - t0
            if elapsed > budget:
                stats["skipped_for_time"] += 1
                continue
            if full:
                if thorough:
                    devs = single_deviations(orig, lambda j: INSERT_KINDS)
                else:
                    def kinds_at(j, _r=rng):
                        return CORE_KINDS + _r.sample([k for k in INSERT_KINDS if k not in CORE_KINDS], 1)

                    def replace_at(j, _r=rng):
                        return _r.sample(INSERT_KINDS, 5)
                    devs = single_deviations(orig, kinds_at, replace_at)
                devs += targeted_deviations(orig, victim, scn["ver"])
            else:
                n = len(orig)
                devs = [[("skip", j)] for j in range(n)] + [[("dup", j)] for j in range(n)] + \
                       [[("swap", j)] for j in range(n - 1)]
                for _ in range(6):
                    devs.append([(rng.choice(["insert", "replace"]), rng.randrange(n), rng.choice(INSERT_KINDS))])
                devs += targeted_deviations(orig, victim, scn["ver"])[-5:]
            for edits in devs:
                kw = prime(scn) if scn.get("res") else {}
                evaluate(ctx, pending, scn, victim, edits, bank, kw)
                if len(pending) >= 300:
                    flush(ctx, pending)
            if thorough and (time.time() - t0) < budget * 0.8:
                singles = single_deviations(orig, lambda j: INSERT_KINDS)
                for _ in range(160 if main else 50):
                    a, b = rng.choice(singles), rng.choice(singles)
                    if a[0][0] == "swap" and b[0][0] == "swap" and abs(a[0][1] - b[0][1]) < 2:
                        continue
                    kw = prime(scn) if scn.get("res") else {}
                    evaluate(ctx, pending, scn, victim, a + b, bank, kw)
                    if len(pending) >= 300:
                        flush(ctx, pending)
            for script, fedits in post_scripts(scn, victim, thorough, rng):
                kw = prime(scn) if scn.get("res") else {}
                try:
                    post_case(ctx, pending, scn, victim, script, bank, kw, fedits)
                except Exception as e:  # noqa: B902
                    ctx.extra.setdefault("lab_errors", []).append({"scn": scn_name(scn), "victim": victim,
                                                                   "stage": "post", "error": repr(e)})
                    ctx.count("lab-error:" + type(e).__name__)
            if main or thorough:
                kw = prime(scn) if scn.get("res") else {}
                try:
                    renegotiation_case(ctx, pending, scn, victim, bank, kw)
                except Exception as e:  # noqa: B902
                    ctx.extra.setdefault("lab_errors", []).append({"scn": scn_name(scn), "victim": victim,
                                                                   "stage": "renegotiation", "error": repr(e)})
                    ctx.count("lab-error:" + type(e).__name__)
    flush(ctx, pending)
    ctx.extra["honest_traces"] = honest_traces
    ctx.extra["run_stats"] = stats
    if ctx.extra.get("lab_errors"):
        ctx.extra["lab_errors"] = ctx.extra["lab_errors"][:20]


def replay(ctx, rep):
    inp = rep["input"]
    if inp.get("stage") == "correspondence" and isinstance(inp.get("first"), dict):
        # a model/implementation disagreement: re-run the recorded cases only
        still = False
        for d in inp.get("all") or [inp["first"]]:
            c = d.get("case") or {}
            if c.get("scn") and c.get("victim"):
                still = replay(ctx, {"input": c}) or still
        return still
    scn = inp.get("scn")
    if not scn or "victim" not in inp:
        print("replay of stage %r: re-running the whole check" % inp.get("stage"))
        run(ctx)
        return bool(ctx.violations or ctx.disagreements)
    victim = inp["victim"]
    bank = bank_for(scn["ver"])
    kw = prime(scn) if scn.get("res") else {}
    pending = []
    if inp.get("stage") == "post" or inp.get("script"):
        post_case(ctx, pending, scn, victim, [tuple(a) for a in inp.get("script", [])], bank, kw,
                  tuple(tuple(e) for e in inp.get("flight_edits", [])))
    elif inp.get("stage") == "renegotiation":
        renegotiation_case(ctx, pending, scn, victim, bank, kw)
    else:
        edits = [tuple(e) for e in inp.get("edits", [])]
        obs = evaluate(ctx, pending, scn, victim, edits, bank, kw)
        if obs is not None:
            print("victim %s: handshake %s, post %s, received: %s" % (victim, obs["hs"], obs["post"], " ".join(obs["received"])))
            print("peer emitted: " + fmt_emitted(obs["emitted"]))
        ctx.build = ctx.build or {}
        flush(ctx, pending)
    for v in ctx.violations:
        print("violation:", v["key"], "-", v["what"])
    for d in ctx.disagreements:
        print("disagreement:", d["stream"], d["model"], "vs", d["impl"])
    return bool(ctx.violations or ctx.disagreements)


# ---------------------------------------------------------------------------------------------
# the post-handshake phase: readAsync dispatch, post-handshake authentication, KeyUpdate, close-wait
def py_post_ok(p, kinds, requests_before):
    """independent reading of RFC 8446 4.6 / RFC 5246 7.4.1.1 / RFC 6520 for what may ARRIVE on an
    established connection (list walk, not the Lean spec).  `kinds` may contain the local markers
    '!pha' (server application asks for authentication) and '!close'.  Returns the index of the
    first item that is not permitted, or None."""
    n = requests_before
    i = 0
    closing = False
    free = {"app_data", "empty_app_data"}
    if p["hb"]:
        free.add("heartbeat")
    while i < len(kinds):
        k = kinds[i]
        if k == "!pha":
            if p["ver"] == "tls13" and p["role"] == "server" and p["keypair"] and not closing:
                n += 1
        elif k == "!close":
            closing = True
        elif k in ("alert_warning", "alert_fatal", "close_notify", "no_certificate_alert"):
            return None                      # the connection ends here
        elif k in free:
            pass
        elif p["ver"] == "tls13":
            if k == "key_update":
                pass
            elif p["role"] == "client" and k == "new_session_ticket":
                pass
            elif p["role"] == "client" and k == "certificate_request" and p["keypair"] and not closing:
                pass
            elif p["role"] == "server" and not closing and n > 0 and \
                    (k == "certificate" or (k == "compressed_certificate" and p["compcert"])):
                # the client's answer: Certificate [CertificateVerify] Finished, consecutively
                want = ["certificate_verify", "finished"] if p["keypair"] else ["finished"]
                j = i + 1
                for w in want:
                    while j < len(kinds) and kinds[j] == "heartbeat" and p["hb"]:
                        j += 1
                    if j >= len(kinds):
                        return None          # flight still incomplete: fine so far
                    if kinds[j] in ("alert_warning", "alert_fatal", "close_notify"):
                        return None
                    if kinds[j] != w:
                        return j
                    j += 1
                n -= 1
                i = j
                continue
            else:
                return i
        else:
            if not (k == ("client_hello" if p["role"] == "server" else "hello_request")):
                return i
        i += 1
    return None


def post_case(ctx, pending, scn, victim, script, bank, kw, flight_edits=()):
    """honest handshake, then a script of post-handshake actions:
       ('vpha',) victim server requests authentication      ('ppha',) the peer (server) does
       ('pread',) peer reads once (answers a CertificateRequest)   ('vread',) victim reads all
       ('psend', kind) peer sends a synthetic message        ('pku',) peer sends a real KeyUpdate
       ('vclose',) victim closes with closeSocket=False      flight_edits: edits of the peer's
       next messages, positions relative to its first post-handshake message"""
    from harness import lab
    from tlslite import errors
    p = params_of(scn, victim)
    peer = "server" if victim == "client" else "client"
    L = lab.Lab()
    start(scn, L, **kw)
    ed = Editor(L, peer, [], bank, VERS[scn["ver"]])
    w = Watch(L.end(victim).conn)
    L.run()
    v, pe = L.end(victim), L.end(peer)
    rep = {"scn": scn, "victim": victim, "script": [list(a) for a in script],
           "flight_edits": [list(e) for e in flight_edits], "stage": "post"}
    ctx.case(key=("post", scn_name(scn), victim, tuple(script), tuple(flight_edits)), sample=None)
    ctx.count("post-handshake-cases")
    if v.state != "done" or pe.state != "done":
        ctx.disagree("honest-handshake-failed", rep, "complete", outcome_of(v))
        return
    n_hs = len(ed.emitted)
    chain_before = v.conn.session.clientCertChain if v.conn.session else None
    ed.edits = [tuple([e[0], ed.pos + e[1]] + list(e[2:])) for e in flight_edits]
    ed.applied = set()
    data = b""
    post = None
    closing_gen = None

    reader = {"active": False}

    def classify(e):
        if isinstance(e, errors.TLSLocalAlert):
            return "abort:" + alert_name(e.description)
        if isinstance(e, errors.TLSRemoteAlert):
            return "closed:" + alert_name(e.description)
        return "exc:" + type(e).__name__

    def vread():
        """drive ONE readAsync generator as an event loop does: it is kept across 'nothing to read'
        (abandoning it inside a post-handshake authentication flight would lose the flight state)"""
        nonlocal data, post
        if post is not None or v.conn.closed:
            return
        for _ in range(40):
            if not reader["active"]:
                v.start(v.conn.readAsync())
                reader["active"] = True
            else:
                v.state = "running"
            L.run(only=(victim,))
            if v.state == "done":
                reader["active"] = False
                if v.result:
                    data += bytes(v.result)
                    continue
                post = "eof"
                return
            if v.state == "error":
                reader["active"] = False
                post = classify(v.exc)
                return
            # stalled: nothing more to read right now.  readAsync fixes the acceptable handshake types
            # when it starts, so between messages the application's next read is a fresh call; only
            # inside an authentication flight the same call has to go on
            if not w.in_pha:
                v.gen.close()
                reader["active"] = False
            return

    for act in script:
        try:
            if act[0] == "vpha":
                vread()
                if reader["active"]:
                    # readAsync fixes the acceptable handshake types when it starts: a read that is
                    # pending while the application requests authentication would refuse the answer
                    v.gen.close()
                    reader["active"] = False
                if post is None:
                    try:
                        r = L.op(victim, v.conn.request_post_handshake_auth())
                    except ValueError:
                        r = ("refused", None)
                    ed.emitted.append({"kind": "!pha", "epoch": 0, "plus": False, "origin": "local"})
            elif act[0] == "ppha":
                L.op(peer, pe.conn.request_post_handshake_auth(), pump_other=False)
            elif act[0] == "pread":
                if not pe.conn.closed:
                    L.read(peer, min=0)
                    ed.finish_span_only() if hasattr(ed, "finish_span_only") else None
            elif act[0] == "vread":
                vread()
            elif act[0] == "psend":
                m = ed.synth(act[1])
                if m is not None and not pe.conn.closed:
                    ed._direct(m, "insert")
                    pe.conn.sock.flush()
            elif act[0] == "pku":
                if not pe.conn.closed:
                    L.op(peer, pe.conn.send_keyupdate_request(0), pump_other=False)
            elif act[0] == "vclose":
                vread()
                if post is None:
                    if reader["active"]:
                        v.gen.close()
                        reader["active"] = False
                    v.conn.closeSocket = False
                    ed.emitted.append({"kind": "!close", "epoch": 0, "plus": False, "origin": "local"})
                    closing_gen = v.conn.closeAsync()
                    v.start(closing_gen)
                    L.run(only=(victim,))
            elif act[0] == "vresume":
                if closing_gen is not None and v.state in ("stall", "running"):
                    v.state = "running"
                    L.run(only=(victim,))
                    if v.state == "error":
                        e = v.exc
                        post = ("abort:" + alert_name(e.description)) if isinstance(e, errors.TLSLocalAlert) else \
                            ("closed:" + alert_name(e.description)) if isinstance(e, errors.TLSRemoteAlert) else \
                            "exc:" + type(e).__name__
                    elif v.state == "done":
                        post = "eof"
        except Exception as e:  # noqa: B902
            ctx.count("post-lab-error:" + type(e).__name__)
            ctx.extra.setdefault("lab_errors", []).append({"scn": scn_name(scn), "victim": victim, "script": rep["script"],
                                                           "error": repr(e)})
            return
    ed.finish()
    if closing_gen is None:
        vread()
    late = [e for e in ed.emitted[n_hs:]]
    kinds_late = [e["kind"] for e in late if e.get("part") != "head"]
    summary = dict(rep, post=post, emitted=fmt_emitted(ed.emitted), received=list(w.received), data=data.hex(),
                   cfg=cfg_string(p), outstanding=len(getattr(v.conn, "_cert_requests", {}) or {}))
    # ---- oracle: the first item the RFCs do not permit must end the connection with a fatal alert;
    #      a client certificate is recorded only after a complete, consecutive flight
    bad = py_post_ok(p, kinds_late, 0)
    got = w.received[w.recs_at_done:]
    if bad is not None:
        # was the offending message read at all?  (count the messages up to it)
        n_before = len([k for k in kinds_late[:bad + 1] if not k.startswith("!")])
        if len(got) >= n_before and not (post or "").startswith("abort:") and all(
                e["epoch"] >= 0 for e in late):
            ctx.violation("c06:post-handshake-deviation-not-fatal:%s:%s" % (victim, kinds_late[bad]),
                          "%s (%s) read %s on the established connection, which the protocol does not permit there "
                          "(%s), and did not abort (outcome %s)" % (victim, scn_name(scn), kinds_late[bad],
                                                                  " ".join(kinds_late), post),
                          dict(summary, stage="oracle-post"))
    chain_after = v.conn.session.clientCertChain if v.conn.session else None
    if victim == "server" and chain_after is not chain_before:
        seq = [k for k in got if k not in ("heartbeat", "app_data", "empty_app_data", "key_update")]
        flight = ["certificate", "certificate_verify", "finished"]
        alt = ["compressed_certificate", "certificate_verify", "finished"]
        ok = any(seq[i:i + 3] in (flight, alt) for i in range(len(seq))) and "!pha" in kinds_late
        if not ok:
            ctx.violation("c06:pha-identity-recorded-without-complete-flight",
                          "server (%s) recorded a client certificate chain after the post-handshake messages %s"
                          % (scn_name(scn), " ".join(got)), dict(summary, stage="oracle-pha"))
    # ---- automaton
    lc = ctx.lean()
    if lc is None:
        return
    toks = []
    for e in ed.emitted:
        if e["kind"].startswith("!"):
            toks.append(e["kind"])
        elif e["kind"] == "unknown":
            ctx.count("unmodelled-token")
            return
        else:
            toks.append("%s:%d%s%s" % (e["kind"], e["epoch"], "+" if e["plus"] else "",
                                       {"head": "<", "tail": ">"}.get(e.get("part"), "")))
    o = lc.ask("run %s %s" % (cfg_string(p), " ".join(toks)))
    pa = lc.ask("postallowed %s 0 %s" % (cfg_string(p), " ".join(toks[n_hs:]))) if toks[n_hs:] else "true"
    ctx.compared()
    if o == "bad-op" or pa == "bad-op":
        ctx.disagree("driver", summary, o, None)
        return
    m = parse_model(o)
    obs = {"hs": "complete", "post": post, "acc": w.acc, "acc_at_done": w.acc_at_done, "read_epoch": w.read_epoch,
           "data": data, "emitted": ed.emitted}
    # foreign-content cut / exact comparison as for the handshake phase
    emx = [e for e in ed.emitted]
    diffs, cut = compare(dict(obs, emitted=emx), m)
    if not cut and not diffs and m.get("out") is not None and m["status"] in ("complete",) and \
            int(m["out"]) != summary["outstanding"]:
        diffs.append("outstanding")
    if diffs:
        ctx.disagree("automaton-post", dict(summary, diffs=diffs, acc=w.acc, read_epoch=w.read_epoch), o,
                     "complete post=%s acc=%s ep=%s del=%d out=%d" % (post, w.acc, w.read_epoch, len(data) // 11,
                                                                      summary["outstanding"]))
    # Lean post-handshake grammar vs the Python reading
    py = bad is None
    if (pa == "true") != py:
        ctx.disagree("lean-post-grammar-vs-python", summary, pa, py)


def post_scripts(scn, victim, thorough, rng):
    """(script, flight_edits) pairs for the post-handshake phase of a scenario"""
    out = []
    v13 = scn["ver"] == "tls13"
    kp = bool(scn.get("keypair") or scn.get("clientcert"))
    resumed = bool(scn.get("res")) or scn["kx"] == "psk"
    interesting = scn["ver"] in ("tls13", "tls12") and scn["kx"] in ("ecdhe", "psk") and not scn.get("hrr") \
        and not scn.get("nocomp") and not scn.get("npn")
    if not interesting and not thorough:
        return out
    junk = ["finished", "certificate", "certificate_verify", "new_session_ticket", "certificate_request", "ccs",
            "client_hello", "hello_request", "server_hello_done", "heartbeat", "empty_app_data"]
    # close-wait loop of _decrefAsync
    out.append(([("vclose",), ("psend", "app_data"), ("vresume",), ("psend", "close_notify"), ("vresume",)], ()))
    for k in (junk if thorough else rng.sample(junk, 4)):
        out.append(([("vclose",), ("psend", "app_data"), ("psend", k), ("vresume",), ("psend", "close_notify"),
                     ("vresume",)], ()))
    if v13:
        out.append(([("vclose",), ("pku",), ("psend", "app_data"), ("vresume",), ("psend", "close_notify"), ("vresume",)], ()))
        out.append(([("pku",), ("psend", "app_data"), ("pku",), ("psend", "app_data"), ("vread",)], ()))
        for k in junk[:5]:
            out.append(([("psend", "app_data"), ("psend", k), ("psend", "app_data"), ("vread",)], ()))
    if not v13 or resumed:
        return out
    if victim == "server":
        # post-handshake authentication, the server is the victim: the client's flight is edited
        out.append(([("vpha",), ("pread",), ("vread",)], ()))
        out.append(([("vpha",), ("vpha",), ("pread",), ("pread",), ("vread",), ("psend", "app_data"), ("vread",)], ()))
        out.append(([("psend", "certificate"), ("vread",)], ()))                 # a flight nobody asked for
        out.append(([("vpha",), ("pread",), ("vread",), ("psend", "certificate"), ("vread",)], ()))
        if kp:
            n = 3
            ins = ["key_update", "app_data", "ccs", "finished", "new_session_ticket", "certificate_verify",
                   "heartbeat", "alert_warning"]
            devs = []
            for j in range(n):
                devs += [[("skip", j)], [("dup", j)]]
                if j + 1 < n:
                    devs.append([("swap", j)])
                devs.append([("frag", j)])
                if j + 1 < n:
                    devs.append([("span", j)])
            for j in range(1, n):
                devs.append([("realku", j)])
            for j in range(n + 1):
                for k in (ins if thorough else rng.sample(ins, 3)):
                    devs.append([("insert", j, k)])
            for j in range(n):
                for k in (ins if thorough else rng.sample(ins, 1)):
                    devs.append([("replace", j, k)])
            for d in devs:
                out.append(([("vpha",), ("pread",), ("vread",), ("psend", "app_data"), ("vread",)], tuple(d)))
    else:
        # the client is the victim: CertificateRequest with / without a key pair, tickets, KeyUpdate
        if kp:
            out.append(([("ppha",), ("vread",), ("pread",), ("psend", "app_data"), ("vread",)], ()))
            out.append(([("ppha",), ("vread",), ("pread",), ("ppha",), ("vread",), ("pread",)], ()))
            out.append(([("ppha",), ("vread",), ("pread",), ("psend", "app_data"), ("vread",)], (("dup", 0),)))
            out.append(([("ppha",), ("pku",), ("psend", "app_data"), ("vread",)], ()))
        else:
            out.append(([("psend", "certificate_request"), ("vread",)], ()))
        out.append(([("psend", "new_session_ticket"), ("psend", "app_data"), ("vread",)], ()))
    return out
