"""C04 — tampering with the handshake in flight cannot yield two endpoints that disagree.

Lean: lean/TlsModel/Transcript.lean (flow scripts, transcript, Finished, sentinel, SCSV, HRR
comparison, binders), lean/Props/C04.lean (reduction to HashCollision / FinishedForgery, sentinel
and SCSV case analyses), lean/Drv/C04.lean.

Harness: two live TLSConnection endpoints in the lab with an ACTIVE on-path attacker
(link.filter).  Direct oracle, from the property text: it is never the case that both endpoints
complete while their views differ; if both complete although authenticated bytes were modified,
that is a violation; endpoints that both support a higher version never both complete at a lower
one.  Correspondence: flow scripts / transcript bytes / decision functions of the model against
the real endpoints, and which side notices a modification against the model's prediction.
"""
import hashlib
import os
import time

from ..leanclient import hx

TRANSLATORS = ["transcript"]

MANIFEST = {
    "text": "Proof (Lean 4): endpoints running the mirrored flow scripts against arbitrary attacker-chosen deliveries; if both "
            "complete then transcripts and Finished keys are equal, or HashCollision, or FinishedForgery "
            "(both_complete_transcripts_equal_or_bad_event, for every pair of flows and optional messages, 7 flows x 64 option sets "
            "per side); the hashed byte stream determines the message list (transcript_encoding_injective); every transcript-derived "
            "view coincides (complete_views_equal); sentinel write/check case analysis over all version triples "
            "(no_downgrade_tls12plus, sentinel_no_false_alarm); FALLBACK_SCSV (fallback_scsv_enforced, and "
            "fallback_scsv_enforced_before_resumption: the test precedes the resumption decision); HRR message_hash binds the "
            "first ClientHello (hrr_transcript_binds_first_hello); binders cover the truncated hello (binder_covers_truncated_hello, "
            "truncate_append_binders); TLS 1.3 key schedule over abstract HKDF and the <= 1.2 master secret / verify_data "
            "(keys13_depend_only_on_transcript_prefix, equal_transcripts_equal_secrets13, keySchedule13_finished_is_model_finished, "
            "finished_inputs_differ_or_collision, verifyData12_is_model_finished). Regenerated from the source on every run "
            "(translate/gen_transcript.py -> TlsModel/Gen/Transcript.lean) and tied by kernel-decided theorems: sentinel writes / "
            "checks, SCSV test, position and client append, record-layer hashing sites and HRR restarts, the transcript prefix "
            "every TLS 1.3 Derive-Secret / Finished / CertificateVerify sees for all 4 x 128 flows (generated_schedule13_conforms), "
            "<= 1.2 labels and EMS snapshot (generated_*). Tie: model flow scripts, transcript byte streams, sentinel / SCSV / version-choice / HRR "
            "comparison functions compared with the live endpoints; an active MITM in the in-memory lab flips every byte of the hello "
            "flights (3 masks), drops / duplicates / swaps records, rewrites hellos with tlslite's own message classes, attempts "
            "version rollback, for SSLv3..TLS1.3 x RSA/DHE/ECDHE (+SRP, anon, client auth, HRR, ID/ticket/PSK resumption); every "
            "derive_secret / secureHMAC / HKDF_expand_label / calc_key call of both live endpoints is intercepted and its "
            "label, order and transcript compared with the model's points, and every secret, Finished and EMS master secret "
            "recomputed independently (RFC 8446 7.1, RFC 5246, RFC 7627, SSLv3) from PSK, (EC)DHE and the transcript prefixes.",
    "note": "The abbreviated (resumption) ServerHello carries no downgrade sentinel in the code (serverRandomTailResumed); "
            "rollback of a resuming pair is stopped by the Finished MAC under the cached master secret (never completed in the "
            "lab). Collision resistance and PRF/MAC unforgeability are the named bad events, not assumptions. Below TLS 1.2 downgrade "
            "protection is only the Finished MAC. Record protection is not modelled here (C02); message bodies, key schedule "
            "values and semantic checks are arbitrary functions of the local history in the model.",
    "technique": "Lean 4 reduction with explicit bad events + finite case analyses; live active-MITM differential and direct oracle",
}

MASKS = (0x01, 0x80, 0xff)
OPT_NAMES = ("serverCert", "ske", "certReq", "clientCert", "nst", "npn", "compress")

# ------------------------------------------------------------------------------------------------
# scenarios


def _common(ver, **kw):
    d = dict(minv=ver, maxv=ver)
    d.update(kw)
    return d


def _tls13_kw(group):
    if group == "ffdhe2048":
        return dict(eccCurves=["secp256r1"], keyShares=["ffdhe2048"], dhGroups=["ffdhe2048"])
    return dict(eccCurves=["secp256r1", "x25519"], keyShares=[group], dhGroups=["ffdhe2048"])


VERNAME = {(3, 0): "ssl3", (3, 1): "tls10", (3, 2): "tls11", (3, 3): "tls12", (3, 4): "tls13"}


def scenarios():
    """name -> dict(flow, opts, ver, kind, params...).  Everything is plain data (picklable)."""
    S = {}
    for ver in [(3, 0), (3, 1), (3, 2), (3, 3)]:
        for kx in ("rsa", "dhe_rsa", "ecdhe_rsa"):
            S["full-%s-%s" % (VERNAME[ver], kx)] = dict(
                flow="full12", opts=dict(serverCert=1, ske=int(kx != "rsa")), ver=ver, kind="cert",
                cs=_common(ver, keyExchangeNames=[kx], dhGroups=["ffdhe2048"]),
                ss=_common(ver, keyExchangeNames=[kx], dhGroups=["ffdhe2048"]), family=kx)
    for group, fam in (("secp256r1", "ecdhe"), ("ffdhe2048", "dhe")):
        S["full-tls13-%s" % fam] = dict(flow="full13", opts=dict(serverCert=1, compress=1), ver=(3, 4), kind="cert",
                                        cs=_common((3, 4), **_tls13_kw(group)), ss=_common((3, 4), **_tls13_kw(group)),
                                        family=fam)
    # client authentication
    S["full-tls12-ecdhe_rsa-clientauth"] = dict(
        flow="full12", opts=dict(serverCert=1, ske=1, certReq=1, clientCert=1), ver=(3, 3), kind="cert", clientauth=True,
        cs=_common((3, 3), keyExchangeNames=["ecdhe_rsa"]), ss=_common((3, 3), keyExchangeNames=["ecdhe_rsa"]),
        family="ecdhe_rsa")
    S["full-tls13-ecdhe-clientauth"] = dict(
        flow="full13", opts=dict(serverCert=1, certReq=1, clientCert=1, compress=1), ver=(3, 4), kind="cert", clientauth=True,
        cs=_common((3, 4), **_tls13_kw("secp256r1")), ss=_common((3, 4), **_tls13_kw("secp256r1")), family="ecdhe")
    # ALPN + SNI + EtM/EMS visible in the views, default version range (negotiates 1.3 / 1.2)
    S["full-tls12-ecdhe_rsa-alpn"] = dict(
        flow="full12", opts=dict(serverCert=1, ske=1), ver=(3, 3), kind="cert", alpn=True,
        cs=dict(minv=(3, 1), maxv=(3, 3), keyExchangeNames=["ecdhe_rsa"], cipherNames=["aes128"], macNames=["sha"]),
        ss=dict(minv=(3, 1), maxv=(3, 3), keyExchangeNames=["ecdhe_rsa"], cipherNames=["aes128"], macNames=["sha"]),
        family="ecdhe_rsa")
    S["full-tls13-ecdhe-alpn"] = dict(
        flow="full13", opts=dict(serverCert=1), ver=(3, 4), kind="cert", alpn=True,
        cs=dict(minv=(3, 1), maxv=(3, 4), certificate_compression_receive=[], **_tls13_kw("secp256r1")),
        ss=dict(minv=(3, 1), maxv=(3, 4), certificate_compression_send=[], **_tls13_kw("secp256r1")),
        family="ecdhe")
    # SRP and anonymous (TLS 1.2)
    S["full-tls12-srp"] = dict(flow="full12", opts=dict(serverCert=0, ske=1), ver=(3, 3), kind="srp",
                               cs=_common((3, 3)), ss=_common((3, 3)), family="srp")
    S["full-tls12-anon"] = dict(flow="full12", opts=dict(serverCert=0, ske=1), ver=(3, 3), kind="anon",
                                cs=_common((3, 3), keyExchangeNames=["ecdh_anon"]),
                                ss=_common((3, 3), keyExchangeNames=["ecdh_anon"]), family="ecdh_anon")
    # HelloRetryRequest
    S["hrr-tls13"] = dict(flow="hrr13", opts=dict(serverCert=1, compress=1), ver=(3, 4), kind="cert",
                          cs=_common((3, 4), eccCurves=["x25519", "secp256r1"], keyShares=["x25519"]),
                          ss=_common((3, 4), eccCurves=["secp256r1"], keyShares=["secp256r1"]), family="ecdhe")
    # resumption
    for ver in [(3, 1), (3, 3)]:
        S["resume-id-%s" % VERNAME[ver]] = dict(
            flow="resumeId12", opts=dict(), ver=ver, kind="cert", resume="id",
            cs=_common(ver, keyExchangeNames=["rsa"]), ss=_common(ver, keyExchangeNames=["rsa"]), family="rsa")
    S["resume-ticket-tls12"] = dict(
        flow="resumeTicket12", opts=dict(), ver=(3, 3), kind="cert", resume="ticket",
        cs=_common((3, 3), keyExchangeNames=["ecdhe_rsa"]), ss=_common((3, 3), keyExchangeNames=["ecdhe_rsa"], ticket=True),
        family="ecdhe_rsa")
    S["psk-tls13"] = dict(flow="psk13", opts=dict(), ver=(3, 4), kind="cert", psk=True,
                          cs=_common((3, 4), **_tls13_kw("secp256r1")), ss=_common((3, 4), **_tls13_kw("secp256r1")),
                          family="psk_dhe")
    S["psk-ticket-tls13"] = dict(flow="psk13", opts=dict(), ver=(3, 4), kind="cert", resume="ticket13",
                                 cs=_common((3, 4), **_tls13_kw("secp256r1")),
                                 ss=_common((3, 4), ticket=True, **_tls13_kw("secp256r1")), family="psk_dhe")
    S["psk-hrr-tls13"] = dict(flow="pskHrr13", opts=dict(), ver=(3, 4), kind="cert", psk=True,
                              cs=_common((3, 4), eccCurves=["x25519", "secp256r1"], keyShares=["x25519"]),
                              ss=_common((3, 4), eccCurves=["secp256r1"], keyShares=["secp256r1"]), family="psk_dhe")
    # version ranges for rollback attempts and FALLBACK_SCSV
    for cmax in [(3, 2), (3, 3), (3, 4)]:
        for smax in [(3, 2), (3, 3), (3, 4)]:
            kw = dict(eccCurves=["secp256r1", "x25519"], keyShares=["secp256r1"], keyExchangeNames=["ecdhe_rsa", "rsa"])
            S["range-%s-%s" % (VERNAME[cmax], VERNAME[smax])] = dict(
                flow=None, opts=dict(), ver=min(cmax, smax), kind="cert", range=(cmax, smax),
                cs=dict(minv=(3, 0), maxv=cmax, **kw), ss=dict(minv=(3, 0), maxv=smax, **kw), family="range")
    # connection histories: full handshake that leaves a session (SessionCache / RFC 5077 ticket), a
    # black-holed attempt, then a retry that OFFERS the session: in fallback mode (lower maximum,
    # TLS_FALLBACK_SCSV) or honestly with the attacker rolling the resumption hello back
    for how in ("id", "ticket"):
        for cmax in [(3, 2), (3, 3), (3, 4)]:
            for smax in [(3, 2), (3, 3), (3, 4)]:
                if min(cmax, smax) > (3, 3):
                    continue            # a TLS 1.3 pair keeps no <= 1.2 session
                kw = dict(keyExchangeNames=["rsa"], cipherNames=["aes128"], macNames=["sha"],
                          eccCurves=["secp256r1", "x25519"], keyShares=["secp256r1"])
                skw = dict(kw, ticket=True) if how == "ticket" else kw
                S["hist-%s-%s-%s" % (how, VERNAME[cmax], VERNAME[smax])] = dict(
                    flow=None, opts=dict(), ver=min(cmax, smax), kind="cert", range=(cmax, smax), resume=how,
                    history=how, cs=dict(minv=(3, 0), maxv=cmax, **kw), ss=dict(minv=(3, 0), maxv=smax, **skw),
                    family="history")
    for name, sc in S.items():
        sc["name"] = name
        sc["optbits"] = "".join(str(int(bool(sc["opts"].get(k, 0)))) for k in OPT_NAMES)
    return S


_SC = None


def SC():
    global _SC
    if _SC is None:
        _SC = scenarios()
        only = os.environ.get("C04_ONLY")      # development aid: restrict to scenario name prefixes
        if only:
            _SC = {k: v for k, v in _SC.items() if any(k.startswith(o) for o in only.split(","))}
    return _SC


TICKET_KEY = bytes(range(32))
PSK = (b"c04-psk-id", b"\x07" * 32, "sha256")


def mk_settings(d, role, sc):
    from harness import lab
    d = dict(d)
    ticket = d.pop("ticket", False)
    s = lab.settings(**d)
    if ticket:
        s.ticketKeys = [bytearray(TICKET_KEY)]
        s.ticket_count = 1
    if sc.get("psk"):
        s.pskConfigs = [PSK]
    return s


# ------------------------------------------------------------------------------------------------
# the on-path attacker


class Attacker(object):
    """Byte/record level man in the middle, installed as link.filter.  It parses the ORIGINAL
    stream of each direction into records and forwards a modified stream."""

    def __init__(self, tamper):
        self.t = tamper or {"op": "none"}
        self.buf = {"c2s": bytearray(), "s2c": bytearray()}
        self.idx = {"c2s": 0, "s2c": 0}
        self.held = {"c2s": None, "s2c": None}
        self.orig = {"c2s": [], "s2c": []}      # records as sent
        self.fwd = {"c2s": [], "s2c": []}       # records as forwarded
        self.applied = False
        self.note = None

    def __call__(self, direction, data):
        buf = self.buf[direction]
        buf += data
        out = bytearray()
        while len(buf) >= 5:
            ln = (buf[3] << 8) | buf[4]
            if len(buf) < 5 + ln:
                break
            rec = bytes(buf[:5 + ln])
            del buf[:5 + ln]
            i = self.idx[direction]
            self.idx[direction] += 1
            self.orig[direction].append(rec)
            for r in self.on_record(direction, i, rec):
                self.fwd[direction].append(r)
                out += r
        return bytes(out)

    def on_record(self, d, i, rec):
        t = self.t
        op = t["op"]
        if op == "none" or t.get("dir") != d:
            return [rec]
        if op == "flip":
            if i == t["rec"] and t["off"] < len(rec):
                b = bytearray(rec)
                b[t["off"]] ^= t["mask"]
                self.applied = True
                return [bytes(b)]
            return [rec]
        if op == "drop":
            if i == t["rec"]:
                self.applied = True
                return []
            return [rec]
        if op == "dup":
            if i == t["rec"]:
                self.applied = True
                return [rec, rec]
            return [rec]
        if op == "swap":
            if i == t["rec"]:
                self.held[d] = rec
                return []
            if i == t["rec"] + 1 and self.held[d] is not None:
                h, self.held[d] = self.held[d], None
                self.applied = True
                return [rec, h]
            return [rec]
        if op == "refragment":
            # split one unprotected record into two records at `at` (record-layer re-framing)
            if i == t["rec"] and len(rec) - 5 > t["at"] > 0:
                body = rec[5:]
                a, b = body[:t["at"]], body[t["at"]:]
                self.applied = True
                return [rec[:3] + bytes([len(a) >> 8, len(a) & 255]) + a, rec[:3] + bytes([len(b) >> 8, len(b) & 255]) + b]
            return [rec]
        if op == "rewrite":
            if i == t["rec"]:
                new = rewrite_record(rec, t, self)
                if new is not None and new != rec:
                    self.applied = True
                    return [new]
            return [rec]
        if op == "rewrite2":
            # two cooperating rewrites: t['first'] on c2s record, t['second'] on s2c record
            return [rec]
        raise ValueError("unknown tamper " + op)


class Attacker2(Attacker):
    """several tampers at once (list), e.g. rollback of the ClientHello + sentinel removal"""

    def __init__(self, tampers):
        Attacker.__init__(self, {"op": "none"})
        self.subs = [Attacker(t) for t in tampers]
        self.tampers = tampers

    def on_record(self, d, i, rec):
        recs = [rec]
        for sub in self.subs:
            nxt = []
            for r in recs:
                nxt.extend(sub.on_record(d, i, r))
            recs = nxt
            if sub.applied:
                self.applied = True
        return recs


# ------------------------------------------------------------------------------------------------
# message-level rewriting with tlslite's own classes


def _parse_hs(body):
    """single handshake message in a record body -> (type, msgbody) or None"""
    if len(body) < 4:
        return None
    n = int.from_bytes(body[1:4], "big")
    if len(body) != 4 + n:
        return None
    return body[0], body[4:]


def rewrite_record(rec, t, att=None):
    """returns the new record or None when the rewrite does not apply to this record"""
    from tlslite.messages import ClientHello, ServerHello
    from tlslite.utils.codec import Parser
    from tlslite.constants import ContentType
    if rec[0] != ContentType.handshake:
        return None
    body = rec[5:]
    p = _parse_hs(body)
    if p is None:
        return None
    ht, _ = p
    what = t["what"]
    try:
        if ht == 1 and what.startswith("ch:"):
            m = ClientHello().parse(Parser(bytearray(body[1:])))
            if not rewrite_ch(m, what[3:], t):
                return None
        elif ht == 2 and what.startswith("sh:"):
            m = ServerHello().parse(Parser(bytearray(body[1:])))
            if not rewrite_sh(m, what[3:], t):
                return None
        else:
            return None
        new = bytes(m.write())
    except Exception as e:      # the rewrite itself failed: not applied
        if att is not None:
            att.note = "rewrite failed: %s" % type(e).__name__
        return None
    if len(new) > 0x4000:
        return None
    return rec[:3] + bytes([len(new) >> 8, len(new) & 255]) + new


def _ext_index(m, etype):
    if not m.extensions:
        return None
    for i, e in enumerate(m.extensions):
        if e.extType == etype:
            return i
    return None


def _raw_ext(etype, data):
    from tlslite.extensions import TLSExtension
    return TLSExtension(extType=etype).create(bytearray(data))


def rewrite_ch(m, what, t):
    """modify a parsed ClientHello in place; False = not applicable"""
    from tlslite.constants import CipherSuite, ExtensionType
    if what == "version":
        v = tuple(t["to"])
        if m.client_version == v:
            return False
        m.client_version = v
        return True
    if what == "drop_ext":
        i = _ext_index(m, t["ext"])
        if i is None:
            return False
        del m.extensions[i]
        return True
    if what == "versions_ext":
        i = _ext_index(m, ExtensionType.supported_versions)
        if i is None:
            return False
        keep = [tuple(v) for v in t["to"]]
        data = bytes([2 * len(keep)]) + b"".join(bytes(v) for v in keep)
        m.extensions[i] = _raw_ext(ExtensionType.supported_versions, data)
        return True
    if what == "rollback":
        # force at most version `to`: legacy version field and supported_versions
        v = tuple(t["to"])
        changed = False
        i = _ext_index(m, ExtensionType.supported_versions)
        if i is not None:
            if v >= (3, 4):
                return False
            del m.extensions[i]
            changed = True
        if m.client_version > v:
            m.client_version = v
            changed = True
        return changed
    if what == "suites_keep":
        # keep only the suites at the given positions (weakest / last ...)
        idx = t["idx"]
        scsv = [s for s in m.cipher_suites if s in (CipherSuite.TLS_FALLBACK_SCSV, CipherSuite.TLS_EMPTY_RENEGOTIATION_INFO_SCSV)]
        real = [s for s in m.cipher_suites if s not in scsv]
        keep = [real[i] for i in idx if -len(real) <= i < len(real)]
        if not keep or keep + scsv == list(m.cipher_suites):
            return False
        m.cipher_suites = keep + scsv
        return True
    if what == "suites_reverse":
        new = list(reversed(m.cipher_suites))
        if new == list(m.cipher_suites):
            return False
        m.cipher_suites = new
        return True
    if what == "add_scsv":
        if CipherSuite.TLS_FALLBACK_SCSV in m.cipher_suites:
            return False
        m.cipher_suites = list(m.cipher_suites) + [CipherSuite.TLS_FALLBACK_SCSV]
        return True
    if what == "del_scsv":
        if CipherSuite.TLS_FALLBACK_SCSV not in m.cipher_suites:
            return False
        m.cipher_suites = [s for s in m.cipher_suites if s != CipherSuite.TLS_FALLBACK_SCSV]
        return True
    if what == "groups_keep":
        i = _ext_index(m, ExtensionType.supported_groups)
        if i is None:
            return False
        g = list(m.extensions[i].groups)
        keep = [g[j] for j in t["idx"] if -len(g) <= j < len(g)]
        if not keep or keep == g:
            return False
        data = (2 * len(keep)).to_bytes(2, "big") + b"".join(x.to_bytes(2, "big") for x in keep)
        m.extensions[i] = _raw_ext(ExtensionType.supported_groups, data)
        return True
    if what == "ext_data":
        # replace the payload of an extension by another well-formed payload
        i = _ext_index(m, t["ext"])
        if i is None:
            return False
        old = bytes(m.extensions[i].write())[4:]
        new = bytes.fromhex(t["data"])
        if old == new:
            return False
        m.extensions[i] = _raw_ext(t["ext"], new)
        return True
    if what == "add_ext":
        if _ext_index(m, t["ext"]) is not None:
            return False
        if m.extensions is None:
            m.extensions = []
        pos = len(m.extensions)
        # keep pre_shared_key last
        if pos and m.extensions[-1].extType == ExtensionType.pre_shared_key:
            pos -= 1
        m.extensions.insert(pos, _raw_ext(t["ext"], bytes.fromhex(t["data"])))
        return True
    if what == "random":
        m.random = bytearray(m.random)
        m.random[t.get("at", 0)] ^= 0x01
        return True
    if what == "session_id":
        if not m.session_id:
            m.session_id = bytearray(b"\x01" * 32)
        else:
            m.session_id = bytearray(m.session_id)
            m.session_id[0] ^= 0x01
        return True
    raise ValueError("unknown ClientHello rewrite " + what)


def rewrite_sh(m, what, t):
    from tlslite.constants import ExtensionType
    if what == "version":
        v = tuple(t["to"])
        if m.server_version == v:
            return False
        m.server_version = v
        return True
    if what == "suite":
        if m.cipher_suite == t["to"]:
            return False
        m.cipher_suite = t["to"]
        return True
    if what == "drop_ext":
        i = _ext_index(m, t["ext"])
        if i is None:
            return False
        del m.extensions[i]
        if not m.extensions:
            m.extensions = None
        return True
    if what == "ext_data":
        i = _ext_index(m, t["ext"])
        if i is None:
            return False
        old = bytes(m.extensions[i].write())[4:]
        new = bytes.fromhex(t["data"])
        if old == new:
            return False
        m.extensions[i] = _raw_ext(t["ext"], new)
        return True
    if what == "add_ext":
        if _ext_index(m, t["ext"]) is not None:
            return False
        if m.extensions is None:
            m.extensions = []
        m.extensions.append(_raw_ext(t["ext"], bytes.fromhex(t["data"])))
        return True
    if what == "strip_sentinel":
        r = bytearray(m.random)
        if bytes(r[-8:-1]) != b"DOWNGRD":
            return False
        r[-8:] = bytes(8 * [0x5a])
        m.random = r
        return True
    if what == "random":
        m.random = bytearray(m.random)
        m.random[t.get("at", 0)] ^= 0x01
        return True
    if what == "session_id":
        if not m.session_id:
            m.session_id = bytearray(b"\x02" * 32)
        else:
            m.session_id = bytearray(m.session_id)
            m.session_id[0] ^= 0x01
        return True
    raise ValueError("unknown ServerHello rewrite " + what)


# ------------------------------------------------------------------------------------------------
# running one handshake under an attacker

SYM_FIELDS = ("version", "cipherSuite", "masterSecret", "cl_app_secret", "sr_app_secret", "exporterMasterSecret",
              "resumptionMasterSecret", "etm", "ems", "session_ems", "session_etm", "appProto", "serverName",
              "serverCertChain", "clientCertChain", "ecdhCurve", "dhGroupSize", "srpUsername")

_PRIME = {}


def _hs_buffer(conn):
    hh = conn._handshake_hash
    if conn.version is not None and tuple(conn.version) >= (3, 4) and getattr(conn, "_first_handshake_hashes", None) is not None:
        hh = conn._first_handshake_hashes
    return bytes(hh.digest("intrinsic"))


def _view(conn):
    from harness import lab
    o = lab.observe(conn)
    v = {}
    for k in SYM_FIELDS:
        x = o.get(k)
        if isinstance(x, (bytes, bytearray)):
            x = bytes(x).hex()
        elif isinstance(x, list):
            x = [hashlib.sha256(bytes(c)).hexdigest()[:16] for c in x]
        elif isinstance(x, tuple):
            x = list(x)
        v[k] = x
    # the limits are mirrored: what one side may send is what the other accepts
    v["limits"] = [o.get("send_limit"), o.get("recv_limit")]
    v["sessionID"] = o.get("sessionID").hex() if o.get("sessionID") else None
    v["resumed"] = o.get("resumed")
    return v


def start_endpoints(L, sc, cs, ss, prime=None):
    """start the two handshake generators of a scenario on lab L"""
    from harness import lab
    kind = sc["kind"]
    ckw, skw = {}, {}
    if sc.get("alpn"):
        ckw["alpn"] = [bytearray(b"h2"), bytearray(b"http/1.1")]
        skw["alpn"] = [bytearray(b"http/1.1"), bytearray(b"h2")]
        ckw["serverName"] = "c04.example.com"
    if sc.get("clientauth"):
        cc, ck = lab.creds("client_rsa")
        ckw["certChain"], ckw["privateKey"] = cc, ck
        skw["reqCert"] = True
    if prime is not None:
        ckw["session"] = prime.get("session")
        if prime.get("cache") is not None:
            skw["sessionCache"] = prime["cache"]
    elif sc.get("resume") == "id":
        from tlslite.sessioncache import SessionCache
        skw["sessionCache"] = SessionCache()
    if kind == "cert":
        chain, key = lab.creds("rsa")
        L.start_client(lambda c: c.handshakeClientCert(settings=cs, async_=True, **ckw))
        L.start_server(lambda c: c.handshakeServerAsync(certChain=chain, privateKey=key, settings=ss, **skw))
    elif kind == "srp":
        from tlslite.verifierdb import VerifierDB
        db = _PRIME.get("srpdb")
        if db is None:
            db = VerifierDB()
            db.create()
            db[b"alice"] = VerifierDB.makeVerifier(b"alice", bytearray(b"password"), 1024)
            _PRIME["srpdb"] = db
        L.start_client(lambda c: c.handshakeClientSRP(bytearray(b"alice"), bytearray(b"password"), settings=cs, async_=True))
        L.start_server(lambda c: c.handshakeServerAsync(verifierDB=db, settings=ss))
    elif kind == "anon":
        L.start_client(lambda c: c.handshakeClientAnonymous(settings=cs, async_=True))
        L.start_server(lambda c: c.handshakeServerAsync(anon=True, settings=ss))
    else:
        raise ValueError(kind)
    return skw.get("sessionCache")


def prime_session(sc):
    """an honest first connection whose session the tampered connection tries to resume"""
    from harness import lab
    cs = mk_settings(sc["cs"], "client", sc)
    ss = mk_settings(sc["ss"], "server", sc)
    L = lab.Lab()
    cache = start_endpoints(L, dict(sc, resume=sc.get("resume")), cs, ss)
    L.run()
    if L.client.state != "done" or L.server.state != "done":
        raise RuntimeError("priming handshake failed: %r %r" % (L.client.exc, L.server.exc))
    if sc["resume"] == "ticket13":
        # the client must read the NewSessionTicket the server sent after its Finished
        L.read("client", max=1, min=1)
    return {"session": L.client.conn.session, "cache": cache}


def black_holed_attempt(sc, prime):
    """the attacker swallows everything the server says: the client's attempt (offering its
    session, at its real maximum version) goes nowhere"""
    from harness import lab
    cs = mk_settings(sc["cs"], "client", sc)
    ss = mk_settings(sc["ss"], "server", sc)
    L = lab.Lab()
    L.link.filter = lambda d, data: b"" if d == "s2c" else data
    start_endpoints(L, sc, cs, ss, prime)
    L.run()
    return [L.client.state, L.server.state]


def trace_both(L, logs):
    from harness import lab
    lab.trace_messages(L.client.conn, logs["client"])
    lab.trace_messages(L.server.conn, logs["server"])


def _exc_msg(e):
    if e is None:
        return None
    m = getattr(e, "message", None)
    return (str(m) if m else str(e))[:160]


def install_hook(L, hook, counter):
    """a cooperating faulty endpoint: its own Finished goes out with one verify_data byte changed"""
    from harness import lab
    from tlslite.messages import Finished
    conn = L.end(hook["side"]).conn

    def fn(kind, msg):
        if isinstance(msg, Finished) and hook["what"] == "finished":
            vd = bytearray(msg.verify_data)
            j = hook["byte"] if hook["byte"] >= 0 else len(vd) + hook["byte"]
            if 0 <= j < len(vd):
                vd[j] ^= hook["mask"]
                msg.verify_data = vd
                counter["n"] += 1
        return [msg]
    lab.hook_messages(conn, fn)


class KeyTap(object):
    """records every key-schedule call the handshake code of tlsconnection.py makes on either live
    endpoint: derive_secret / secureHMAC / HKDF_expand_label (TLS 1.3) and calc_key (<= 1.2), with the
    transcript (`digest('intrinsic')`) they were given"""
    NAMES = ("derive_secret", "secureHMAC", "HKDF_expand_label", "calc_key")

    def __init__(self):
        self.cur = [None]
        self.calls = []
        self.orig = {}

    def tagged(self, gen, name):
        cur = self.cur

        def g():
            while True:
                cur[0] = name
                try:
                    r = next(gen)
                except StopIteration as s:
                    return s.value
                finally:
                    cur[0] = None
                yield r
        return g()

    @staticmethod
    def _buf(hh):
        return None if hh is None else bytes(hh.digest("intrinsic")).hex()

    def install(self):
        import tlslite.tlsconnection as tc
        calls, cur = self.calls, self.cur
        for n in self.NAMES:
            self.orig[n] = getattr(tc, n)
        o = self.orig

        def derive_secret(secret, label, handshake_hashes, algorithm):
            out = o["derive_secret"](secret, label, handshake_hashes, algorithm)
            calls.append({"side": cur[0], "fn": "derive", "label": bytes(label).decode("latin1"), "secret": bytes(secret).hex(),
                          "tr": KeyTap._buf(handshake_hashes), "alg": algorithm, "out": bytes(out).hex()})
            return out

        def secureHMAC(k, b, algorithm):
            out = o["secureHMAC"](k, b, algorithm)
            calls.append({"side": cur[0], "fn": "hmac", "key": bytes(k).hex(), "data": bytes(b).hex(), "alg": algorithm,
                          "out": bytes(out).hex()})
            return out

        def HKDF_expand_label(secret, label, hashValue, length, algorithm):
            out = o["HKDF_expand_label"](secret, label, hashValue, length, algorithm)
            calls.append({"side": cur[0], "fn": "expand", "label": bytes(label).decode("latin1"), "secret": bytes(secret).hex(),
                          "ctx": bytes(hashValue).hex(), "alg": algorithm, "out": bytes(out).hex()})
            return out

        def calc_key(version, secret, cipher_suite, label, handshake_hashes=None, client_random=None,
                     server_random=None, output_length=None):
            out = o["calc_key"](version, secret, cipher_suite, label, handshake_hashes=handshake_hashes,
                                client_random=client_random, server_random=server_random, output_length=output_length)
            calls.append({"side": cur[0], "fn": "calc_key", "label": bytes(label).decode("latin1"), "secret": bytes(secret).hex(),
                          "tr": KeyTap._buf(handshake_hashes), "suite": cipher_suite, "version": list(version),
                          "randoms": (bytes(client_random).hex(), bytes(server_random).hex())
                          if client_random is not None and server_random is not None else None,
                          "out": bytes(out).hex()})
            return out
        tc.derive_secret, tc.secureHMAC, tc.HKDF_expand_label, tc.calc_key = derive_secret, secureHMAC, HKDF_expand_label, calc_key

    def remove(self):
        import tlslite.tlsconnection as tc
        for n, f in self.orig.items():
            setattr(tc, n, f)


def run_case(case):
    """one handshake of scenario case['scn'] under tamper case['tamper'] (dict or list of dicts).
    Returns a plain dict (picklable)."""
    from harness import lab
    sc = SC()[case["scn"]]
    cs = mk_settings(case.get("cs_override") or sc["cs"], "client", sc)
    ss = mk_settings(case.get("ss_override") or sc["ss"], "server", sc)
    for k, v in (case.get("cs_attr") or {}).items():
        setattr(cs, k, tuple(v) if isinstance(v, list) else v)
    for k, v in (case.get("ss_attr") or {}).items():
        setattr(ss, k, tuple(v) if isinstance(v, list) else v)
    prime = prime_session(sc) if sc.get("resume") and not case.get("no_session") else None
    disrupted = None
    if prime is not None and case.get("disrupt"):
        disrupted = black_holed_attempt(sc, prime)
    L = lab.Lab()
    tam = case.get("tamper")
    att = Attacker2(tam) if isinstance(tam, list) else Attacker(tam)
    L.link.filter = att
    logs = {"client": [], "server": []}
    if case.get("trace"):
        trace_both(L, logs)
    tap = KeyTap() if case.get("tap") else None
    hooked = {"n": 0}
    if case.get("hook"):
        install_hook(L, case["hook"], hooked)
    t0 = time.time()
    start_endpoints(L, sc, cs, ss, prime)
    if tap is not None:
        L.client.gen = tap.tagged(L.client.gen, "client")
        L.server.gen = tap.tagged(L.server.gen, "server")
        tap.install()
    try:
        L.run()
    finally:
        if tap is not None:
            tap.remove()
    res = {
        "scn": case["scn"], "tamper": tam, "applied": att.applied, "note": att.note,
        "c_state": L.client.state, "s_state": L.server.state,
        "c_exc": lab.exc_class(L.client.exc), "s_exc": lab.exc_class(L.server.exc),
        "c_msg": _exc_msg(L.client.exc), "s_msg": _exc_msg(L.server.exc),
        "ms": int((time.time() - t0) * 1000), "hooked": hooked["n"],
        "disrupted": disrupted,
        "c_resumed": bool(L.client.conn.resumed), "s_resumed": bool(L.server.conn.resumed),
        "c_ver": list(L.client.conn.version) if L.client.conn.version else None,
        "s_ver": list(L.server.conn.version) if L.server.conn.version else None,
    }
    both = L.client.state == "done" and L.server.state == "done"
    res["both"] = both
    if both or case.get("want_views"):
        try:
            res["c_view"] = _view(L.client.conn)
            res["s_view"] = _view(L.server.conn)
            res["c_tr"] = _hs_buffer(L.client.conn).hex()
            res["s_tr"] = _hs_buffer(L.server.conn).hex()
        except Exception as e:
            res["view_error"] = "%s: %s" % (type(e).__name__, e)
    if both or case.get("want_wire"):
        res["orig"] = {d: [r.hex() for r in att.orig[d]] for d in att.orig}
        res["fwd"] = {d: [r.hex() for r in att.fwd[d]] for d in att.fwd}
        # bytes delivered but never read by the receiver while the handshake ran
        res["unread"] = {d: len(L.link.q[d]) + len(getattr(L.end("server" if d == "c2s" else "client").conn.sock,
                                                           "_read_buffer", b"")) for d in ("c2s", "s2c")}
    if case.get("trace"):
        res["logs"] = {k: [(a, b, c.hex()) for a, b, c in v] for k, v in logs.items()}
    if tap is not None:
        res["tap"] = tap.calls
    return res


# ------------------------------------------------------------------------------------------------
# model correspondence: flow script and transcript bytes

KEY_OF = {"client_key_exchange": "cke", "certificate": "cert", "compressed_certificate": "cert",
          "certificate_verify": "cv", "next_protocol": "np", "new_session_ticket": "nst",
          "encrypted_extensions": "ee", "server_key_exchange": "ske", "certificate_request": "cr",
          "server_hello_done": "shd"}


def clean_log(log):
    """drop the flush entries of queued TLS 1.3 flights: [(name, bytes)] as handed to the record layer"""
    out = []
    pending = b""
    for kind, name, data in log:
        data = bytes.fromhex(data) if isinstance(data, str) else bytes(data)
        if kind == "queue":
            pending += data
            out.append((name, data))
        else:
            if pending and data == pending:
                pending = b""
                continue
            pending = b""
            out.append((name, data))
    return out


def wire_events(res):
    """the honest run as a sequence of model events `C:1 S:2 ccsC finC …` in per-side order merged by
    the flow's causality: we only need per-direction sequences, the script is compared per side"""
    seqs = {}
    for side, tag in (("client", "C"), ("server", "S")):
        ev = []
        for name, data in clean_log(res["logs"][side]):
            if name == "change_cipher_spec":
                ev.append("ccs" + tag)
            elif name.startswith("handshake:"):
                ev.append("fin" + tag if data[0] == 20 else "%s:%d" % (tag, data[0]))
            else:
                ev.append("other:" + name)
        seqs[side] = ev
    return seqs


def model_script(lc, sc):
    return lc.ask("script %s %s" % (sc["flow"], sc["optbits"])).split()


def prf_of_suite(suite):
    from tlslite.constants import CipherSuite
    return "sha384" if suite in CipherSuite.sha384PrfSuites else "sha256"


def run_line(sc, side, res, suite):
    """the `run` request: this side's own bodies + what was delivered to it (honest: what the peer sent)"""
    own = clean_log(res["logs"][side])
    peer = clean_log(res["logs"]["server" if side == "client" else "client"])
    is13 = sc["flow"] in ("full13", "hrr13", "psk13", "pskHrr13")
    hrr = sc["flow"] in ("hrr13", "pskHrr13")
    fins = {}
    prod = []
    n_ch = 0
    n_sh = 0
    for name, data in own + peer:
        if name.startswith("handshake:") and data[0] == 20:
            fins["client" if (name, data) in [(a, b) for a, b in (own if side == "client" else peer)] else "server"] = data[4:]
    for name, data in own:
        if not name.startswith("handshake:") or data[0] == 20:
            continue
        short = name.split(":", 1)[1]
        if short == "client_hello":
            n_ch += 1
            key = "ch%d" % n_ch
        elif short == "server_hello":
            n_sh += 1
            key = "hrr" if (hrr and n_sh == 1) else "sh"
        else:
            key = KEY_OF.get(short)
        if key is None:
            continue
        prod.append("%s:%s" % (key, hx(data[4:])))
    inp = []
    for name, data in peer:
        if name == "change_cipher_spec":
            if not is13:
                inp.append("ccs")
        elif name.startswith("handshake:"):
            if is13 and data[0] == 4:
                continue            # post-handshake NewSessionTicket
            inp.append("%d:%s" % (data[0], hx(data[4:])))
    htable = "-"
    if hrr:
        ch1 = [d for n, d in (own if side == "client" else peer) if n == "handshake:client_hello"][0]
        htable = "%s:%s" % (ch1.hex(), getattr(hashlib, prf_of_suite(suite))(ch1).hexdigest())
    return "run %s %s %s %s %s %s %s %s" % (side, sc["flow"], sc["optbits"], htable, hx(fins.get("client", b"")),
                                           hx(fins.get("server", b"")), ",".join(prod) or "-", ",".join(inp) or "-")


# ------------------------------------------------------------------------------------------------
# wire layout of a scenario (from an honest run)

IS13 = ("full13", "hrr13", "psk13", "pskHrr13")


def classify_records(records, is13):
    """[(class, hstype)] per record: 'hello' (plaintext ClientHello/ServerHello/HRR), 'plain'
    (other plaintext handshake), 'ccs', 'prot' (record protection active), 'other'"""
    out = []
    seen_ccs = False
    for r in records:
        t = r[0]
        if t == 20 and not (seen_ccs and not is13):
            out.append(("ccs", None))
            if not is13:
                seen_ccs = True
        elif is13 and t == 23:
            out.append(("prot", None))
        elif t == 22 and not (seen_ccs and not is13):
            ht = r[5] if len(r) > 5 else None
            out.append(("hello" if ht in (1, 2) else "plain", ht))
        else:
            out.append(("prot", None))
    return out


def layout_of(sc, base):
    is13 = sc["flow"] in IS13 or (sc["flow"] is None and tuple(sc["ver"]) >= (3, 4))
    lay = {}
    for d in ("c2s", "s2c"):
        recs = [bytes.fromhex(x) for x in base["orig"][d]]
        lay[d] = [(cls, ht, len(r)) for (cls, ht), r in zip(classify_records(recs, is13), recs)]
    return lay


def event_index(script, d, k):
    """index in the model script of the k-th hashed event sent in direction d"""
    tag = "C" if d == "c2s" else "S"
    n = -1
    for i, e in enumerate(script):
        if e.startswith(tag + ":") or e == "fin" + tag:
            n += 1
            if n == k:
                return i
    return None


def canon(records, is13):
    """what a direction carries apart from record framing: the plaintext handshake byte stream
    and the protected records (and, below 1.3, the CCS records)"""
    hs = b""
    prot = []
    ccs = []
    recs = [bytes.fromhex(x) if isinstance(x, str) else x for x in records]
    for (cls, _), r in zip(classify_records(recs, is13), recs):
        if cls in ("hello", "plain"):
            hs += r[5:]
        elif cls == "ccs":
            if not is13:
                ccs.append(r[5:])
        else:
            prot.append((r[0], r[3:]))       # type + length + body: all authenticated
    return hs, prot, ccs


def consumed(records, unread):
    """the records the receiver actually read (whole records still queued at the end are what an
    attacker appended after the handshake; they are the business of the record layer, C02)"""
    recs = [bytes.fromhex(x) if isinstance(x, str) else x for x in records]
    while recs and unread >= len(recs[-1]):
        unread -= len(recs[-1])
        recs.pop()
    return recs


def is_prefix(a, b):
    """componentwise: what was consumed is an initial part of what the sender sent"""
    (hs1, prot1, ccs1), (hs2, prot2, ccs2) = a, b
    return hs2.startswith(hs1) and prot2[:len(prot1)] == prot1 and ccs2[:len(ccs1)] == ccs1


# ------------------------------------------------------------------------------------------------
# case generation


def tkey(t):
    if isinstance(t, list):
        return tuple(tkey(x) for x in t)
    if isinstance(t, dict):
        return tuple(sorted((k, tkey(v)) for k, v in t.items()))
    return t


def flip_cases(ctx, sc, lay, full_scn):
    rng = ctx.rng
    thorough = ctx.thorough()
    cases = []
    for d in ("c2s", "s2c"):
        for i, (cls, ht, n) in enumerate(lay[d]):
            if cls == "hello" and (full_scn or thorough):
                offs = [(o, m) for o in range(n) for m in MASKS]
            elif cls == "hello":
                # secondary scenario, quick tier: every position, one mask in rotation
                offs = [(o, MASKS[(o + i) % 3]) for o in range(n)]
            elif thorough and full_scn:
                offs = [(o, m) for o in range(n) for m in MASKS]
            elif thorough:
                offs = [(o, MASKS[(o + i) % 3]) for o in range(n)]
            else:
                pos = set(range(min(n, 13))) | {n - 1, n - 2} | {rng.randrange(n) for _ in range(10 if full_scn else 4)}
                offs = [(o, rng.choice(MASKS)) for o in sorted(p for p in pos if 0 <= p < n)]
            for o, m in offs:
                cases.append({"scn": sc["name"], "kind": "flip", "cls": cls,
                              "tamper": {"op": "flip", "dir": d, "rec": i, "off": o, "mask": m}})
    return cases


def record_cases(ctx, sc, lay):
    cases = []
    for d in ("c2s", "s2c"):
        n = len(lay[d])
        for i in range(n):
            for op in ("drop", "dup", "swap"):
                if op == "swap" and i + 1 >= n:
                    continue
                cases.append({"scn": sc["name"], "kind": op, "cls": lay[d][i][0],
                              "tamper": {"op": op, "dir": d, "rec": i}})
            if lay[d][i][0] in ("hello", "plain") and lay[d][i][2] > 12:
                for at in (1, 4, (lay[d][i][2] - 5) // 2):
                    cases.append({"scn": sc["name"], "kind": "refragment", "cls": lay[d][i][0],
                                  "tamper": {"op": "refragment", "dir": d, "rec": i, "at": at}})
    return cases


def hello_records(lay):
    """[(dir, rec index, handshake type)] of the plaintext hello records in wire order per direction"""
    return [(d, i, ht) for d in ("c2s", "s2c") for i, (cls, ht, n) in enumerate(lay[d]) if cls == "hello"]


ALL_VERS = [(3, 0), (3, 1), (3, 2), (3, 3), (3, 4)]


def parse_hello(rec):
    from tlslite.messages import ClientHello, ServerHello
    from tlslite.utils.codec import Parser
    body = rec[5:]
    if body[0] == 1:
        return ClientHello().parse(Parser(bytearray(body[1:])))
    return ServerHello().parse(Parser(bytearray(body[1:])))


def rewrite_cases(ctx, sc, lay, base):
    """rewriting of offered versions / suites / groups / extensions in every ClientHello and of
    the selection in every ServerHello / HelloRetryRequest of the scenario"""
    from tlslite.constants import ExtensionType as ET
    cases = []

    def add(d, i, what, **kw):
        t = {"op": "rewrite", "dir": d, "rec": i, "what": what}
        t.update(kw)
        cases.append({"scn": sc["name"], "kind": "rewrite", "cls": "hello", "tamper": t, "want_wire": True})

    ch_suites = []
    for d, i, ht in hello_records(lay):
        rec = bytes.fromhex(base["orig"][d][i])
        try:
            m = parse_hello(rec)
        except Exception:
            continue
        exts = [e.extType for e in (m.extensions or [])]
        if ht == 1:
            ch_suites = list(m.cipher_suites)
            for v in ALL_VERS:
                add(d, i, "ch:version", to=list(v))
                if v < tuple(sc["ver"]):
                    add(d, i, "ch:rollback", to=list(v))
            for e in exts:
                add(d, i, "ch:drop_ext", ext=e)
            for e in (m.extensions or []):
                pay = bytes(e.write())[4:]
                if e.extType == ET.pre_shared_key:
                    continue
                add(d, i, "ch:ext_data", ext=e.extType, data=(pay + b"\x00").hex())
                if pay:
                    add(d, i, "ch:ext_data", ext=e.extType, data=(pay[:-1] + bytes([pay[-1] ^ 1])).hex())
                    add(d, i, "ch:ext_data", ext=e.extType, data="")
            if ET.supported_versions in exts:
                add(d, i, "ch:versions_ext", to=[[3, 3]])
                add(d, i, "ch:versions_ext", to=[[3, 3], [3, 4]])
                add(d, i, "ch:versions_ext", to=[[3, 2], [3, 1]])
                add(d, i, "ch:versions_ext", to=[[3, 4]])
            add(d, i, "ch:suites_keep", idx=[-1])
            add(d, i, "ch:suites_keep", idx=[0])
            add(d, i, "ch:suites_keep", idx=[1, 0])
            add(d, i, "ch:suites_reverse")
            add(d, i, "ch:add_scsv")
            add(d, i, "ch:del_scsv")
            add(d, i, "ch:groups_keep", idx=[-1])
            add(d, i, "ch:groups_keep", idx=[0])
            add(d, i, "ch:groups_keep", idx=[1, 0])
            add(d, i, "ch:random", at=0)
            add(d, i, "ch:random", at=31)
            add(d, i, "ch:session_id")
            # extension payloads replaced by other well-formed payloads
            add(d, i, "ch:ext_data", ext=ET.alpn, data="0003026832")                       # only h2
            add(d, i, "ch:ext_data", ext=ET.alpn, data="000c08687474702f312e31026832")       # reordered
            add(d, i, "ch:ext_data", ext=ET.server_name, data="0012000010" + b"c05.example.com.".hex()[:32])
            add(d, i, "ch:ext_data", ext=ET.signature_algorithms, data="00020401")
            add(d, i, "ch:ext_data", ext=ET.record_size_limit, data="0200")
            add(d, i, "ch:ext_data", ext=ET.ec_point_formats, data="0100")
            add(d, i, "ch:ext_data", ext=ET.psk_key_exchange_modes, data="0100")
            add(d, i, "ch:ext_data", ext=ET.extended_master_secret, data="00")
            add(d, i, "ch:ext_data", ext=ET.encrypt_then_mac, data="00")
            for e, data in ((ET.encrypt_then_mac, ""), (ET.extended_master_secret, ""), (ET.alpn, "0003026832"),
                            (ET.server_name, "000e00000b" + b"evil.example".hex()[:22]), (ET.record_size_limit, "0400"),
                            (0xff77, "c0ffee"), (ET.renegotiation_info, "00"), (ET.session_ticket, ""),
                            (ET.supported_versions, "020303")):
                add(d, i, "ch:add_ext", ext=e, data=data)
        else:
            for v in ALL_VERS:
                add(d, i, "sh:version", to=list(v))
            alt = [x for x in ch_suites if x != m.cipher_suite and x not in (0xff, 0x5600)]
            for x in (alt[:3] + alt[-2:]):
                add(d, i, "sh:suite", to=x)
            for e in exts:
                add(d, i, "sh:drop_ext", ext=e)
            for e in (m.extensions or []):
                pay = bytes(e.write())[4:]
                add(d, i, "sh:ext_data", ext=e.extType, data=(pay + b"\x00").hex())
                add(d, i, "sh:ext_data", ext=e.extType, data=(pay + b"\x00\x01\x02").hex())
                if pay:
                    add(d, i, "sh:ext_data", ext=e.extType, data=(pay[:-1] + bytes([pay[-1] ^ 1])).hex())
                    add(d, i, "sh:ext_data", ext=e.extType, data="")
            add(d, i, "sh:ext_data", ext=ET.alpn, data="0003026832")
            add(d, i, "sh:ext_data", ext=ET.alpn, data="000908687474702f312e31")
            add(d, i, "sh:ext_data", ext=ET.supported_versions, data="0303")
            add(d, i, "sh:ext_data", ext=ET.supported_versions, data="0304")
            add(d, i, "sh:ext_data", ext=ET.record_size_limit, data="0200")
            add(d, i, "sh:ext_data", ext=ET.ec_point_formats, data="020001")
            add(d, i, "sh:ext_data", ext=ET.renegotiation_info, data="0100")
            for e, data in ((ET.encrypt_then_mac, ""), (ET.extended_master_secret, ""), (ET.alpn, "0003026832"),
                            (ET.record_size_limit, "0400"), (ET.session_ticket, ""), (ET.heartbeat, "01"),
                            (ET.server_name, "")):
                add(d, i, "sh:add_ext", ext=e, data=data)
            add(d, i, "sh:random", at=0)
            add(d, i, "sh:random", at=31)
            add(d, i, "sh:session_id")
            add(d, i, "sh:strip_sentinel")
    return cases


def rollback_cases(ctx, sc, lay):
    """both ends support min(cmax, smax); the attacker forces something lower"""
    cmax, smax = sc["range"]
    hi = min(cmax, smax)
    cases = []
    for v in ALL_VERS:
        if v >= hi:
            continue
        roll = {"op": "rewrite", "dir": "c2s", "rec": 0, "what": "ch:rollback", "to": list(v)}
        strip = {"op": "rewrite", "dir": "s2c", "rec": 0, "what": "sh:strip_sentinel"}
        cases.append({"scn": sc["name"], "kind": "rollback", "cls": "hello", "tamper": roll, "want_wire": True, "forced": list(v)})
        cases.append({"scn": sc["name"], "kind": "rollback+strip", "cls": "hello", "tamper": [roll, strip], "want_wire": True,
                      "forced": list(v)})
        if hi >= (3, 4) and v <= (3, 3):
            # rewriting only supported_versions
            keep = [list(x) for x in ALL_VERS if (3, 1) <= x <= v]
            if keep:
                t = {"op": "rewrite", "dir": "c2s", "rec": 0, "what": "ch:versions_ext", "to": keep}
                cases.append({"scn": sc["name"], "kind": "rollback", "cls": "hello", "tamper": t, "want_wire": True, "forced": list(v)})
                cases.append({"scn": sc["name"], "kind": "rollback+strip", "cls": "hello", "tamper": [t, strip], "want_wire": True,
                              "forced": list(v)})
    # FALLBACK_SCSV: a client that retries with a lower maximum and says so
    for v in ALL_VERS:
        if (3, 0) <= v <= cmax:
            c = {"scn": sc["name"], "kind": "fallback", "cls": "hello", "tamper": None, "want_wire": True,
                 "cs_attr": {"maxVersion": v, "sendFallbackSCSV": True}, "forced": list(v)}
            cases.append(c)
            cases.append(dict(c, kind="fallback-stripped",
                              tamper={"op": "rewrite", "dir": "c2s", "rec": 0, "what": "ch:del_scsv"}))
    cases.append({"scn": sc["name"], "kind": "scsv-inserted", "cls": "hello", "want_wire": True,
                  "tamper": {"op": "rewrite", "dir": "c2s", "rec": 0, "what": "ch:add_scsv"}})
    return cases


def history_cases(ctx, sc):
    """retries that offer the session of an earlier connection"""
    cmax, smax = sc["range"]
    v0 = min(cmax, smax)
    cases = []
    name = sc["name"]
    cases.append({"scn": name, "kind": "hist-resume", "cls": "hello", "tamper": None, "want_wire": True, "disrupt": True})
    for v in ALL_VERS:
        if v > cmax:
            continue
        base = {"scn": name, "cls": "hello", "want_wire": True, "disrupt": True, "forced": list(v),
                "cs_attr": {"maxVersion": v, "sendFallbackSCSV": True}}
        cases.append(dict(base, kind="hist-fallback", tamper=None))
        cases.append(dict(base, kind="hist-fallback-stripped",
                          tamper={"op": "rewrite", "dir": "c2s", "rec": 0, "what": "ch:del_scsv"}))
        # the same retry by a client that lost its session: full handshake path
        cases.append(dict(base, kind="hist-fallback-nosession", tamper=None, no_session=True, disrupt=False))
    for v in ALL_VERS:
        if v >= v0:
            continue
        roll = {"op": "rewrite", "dir": "c2s", "rec": 0, "what": "ch:rollback", "to": list(v)}
        cases.append({"scn": name, "kind": "hist-rollback", "cls": "hello", "tamper": roll, "want_wire": True,
                      "forced": list(v), "disrupt": True})
        # ... and the version put back in the ServerHello the client sees
        back = {"op": "rewrite", "dir": "s2c", "rec": 0, "what": "sh:version", "to": list(min(v0, (3, 3)))}
        cases.append({"scn": name, "kind": "hist-rollback+shversion", "cls": "hello", "tamper": [roll, back],
                      "want_wire": True, "forced": list(v), "disrupt": True})
    cases.append({"scn": name, "kind": "hist-scsv-inserted", "cls": "hello", "want_wire": True, "disrupt": True,
                  "tamper": {"op": "rewrite", "dir": "c2s", "rec": 0, "what": "ch:add_scsv"}})
    return cases


def finished_cases(ctx, sc, base):
    """a cooperating faulty peer sends a Finished whose verify_data differs in one byte"""
    cases = []
    n = {(3, 0): 36, (3, 4): None}.get(tuple(sc["ver"]), 12)
    if n is None:
        n = 48 if prf_of_suite(base["c_view"]["cipherSuite"]) == "sha384" else 32
    for side in ("client", "server"):
        for j in range(n):
            m = MASKS[j % 3] if not ctx.thorough() else None
            for mask in ([m] if m else MASKS):
                cases.append({"scn": sc["name"], "kind": "finished-byte", "cls": "prot", "tamper": None,
                              "hook": {"side": side, "what": "finished", "byte": j, "mask": mask}})
    return cases


# ------------------------------------------------------------------------------------------------
# oracle and model-vs-implementation comparison for one finished run


def local_sides(res):
    out = []
    for side, k in (("client", "c_exc"), ("server", "s_exc")):
        e = res[k]
        if e.startswith("local_alert") or e.startswith("tls_error") or e.startswith("python:"):
            out.append(side)
    return out


def diff_views(res, fields):
    cv, sv = res.get("c_view"), res.get("s_view")
    if cv is None or sv is None:
        return ["<no view: %s>" % res.get("view_error")]
    bad = []
    for k in fields:
        a, b = cv.get(k), sv.get(k)
        if k == "limits":
            b = list(reversed(b)) if b else b
        if a != b:
            bad.append(k)
    return bad


VIEW_FIELDS = SYM_FIELDS + ("limits", "sessionID")


class Judge(object):
    """evaluates results in the parent process; holds per-scenario baselines"""

    def __init__(self, ctx):
        self.ctx = ctx
        self.base = {}
        self.lay = {}
        self.script = {}
        self.fields = {}
        self.benign = {}
        self.base_version = {}
        self.outcomes = {}
        self.pred_single = 0

    # -- direct oracle ---------------------------------------------------------------------
    def oracle(self, case, res, report=True):
        """returns list of (key, what) violations of the property on this run"""
        ctx = self.ctx
        sc = SC()[case["scn"]]
        bad = []
        kind = case.get("kind", "honest")
        modified = bool(res.get("applied")) or bool(res.get("hooked"))
        if res["both"]:
            fields = self.fields.get(case["scn"], VIEW_FIELDS)
            bv = self.base_version.get(case["scn"])
            if bv is not None and res.get("c_view") and res["c_view"].get("version") != bv:
                # another version than the scenario's untouched run: fields that are recorded by one
                # side only at that version were not calibrated; keep the core of the view
                fields = CORE_FIELDS
            dv = diff_views(res, fields)
            if dv:
                bad.append(("c04:both-complete-views-differ",
                            "both endpoints completed (%s, %s) but their views differ in %s" % (case["scn"], kind, dv)))
            if res.get("c_tr") != res.get("s_tr"):
                bad.append(("c04:both-complete-transcripts-differ",
                            "both endpoints completed (%s, %s) with different handshake transcripts" % (case["scn"], kind)))
            if res.get("applied") and res.get("orig"):
                is13 = tuple(res["c_view"]["version"]) >= (3, 4)
                changed = [d for d in ("c2s", "s2c")
                           if not is_prefix(canon(consumed(res["fwd"][d], res["unread"][d]), is13),
                                            canon(res["orig"][d], is13))]
                if changed:
                    bad.append(("c04:accepted-modified-authenticated-bytes",
                                "both endpoints completed (%s) although the attacker changed handshake content in %s (%s)"
                                % (case["scn"], changed, kind)))
                elif not dv and report:
                    f = self.benign_field(case, res)
                    self.benign[f] = self.benign.get(f, 0) + 1
            if res.get("hooked"):
                bad.append(("c04:finished-with-wrong-verify-data-accepted",
                            "a Finished whose verify_data differs from the computed value in byte %s was accepted (%s)"
                            % (case["hook"]["byte"], case["scn"])))
            if sc.get("range") and kind != "honest":
                hi = min(sc["range"])
                got = tuple(res["c_view"]["version"])
                cm = tuple((case.get("cs_attr") or {}).get("maxVersion", sc["range"][0]))
                if got < min(cm, sc["range"][1]) or ("rollback" in kind and got < hi):
                    key = "c04:resumption-no-downgrade-sentinel" if (res.get("c_resumed") and "rollback" in kind) \
                        else "c04:downgrade-completed"
                    bad.append((key, "both endpoints support %s but completed at %s%s (%s)"
                                % (hi, got, " by resumption" if res.get("c_resumed") else " under rewriting", kind)))
        # enforcement of the downgrade sentinel (RFC 8446 4.1.3) and FALLBACK_SCSV (RFC 7507)
        if sc.get("range") and res.get("orig") and res["orig"]["s2c"]:
            cmax, smax = sc["range"]
            cmax = tuple((case.get("cs_attr") or {}).get("maxVersion", cmax))
            sh = self._server_hello(res["orig"]["s2c"])
            if sh is not None and bytes(sh.random) != HRR_RANDOM:
                v = self._sh_version(sh)
                tail = bytes(sh.random[-8:])
                want = None
                if smax >= (3, 4) and v == (3, 3):
                    want = b"DOWNGRD\x01"
                elif smax >= (3, 3) and v < (3, 3):
                    want = b"DOWNGRD\x00"
                abbreviated = bool(sc.get("history")) and not case.get("no_session") and \
                    self._abbreviated(res["orig"]["s2c"])
                if want is not None and tail != want and abbreviated:
                    # the code writes the sentinel only in the full-handshake ServerHello; the abbreviated
                    # one is protected by the Finished MAC alone (reported, and see c04:downgrade-completed)
                    if report:
                        self.ctx.count("observation:abbreviated-ServerHello-without-sentinel")
                elif want is not None and tail != want:
                    bad.append(("c04:sentinel-not-written",
                                "server with maxVersion %s negotiated %s but ServerHello.random ends in %s" % (smax, v, tail.hex())))
                # what the client saw
                shd = self._server_hello(res["fwd"]["s2c"])
                if shd is not None and bytes(shd.random) != HRR_RANDOM:
                    vd = self._sh_version(shd)
                    taild = bytes(shd.random[-8:])
                    must_abort = (cmax >= (3, 4) and vd <= (3, 3) and taild in (b"DOWNGRD\x01", b"DOWNGRD\x00")) or \
                                 (cmax == (3, 3) and vd < (3, 3) and taild == b"DOWNGRD\x00")
                    # the client sent handshake / CCS records after its hello
                    went_on = any(bytes.fromhex(r)[0] in (20, 22, 23) for r in res["orig"]["c2s"][1:])
                    if must_abort and (went_on or res["c_exc"] != "local_alert:47"):
                        bad.append(("c04:sentinel-not-enforced",
                                    "client with maxVersion %s received a ServerHello for %s carrying a downgrade sentinel "
                                    "and did not abort with illegal_parameter (%s)" % (cmax, vd, res["c_exc"])))
            if (case.get("cs_attr") or {}).get("sendFallbackSCSV") and res["orig"]["c2s"]:
                ch_sent = self._client_hello(res["orig"]["c2s"])
                if ch_sent is not None and 0x5600 not in ch_sent.cipher_suites:
                    bad.append(("c04:fallback-scsv-not-sent",
                                "client with sendFallbackSCSV (maxVersion lowered to %s)%s sent a ClientHello without "
                                "TLS_FALLBACK_SCSV%s" % (cmax, " offering a session" if ch_sent.session_id else "",
                                                         "; both endpoints completed at %s" % (res["c_view"]["version"],)
                                                         if res["both"] else "")))
            if ("fallback" in kind or "scsv" in kind) and res["fwd"]["c2s"]:
                ch = self._client_hello(res["fwd"]["c2s"])
                if ch is not None and 0x5600 in ch.cipher_suites:
                    offered = self._ch_max_version(ch)
                    if offered < smax and res["s_exc"] != "local_alert:86" and sh is not None:
                        bad.append(("c04:fallback-scsv-not-enforced",
                                    "server with maxVersion %s answered a ClientHello offering at most %s with "
                                    "TLS_FALLBACK_SCSV%s (%s)"
                                    % (smax, offered, " by resuming the offered session" if res.get("s_resumed") or
                                       (sc.get("history") and not case.get("no_session")) else "", res["s_exc"])))
        if kind == "honest" and not res["both"]:
            bad.append(("c04:honest-handshake-fails",
                        "the untouched handshake of %s does not complete: client %s / server %s"
                        % (case["scn"], res["c_exc"], res["s_exc"])))
        return bad

    @staticmethod
    def _abbreviated(records):
        """the server's first flight is ServerHello [NewSessionTicket] CCS: no Certificate / ServerHelloDone"""
        types = []
        for r in records:
            r = bytes.fromhex(r)
            if r[0] == 20:
                break
            if r[0] == 22 and len(r) > 5:
                types.append(r[5])
        return bool(types) and types[0] == 2 and 14 not in types and 11 not in types

    def benign_field(self, case, res=None):
        t = case.get("tamper")
        if isinstance(t, list):
            return "combined"
        if res is not None and res.get("unread", {}).get(t["dir"]):
            n = len(consumed(res["fwd"][t["dir"]], res["unread"][t["dir"]]))
            if t["rec"] >= n or (t["op"] == "dup" and t["rec"] + 1 >= n):
                return "record-not-read-during-handshake"
        if t["op"] == "flip":
            return "record-header-byte-%d" % t["off"] if t["off"] < 5 else "record-body-%s" % case.get("cls")
        return "%s-%s" % (t["op"], case.get("cls"))

    @staticmethod
    def _first_hs(records, want):
        for r in records:
            r = bytes.fromhex(r)
            if r[0] == 22 and len(r) > 9 and r[5] == want:
                return r
        return None

    def _server_hello(self, records):
        r = self._first_hs(records, 2)
        if r is None:
            return None
        try:
            return parse_hello(r)
        except Exception:
            return None

    def _client_hello(self, records):
        r = self._first_hs(records, 1)
        if r is None:
            return None
        try:
            return parse_hello(r)
        except Exception:
            return None

    @staticmethod
    def _sh_version(sh):
        from tlslite.constants import ExtensionType
        v = tuple(sh.server_version)
        e = sh.getExtension(ExtensionType.supported_versions)
        if e is not None and getattr(e, "version", None):
            v = tuple(e.version)
        return v

    @staticmethod
    def _ch_max_version(ch):
        from tlslite.constants import ExtensionType
        v = tuple(ch.client_version)
        e = ch.getExtension(ExtensionType.supported_versions)
        if e is not None and e.versions:
            known = [tuple(x) for x in e.versions if tuple(x) in ALL_VERS]
            if known:
                v = max(known + [v]) if v >= (3, 3) else v
        return v

    # -- correspondence with the model's message-level prediction ---------------------------
    def predict(self, case, lc):
        """allowed local detectors of a modification, from the model"""
        sc = SC()[case["scn"]]
        t = case.get("tamper")
        if not isinstance(t, dict) or t["op"] not in ("flip", "rewrite") or sc["flow"] is None:
            return None
        d, i = t["dir"], t["rec"]
        lay = self.lay[case["scn"]]
        cls, ht, n = lay[d][i]
        receiver = "server" if d == "c2s" else "client"
        if t["op"] == "flip" and t["off"] < 5:
            return None                   # framing: anything but a disagreement may happen
        if cls in ("prot", "ccs"):
            return {receiver}
        k = len([1 for c in lay[d][:i] if c[0] in ("hello", "plain")])
        idx = event_index(self.script[case["scn"]], d, k)
        if idx is None:
            return None
        det = lc.ask("detector %s %s %d" % (sc["flow"], sc["optbits"], idx))
        return {receiver} | set(x for x in det.split(",") if x in ("client", "server"))

    def correspond(self, case, res, lc):
        ctx = self.ctx
        if lc is None or res["both"]:
            return
        allowed = self.predict(case, lc)
        if allowed is None:
            return
        loc = local_sides(res)
        ctx.compared()
        if len(allowed) == 1:
            self.pred_single += 1
        if loc and not (set(loc) & allowed):
            ctx.disagree("detector", {"scn": case["scn"], "tamper": case["tamper"]}, sorted(allowed),
                         {"local": loc, "client": res["c_exc"], "server": res["s_exc"]})


HRR_RANDOM = bytes.fromhex("CF21AD74E59A6111BE1D8C021E65B891C2A211167ABB8C5E079E09E2C8A8339C")


# ------------------------------------------------------------------------------------------------
# range scenarios: version choice, SCSV, sentinel — model decision functions vs live endpoints


def sversions_of(maxv):
    return "3.4,3.3,3.2,3.1" if tuple(maxv) >= (3, 4) else "3.3,3.2,3.1"


def tail_class(t):
    return {b"DOWNGRD\x01": "s12", b"DOWNGRD\x00": "s11"}.get(bytes(t), "random")


def range_correspond(J, case, res, lc):
    from tlslite.constants import ExtensionType
    ctx = J.ctx
    sc = SC()[case["scn"]]
    if lc is None or not res.get("orig"):
        return
    cmax, smax = sc["range"]
    cmax = tuple((case.get("cs_attr") or {}).get("maxVersion", cmax))
    ident = {"scn": case["scn"], "kind": case.get("kind"), "tamper": case.get("tamper"), "cs_attr": case.get("cs_attr"),
             "no_session": case.get("no_session")}
    # what the client put on the wire
    ch0 = J._client_hello(res["orig"]["c2s"])
    if ch0 is not None:
        cv = sversions_of(cmax)
        m = lc.ask("offer %d %d %s" % (cmax[0], cmax[1], cv)).split()
        e = ch0.getExtension(ExtensionType.supported_versions)
        impl = [str(ch0.client_version[0]), str(ch0.client_version[1]),
                "none" if e is None else (",".join("%d.%d" % tuple(v) for v in (e.versions or [])) or "-")]
        ctx.compared()
        if m != impl:
            ctx.disagree("clientOffer", ident, m, impl)
        want_scsv = bool((case.get("cs_attr") or {}).get("sendFallbackSCSV"))
        ctx.compared()
        if (0x5600 in ch0.cipher_suites) != want_scsv or (want_scsv and ch0.cipher_suites[-1] != 0x5600):
            ctx.disagree("clientWireSuites", ident, want_scsv, list(ch0.cipher_suites)[-3:])
    # what the server decided on the hello it received
    ch = J._client_hello(res["fwd"]["c2s"])
    sh = J._server_hello(res["orig"]["s2c"])
    if ch is None:
        return
    if case.get("kind") in ("flip", "drop", "dup", "swap", "refragment"):
        return          # byte-level damage: the server's syntax checks come first; covered by the oracle
    e = ch.getExtension(ExtensionType.supported_versions)
    if e is not None and e.versions is None:
        return
    ext = "none" if e is None else (",".join("%d.%d" % tuple(v) for v in e.versions) or "-")
    smin = tuple(sc["ss"]["minv"])
    sel = lc.ask("selver %d %d %d %d %d %d %s %s" % (smin[0], smin[1], smax[0], smax[1], ch.client_version[0],
                                                     ch.client_version[1], sversions_of(smax), ext))
    if sc.get("history") and case.get("kind") in ("hist-resume", "hist-fallback", "hist-fallback-nosession",
                                                  "hist-scsv-inserted", "hist-fallback-stripped"):
        # order of the server's decisions: version, SCSV, then resumption.  The session the client
        # offers here is valid (same suite, name, EMS), so the lookup succeeds whenever it is reached.
        offered = not case.get("no_session")
        if sc["history"] == "ticket":
            te = ch.getExtension(ExtensionType.session_ticket)
            offered = offered and te is not None and bool(te.ticket)
        else:
            offered = offered and bool(ch.session_id)
        after = lc.ask("after %d %d %d %d %d %d %s %s %s %d" % (
            smin[0], smin[1], smax[0], smax[1], ch.client_version[0], ch.client_version[1], sversions_of(smax), ext,
            ",".join(str(x) for x in ch.cipher_suites), int(offered)))
        if after.startswith("err:inappropriate_fallback"):
            impl = "err:inappropriate_fallback" if res["s_exc"] == "local_alert:86" else \
                ("abbreviated" if J._abbreviated(res["orig"]["s2c"]) else res["s_exc"])
        elif after.startswith("ok"):
            impl = "abbreviated" if J._abbreviated(res["orig"]["s2c"]) else \
                ("full" if sh is not None else res["s_exc"])
            after = after.split()[-1]
        else:
            impl = after
        ctx.compared()
        # a later local abort (the resumption block's own consistency checks: EtM / EMS / SNI of the
        # session against an extension-less SSLv3 hello; suite selection) is past the point compared here
        later = after in ("full", "abbreviated") and impl.startswith("local_alert") and impl != "local_alert:86"
        if after != impl and not later:
            ctx.disagree("serverAfterHello", ident, after, impl)
    if sel.startswith("err"):
        ctx.compared()
        if res["s_exc"] != "local_alert:70":
            ctx.disagree("serverSelectVersion", ident, sel, res["s_exc"])
        return
    v = tuple(int(x) for x in sel.split()[1:])
    scsv = lc.ask("scsv %d %d %d %d %s" % (smax[0], smax[1], v[0], v[1], ",".join(str(x) for x in ch.cipher_suites)))
    if scsv.startswith("abort"):
        ctx.compared()
        if res["s_exc"] != "local_alert:86":
            ctx.disagree("serverChecksScsv", ident, scsv, res["s_exc"])
        return
    ctx.compared()
    if res["s_exc"] == "local_alert:86":
        ctx.disagree("serverChecksScsv", ident, scsv, res["s_exc"])
    if sh is None or bytes(sh.random) == HRR_RANDOM:
        return
    ctx.compared()
    if J._sh_version(sh) != v:
        ctx.disagree("serverSelectVersion", ident, sel, list(J._sh_version(sh)))
    if v <= (3, 3):
        abbreviated = bool(sc.get("history")) and not case.get("no_session") and J._abbreviated(res["orig"]["s2c"])
        t = lc.ask("%s %d %d %d %d 0000000000000000" % ("tailres" if abbreviated else "tail", smax[0], smax[1], v[0], v[1]))
        mcls = tail_class(bytes.fromhex(t))
        if mcls == "random" and t != "0000000000000000":
            mcls = "?"
        ctx.compared()
        if mcls != tail_class(sh.random[-8:]):
            ctx.disagree("serverRandomTail", ident, mcls, bytes(sh.random[-8:]).hex())
    # the client's reaction to the ServerHello it received
    shd = J._server_hello(res["fwd"]["s2c"])
    if shd is None or bytes(shd.random) == HRR_RANDOM:
        return
    vd = J._sh_version(shd)
    verdict = lc.ask("sent %d %d %d %d %s" % (cmax[0], cmax[1], vd[0], vd[1], hx(bytes(shd.random[-8:]))))
    downgrade_alert = res["c_exc"] == "local_alert:47" and "downgrade" in (res.get("c_msg") or "")
    ctx.compared()
    if verdict.startswith("abort") != downgrade_alert:
        # the client runs other ServerHello checks first; only an earlier local abort excuses it
        if not (verdict.startswith("abort") and res["c_exc"].startswith("local_alert") and len(res["orig"]["c2s"]) <= 2):
            ctx.disagree("clientChecksSentinel", ident, verdict, {"exc": res["c_exc"], "msg": res.get("c_msg")})
        elif verdict.startswith("abort") and res["c_exc"] != "local_alert:47":
            ctx.count("sentinel-preempted-by:" + res["c_exc"])


# ------------------------------------------------------------------------------------------------
# second ClientHello after HelloRetryRequest: model comparison function and RFC 8446 4.1.2 oracle

HRR_MUTABLE = (51, 44, 21, 41, 42)      # key_share, cookie, padding, pre_shared_key, early_data


def hello_features(m):
    exts = []
    for e in (m.extensions or []):
        exts.append("%d:%s" % (e.extType, hx(bytes(e.write())[4:])))
    return "%d.%d;%s;%s;%s;%s;%s" % (m.client_version[0], m.client_version[1], hx(m.random), hx(m.session_id),
                                     ",".join(str(x) for x in m.cipher_suites) or "-",
                                     ",".join(str(x) for x in m.compression_methods) or "-", ",".join(exts) or "-")


def spec_second_hello_ok(ch1, ch2):
    """RFC 8446 4.1.2: the second ClientHello is the first one except for key_share, cookie,
    padding, pre_shared_key and early_data (order of the other extensions preserved)"""
    def fixed(m):
        return (tuple(m.client_version), bytes(m.random), bytes(m.session_id), tuple(m.cipher_suites),
                tuple(m.compression_methods),
                tuple((e.extType, bytes(e.write())) for e in (m.extensions or []) if e.extType not in HRR_MUTABLE))
    return fixed(ch1) == fixed(ch2)


def hrr_correspond(J, case, res, lc):
    from tlslite.constants import ExtensionType
    ctx = J.ctx
    if not res.get("orig"):
        return []
    t = case.get("tamper")
    bad = []
    c2s = [bytes.fromhex(r) for r in res["fwd"]["c2s"]]
    hellos = []
    for r in c2s:
        if r[0] == 22 and len(r) > 9 and r[5] == 1:
            try:
                hellos.append(parse_hello(r))
            except Exception:
                hellos.append(None)
    hrr = J._server_hello(res["orig"]["s2c"])
    if len(hellos) < 2 or hellos[0] is None or hellos[1] is None or hrr is None or bytes(hrr.random) != HRR_RANDOM:
        return bad
    ch1, ch2 = hellos[0], hellos[1]
    # did the server go on after the second hello?  (a second server_hello record on the wire)
    n_sh = len([1 for r in res["orig"]["s2c"] if bytes.fromhex(r)[0] == 22 and bytes.fromhex(r)[5] == 2])
    went_on = n_sh >= 2
    if went_on and not spec_second_hello_ok(ch1, ch2):
        bad.append(("c04:hrr-inconsistent-second-hello-accepted",
                    "server answered a second ClientHello that differs from the first outside key_share / cookie / "
                    "padding / pre_shared_key (%s)" % (t,)))
    if lc is None:
        return bad
    ks = ch2.getExtension(ExtensionType.key_share)
    groups = "-"
    if ks is not None and ks.client_shares is not None:
        groups = ",".join(str(x.group) for x in ks.client_shares) or "-"
    sel = hrr.getExtension(ExtensionType.key_share)
    ck = hrr.getExtension(ExtensionType.cookie)
    if sel is None or ck is None:
        return bad
    try:
        line = "hrr %s %s %s %d %s" % (hello_features(ch1), hello_features(ch2), groups, sel.selected_group,
                                       hx(bytes(ck.write())[4:]))
    except Exception:
        return bad
    m = lc.ask(line)
    ctx.count("hrr-model:" + m)
    # which of the server's own messages belong to this comparison
    MSG = {"missing_key_share": "Key share missing", "multiple_shares": "Multiple key shares",
           "wrong_group": "does not match Hello Retry", "malformed_cookie": "Malformed cookie",
           "missing_cookie": "does not contain cookie", "psk_not_last": "PSK extension not last",
           "mismatch": "Old Client Hello does not match"}
    ctx.compared()
    smsg = res.get("s_msg") or ""
    in_region = any(v in smsg for v in MSG.values())
    if m == "ok":
        if in_region:
            ctx.disagree("hrrConsistent", {"scn": case["scn"], "tamper": t}, m, smsg)
    elif m.startswith("err:"):
        want = MSG.get(m[4:])
        # the server validates the hello (extension syntax, TLS 1.3 sanity checks) before comparing
        early = res["s_exc"].startswith("local_alert") and not in_region and not went_on
        if want is not None and want not in smsg and not early:
            ctx.disagree("hrrConsistent", {"scn": case["scn"], "tamper": t}, m, {"exc": res["s_exc"], "msg": smsg})
    return bad


# ------------------------------------------------------------------------------------------------
# PSK binder: independent computation (RFC 8446 4.2.11.2 / 7.1) over the hello on the wire


def _hkdf_label(secret, label, ctxh, n, hname):
    import hmac
    full = b"tls13 " + label
    info = n.to_bytes(2, "big") + bytes([len(full)]) + full + bytes([len(ctxh)]) + ctxh
    out = b""
    t = b""
    i = 1
    while len(out) < n:
        t = hmac.new(secret, t + info + bytes([i]), getattr(hashlib, hname)).digest()
        out += t
        i += 1
    return out[:n]


def spec_binder(psk, hname, transcript_prefix, truncated_hello, external=True):
    import hmac
    h = getattr(hashlib, hname)
    n = h().digest_size
    early = hmac.new(bytes(n), psk, h).digest()
    bk = _hkdf_label(early, b"ext binder" if external else b"res binder", h(b"").digest(), n, hname)
    fk = _hkdf_label(bk, b"finished", b"", n, hname)
    return hmac.new(fk, h(transcript_prefix + truncated_hello).digest(), h).digest()


def binder_check(J, sc, res, lc):
    """external-PSK scenarios: the binder on the wire is the RFC value over the truncated hello;
    the model's truncation equals the implementation's"""
    from tlslite.constants import ExtensionType
    ctx = J.ctx
    bad = []
    recs = [bytes.fromhex(r) for r in res["orig"]["c2s"]]
    hellos = [r for r in recs if r[0] == 22 and r[5] == 1]
    prefix = b""
    for k, r in enumerate(hellos):
        m = parse_hello(r)
        ext = m.getExtension(ExtensionType.pre_shared_key)
        if ext is None:
            continue
        raw = r[5:]
        blen = sum(len(b) + 1 for b in ext.binders) + 2
        trunc = raw[:len(raw) - blen]
        if lc is not None:
            out = lc.ask("trunc %s %s" % (hx(raw), ",".join(hx(b) for b in ext.binders)))
            ctx.compared()
            if out != hx(bytes(m.psk_truncate())) or out != hx(trunc):
                ctx.disagree("pskTruncate", {"scn": sc["name"], "hello": k}, out, bytes(m.psk_truncate()).hex())
        if k == 1:
            # transcript before the second hello: message_hash(first hello) + HelloRetryRequest
            hrr = [bytes.fromhex(x) for x in res["orig"]["s2c"] if bytes.fromhex(x)[0] == 22][0][5:]
            hname = PSK[2]
            d = getattr(hashlib, hname)(hellos[0][5:]).digest()
            prefix = bytes([254, 0, 0, len(d)]) + d + hrr
        want = spec_binder(PSK[1], PSK[2], prefix, trunc)
        ident = [bytes(i.identity) for i in ext.identities]
        if PSK[0] in ident:
            got = bytes(ext.binders[ident.index(PSK[0])])
            ctx.case(key=("binder", sc["name"], k), sample=None)
            if got != want:
                bad.append(("c04:binder-not-over-truncated-hello",
                            "PSK binder in ClientHello #%d of %s is not HMAC(finished_key, Hash(prefix + truncated hello))"
                            % (k + 1, sc["name"])))
    return bad


# ------------------------------------------------------------------------------------------------
# key schedule: live calls vs the model's transcript points and an independent RFC computation


def split_msgs(buf):
    out = []
    i = 0
    while i + 4 <= len(buf):
        n = int.from_bytes(buf[i + 1:i + 4], "big")
        out.append(buf[i:i + 4 + n])
        i += 4 + n
    return out


def _p_hash(hname, secret, seed, n):
    import hmac
    h = getattr(hashlib, hname)
    out = b""
    a = seed
    while len(out) < n:
        a = hmac.new(secret, a, h).digest()
        out += hmac.new(secret, a + seed, h).digest()
    return out[:n]


def spec_prf(version, suite, secret, label, seed, n):
    """RFC 2246 / 5246 PRF"""
    if tuple(version) >= (3, 3):
        return _p_hash(prf_of_suite(suite), secret, label + seed, n)
    half = (len(secret) + 1) // 2
    a = _p_hash("md5", secret[:half], label + seed, n)
    b = _p_hash("sha1", secret[len(secret) - half:], label + seed, n)
    return bytes(x ^ y for x, y in zip(a, b))


def spec_hs_digest(version, suite, data):
    if tuple(version) >= (3, 3):
        return getattr(hashlib, prf_of_suite(suite))(data).digest()
    return hashlib.md5(data).digest() + hashlib.sha1(data).digest()


def spec_ssl3_finished(master, sender, data):
    inner_m = hashlib.md5(data + sender + master + b"\x36" * 48).digest()
    inner_s = hashlib.sha1(data + sender + master + b"\x36" * 40).digest()
    return hashlib.md5(master + b"\x5c" * 48 + inner_m).digest() + hashlib.sha1(master + b"\x5c" * 40 + inner_s).digest()


LABEL_POINT13 = {"s hs traffic": 0, "c hs traffic": 0, "c ap traffic": 3, "s ap traffic": 3, "exp master": 5, "res master": 6}
ORDER13 = ["derived", "s hs traffic", "c hs traffic", "derived", "c ap traffic", "s ap traffic", "exp master", "res master"]


def keys_check(J, sc, res, lc):
    """returns violations; registers comparisons"""
    import hmac
    ctx = J.ctx
    bad = []
    name = sc["name"]
    T = split_msgs(bytes.fromhex(res["c_tr"]))
    calls = res.get("tap") or []
    ident = {"scn": name}

    def pre(n):
        return b"".join(T[:n])

    if sc["flow"] in IS13:
        pts = lc.ask("points13 %s %s" % (sc["flow"], sc["optbits"])).split()
        if pts[0] == "none":
            ctx.disagree("points13", ident, "none", "handshake completed")
            return bad
        off = int(pts[7])
        P = [int(pts[0]), None if pts[1] == "-" else int(pts[1]), int(pts[2]), int(pts[3]),
             None if pts[4] == "-" else int(pts[4]), int(pts[5]), int(pts[6])]
        hname = prf_of_suite(res["c_view"]["cipherSuite"])
        h = getattr(hashlib, hname)
        n = h().digest_size
        for side in ("client", "server"):
            mine = [c for c in calls if c["side"] == side]
            ders = [c for c in mine if c["fn"] == "derive"]
            # the server's ticket encryption key (`_derive_key_iv`: Derive-Secret(., "derived", "") then
            # "SessionTicket secret") is not part of the connection's key schedule
            keep = []
            for c in ders:
                if c["label"] == "SessionTicket secret":
                    if keep and keep[-1]["label"] == "derived":
                        keep.pop()
                    continue
                keep.append(c)
            ders = keep
            ctx.compared()
            if [c["label"] for c in ders] != ORDER13:
                ctx.disagree("derive-secret-order", dict(ident, side=side), ORDER13, [c["label"] for c in ders])
                continue
            for c in ders:
                ctx.compared()
                if c["label"] == "derived":
                    if c["tr"] is not None:
                        ctx.disagree("derive-secret-transcript", dict(ident, side=side, label=c["label"]), None, len(c["tr"]) // 2)
                    continue
                want = pre(off + P[LABEL_POINT13[c["label"]]])
                if c["tr"] is None or bytes.fromhex(c["tr"]) != want:
                    ctx.disagree("derive-secret-transcript", dict(ident, side=side, label=c["label"]),
                                 "first %d messages (%d bytes)" % (off + P[LABEL_POINT13[c["label"]]], len(want)),
                                 None if c["tr"] is None else "%d bytes" % (len(c["tr"]) // 2))
            # independent RFC 8446 7.1 computation from (PSK, (EC)DHE, transcript prefixes)
            # the two Extract calls of this connection: the one producing the secret the handshake traffic
            # secrets are derived from (IKM = (EC)DHE), and the one before it (IKM = PSK)
            ext = [c for c in mine if c["fn"] == "hmac"]
            hs_call = [c for c in ext if c["out"] == ders[1]["secret"]]
            d1 = [c for c in ders if c["label"] == "derived" and hs_call and c["out"] == hs_call[0]["key"]]
            early_call = [c for c in ext if d1 and c["out"] == d1[0]["secret"]]
            ctx.compared()
            if not (hs_call and d1 and early_call):
                ctx.disagree("extract-chain", dict(ident, side=side), "Extract(0,PSK) -> derived -> Extract(.,ECDHE) -> hs traffic",
                             [c["fn"] + ":" + c.get("label", "") for c in mine][:12])
                continue
            psk, ecdhe = bytes.fromhex(early_call[0]["data"]), bytes.fromhex(hs_call[0]["data"])
            empty = h(b"").digest()
            early = hmac.new(bytes(n), psk, h).digest()
            hs = hmac.new(_hkdf_label(early, b"derived", empty, n, hname), ecdhe, h).digest()
            master = hmac.new(_hkdf_label(hs, b"derived", empty, n, hname), bytes(n), h).digest()
            spec = {
                "s hs traffic": _hkdf_label(hs, b"s hs traffic", h(pre(off + P[0])).digest(), n, hname),
                "c hs traffic": _hkdf_label(hs, b"c hs traffic", h(pre(off + P[0])).digest(), n, hname),
                "c ap traffic": _hkdf_label(master, b"c ap traffic", h(pre(off + P[3])).digest(), n, hname),
                "s ap traffic": _hkdf_label(master, b"s ap traffic", h(pre(off + P[3])).digest(), n, hname),
                "exp master": _hkdf_label(master, b"exp master", h(pre(off + P[5])).digest(), n, hname),
                "res master": _hkdf_label(master, b"res master", h(pre(off + P[6])).digest(), n, hname),
            }
            got = {c["label"]: bytes.fromhex(c["out"]) for c in ders if c["label"] != "derived"}
            view = res["c_view" if side == "client" else "s_view"]
            got_view = {"c ap traffic": view.get("cl_app_secret"), "s ap traffic": view.get("sr_app_secret"),
                        "exp master": view.get("exporterMasterSecret"), "res master": view.get("resumptionMasterSecret")}
            ctx.case(key=("keys13", name, side), sample=None)
            for lab, val in spec.items():
                if got.get(lab) != val or (lab in got_view and got_view[lab] != val.hex()):
                    bad.append(("c04:key-schedule-not-bound-to-transcript",
                                "%s of %s: secret '%s' is not Derive-Secret(., label, Hash(first %d handshake messages)) of RFC 8446 7.1"
                                % (side, name, lab, off + P[LABEL_POINT13[lab]])))
            sfin = hmac.new(_hkdf_label(spec["s hs traffic"], b"finished", b"", n, hname), h(pre(off + P[2])).digest(), h).digest()
            cfin = hmac.new(_hkdf_label(spec["c hs traffic"], b"finished", b"", n, hname), h(pre(off + P[5])).digest(), h).digest()
            if T[off + P[2]][4:] != sfin or T[off + P[5]][4:] != cfin:
                bad.append(("c04:finished-not-over-transcript",
                            "%s: a Finished on the wire is not HMAC(finished_key, Hash(all handshake messages before it))" % name))
        return bad
    # ---- TLS <= 1.2
    pts = lc.ask("points12 %s %s" % (sc["flow"], sc["optbits"])).split()
    if pts[0] == "none":
        return bad
    ems_p = None if pts[0] == "-" else int(pts[0])
    cf, sf = int(pts[1]), int(pts[2])
    ver = tuple(res["c_view"]["version"])
    suite = res["c_view"]["cipherSuite"]
    master = bytes.fromhex(res["c_view"]["masterSecret"])
    for side in ("client", "server"):
        mine = [c for c in calls if c["side"] == side and c["fn"] == "calc_key"]
        labs = [c["label"] for c in mine]
        want_labs = []
        if ems_p is not None:
            want_labs.append("extended master secret" if res["c_view"]["session_ems"] else "master secret")
        want_labs += ["client finished", "server finished"] if cf < sf else ["server finished", "client finished"]
        ctx.compared()
        if labs != want_labs:
            ctx.disagree("calc-key-order", dict(ident, side=side), want_labs, labs)
            continue
        for c in mine:
            ctx.compared()
            pt = {"extended master secret": ems_p, "client finished": cf, "server finished": sf}.get(c["label"])
            if pt is None:
                if c["tr"] is not None:
                    ctx.disagree("calc-key-transcript", dict(ident, side=side, label=c["label"]), None, len(c["tr"]) // 2)
                continue
            if c["tr"] is None or bytes.fromhex(c["tr"]) != pre(pt):
                ctx.disagree("calc-key-transcript", dict(ident, side=side, label=c["label"]), "first %d messages" % pt,
                             None if c["tr"] is None else "%d bytes" % (len(c["tr"]) // 2))
        # independent values
        ctx.case(key=("keys12", name, side), sample=None)
        for lab, pt, sender in (("client finished", cf, b"CLNT"), ("server finished", sf, b"SRVR")):
            if ver == (3, 0):
                want = spec_ssl3_finished(master, sender, pre(pt))
            else:
                want = spec_prf(ver, suite, master, lab.encode(), spec_hs_digest(ver, suite, pre(pt)), 12)
            if T[pt][4:] != want:
                bad.append(("c04:finished-not-over-transcript",
                            "%s: the %s on the wire is not PRF(master_secret, label, Hash(all handshake messages before it))"
                            % (name, lab)))
        if ems_p is not None and res["c_view"]["session_ems"] and ver > (3, 0):
            pms = bytes.fromhex(mine[0]["secret"])
            want = spec_prf(ver, suite, pms, b"extended master secret", spec_hs_digest(ver, suite, pre(ems_p)), 48)
            if want != master:
                bad.append(("c04:master-secret-not-bound-to-session-hash",
                            "%s (%s): master secret is not PRF(pms, 'extended master secret', Hash(messages through "
                            "ClientKeyExchange)) of RFC 7627" % (name, side)))
    return bad


# ------------------------------------------------------------------------------------------------
# execution

PRIMARY = ("full-ssl3-", "full-tls10-", "full-tls11-", "full-tls12-rsa", "full-tls12-dhe_rsa", "full-tls12-ecdhe_rsa",
           "full-tls13-ecdhe", "full-tls13-dhe", "hrr-tls13", "resume-id-tls12", "resume-ticket-tls12", "psk-tls13")


def is_primary(name):
    if name.endswith("-clientauth") or name.endswith("-alpn"):
        return False
    return any(name.startswith(p) and (p.endswith("-") or name == p) for p in PRIMARY)


def _safe_run(case):
    try:
        return run_case(case)
    except BaseException as e:        # harness failure inside a worker: reported as infrastructure
        import traceback
        return {"crash": "%s: %s\n%s" % (type(e).__name__, e, traceback.format_exc()[-1500:]), "scn": case.get("scn")}


def _init_worker(repo):
    import sys
    os.environ["VERIF_REPO"] = repo
    if sys.path[0] != repo:
        sys.path.insert(0, repo)


def run_all(ctx, cases, nproc):
    """yield (case, result) for every case; worker processes when possible"""
    if nproc > 1 and len(cases) > 50:
        import multiprocessing
        try:
            mp = multiprocessing.get_context("fork")
            pool = mp.Pool(nproc, initializer=_init_worker, initargs=(ctx.repo,))
        except Exception:
            pool = None
        if pool is not None:
            try:
                for case, res in zip(cases, pool.imap(_safe_run, cases, chunksize=16)):
                    yield case, res
            finally:
                pool.terminate()
                pool.join()
            return
    for case in cases:
        yield case, _safe_run(case)


CORE_FIELDS = ("version", "cipherSuite", "masterSecret", "cl_app_secret", "sr_app_secret", "exporterMasterSecret",
               "resumptionMasterSecret", "appProto", "limits")


def do_baseline(ctx, J, lc):
    """honest run of every scenario: layout, agreeing view fields, script and transcript of the model"""
    excluded = {}
    for name, sc in SC().items():
        res = _safe_run({"scn": name, "tamper": None, "trace": True, "want_views": True, "want_wire": True, "kind": "honest",
                         "tap": True})
        if "crash" in res:
            from ..core import Infra
            raise Infra("baseline of %s crashed: %s" % (name, res["crash"]))
        case = {"scn": name, "kind": "honest", "tamper": None}
        ctx.case(key=("honest", name), sample={"scenario": name, "client": res["c_state"], "server": res["s_state"]}
                 if name in ("full-tls12-ecdhe_rsa", "hrr-tls13") else None)
        ctx.count("scenario:" + name)
        J.fields[name] = VIEW_FIELDS
        if res["both"]:
            dv = diff_views(res, VIEW_FIELDS)
            core_bad = [k for k in dv if k in CORE_FIELDS]
            J.fields[name] = tuple(k for k in VIEW_FIELDS if k not in dv or k in CORE_FIELDS)
            if dv:
                excluded[name] = [k for k in dv if k not in CORE_FIELDS]
            if core_bad:
                ctx.violation("c04:both-complete-views-differ",
                              "untouched handshake %s completes with different views: %s" % (name, core_bad),
                              {"case": case, "stage": "honest"})
        for key, what in J.oracle(case, res):
            ctx.violation(key, what, {"case": case, "stage": "honest"})
        if not res["both"]:
            continue
        J.base[name] = res
        J.base_version[name] = res["c_view"]["version"]
        J.lay[name] = layout_of(sc, res)
        if sc.get("psk"):
            for key, what in binder_check(J, sc, res, lc):
                ctx.violation(key, what, {"case": case, "stage": "binder"})
        if lc is None or sc["flow"] is None:
            continue
        for key, what in keys_check(J, sc, res, lc):
            ctx.violation(key, what, {"case": case, "stage": "key-schedule"})
        script = model_script(lc, sc)
        J.script[name] = script
        ev = wire_events(res)
        is13 = sc["flow"] in IS13
        for side, tag in (("client", "C"), ("server", "S")):
            mine = [e for e in script if e.endswith(tag) or e.startswith(tag + ":")]
            got = [e for e in ev[side] if not (is13 and (e.startswith("ccs") or e == "S:4"))]
            ctx.compared()
            if mine != got:
                ctx.disagree("flow-script", {"scn": name, "side": side}, mine, got)
            out = lc.ask(run_line(sc, side, res, res["c_view"]["cipherSuite"]))
            tr = res["c_tr"] if side == "client" else res["s_tr"]
            ctx.compared()
            if out.split()[0] != "ok" or out.split()[1] != hx(bytes.fromhex(tr)):
                ctx.disagree("transcript-bytes", {"scn": name, "side": side}, out[:200], tr[:200])
            else:
                # the model's message list, re-split from the implementation's buffer
                sp = lc.ask("split " + hx(bytes.fromhex(tr)))
                shape = lc.ask("shape %s %s" % (sc["flow"], sc["optbits"]))
                ctx.compared()
                if sp == "err" or ",".join(x.split(":")[0] for x in sp.split(",")) != shape:
                    ctx.disagree("transcript-shape", {"scn": name, "side": side}, shape, sp[:200])
    ctx.extra["view_fields_not_compared"] = excluded
    return excluded


def build_cases(ctx, J):
    cases = []
    for name, sc in SC().items():
        if name not in J.lay:
            continue
        lay = J.lay[name]
        base = J.base[name]
        prim = is_primary(name)
        if sc.get("history"):
            cases += history_cases(ctx, sc)
            continue
        if sc.get("range"):
            cases += rollback_cases(ctx, sc, lay)
            cases.append({"scn": name, "kind": "honest-range", "cls": "hello", "tamper": None, "want_wire": True})
            if ctx.thorough():
                cases += flip_cases(ctx, sc, lay, False)
                cases += rewrite_cases(ctx, sc, lay, base)
            continue
        cases += flip_cases(ctx, sc, lay, prim)
        cases += record_cases(ctx, sc, lay)
        if prim or ctx.thorough() or name.endswith("-alpn") or name.startswith("psk-"):
            cases += rewrite_cases(ctx, sc, lay, base)
        if name in ("full-ssl3-rsa", "full-tls10-rsa", "full-tls12-ecdhe_rsa", "full-tls13-ecdhe", "resume-id-tls12",
                    "psk-tls13", "full-tls11-dhe_rsa", "hrr-tls13") or ctx.thorough():
            cases += finished_cases(ctx, sc, base)
    for i, c in enumerate(cases):
        c["id"] = i
    return cases


def judge_case(ctx, J, lc, case, res):
    """oracle + correspondence for one run; returns the violations found"""
    sc = SC()[case["scn"]]
    t = case.get("tamper")
    kind = case.get("kind", "?")
    ctx.case(key=(case["scn"], kind, tkey(t), tkey(case.get("hook")), tkey(case.get("cs_attr")), case.get("no_session")),
             nontrivial=bool(res.get("applied") or res.get("hooked") or "fallback" in kind or kind.startswith("hist")),
             sample={"scenario": case["scn"], "tamper": t, "hook": case.get("hook"), "client": res["c_exc"],
                     "server": res["s_exc"], "both_complete": res["both"]} if case.get("id", 1) % 1499 == 0 else None)
    ctx.count("kind:" + kind)
    ctx.count("outcome:" + ("both-complete" if res["both"] else
                            "stall" if "stall" in (res["c_state"], res["s_state"]) else "abort"))
    if kind.startswith("hist"):
        ctx.count("%s -> %s" % (kind, "both complete%s" % (" (resumed)" if res.get("c_resumed") else "") if res["both"]
                                else "client %s / server %s" % (res["c_exc"], res["s_exc"])))
    if not (res.get("applied") or res.get("hooked")) and t:
        ctx.count("tamper-not-applicable")
    found = J.oracle(case, res)
    if sc["flow"] in ("hrr13", "pskHrr13") and isinstance(t, dict) and t.get("op") == "rewrite" and res.get("applied"):
        ctx.count("hrr-second-hello-comparison")
        found += hrr_correspond(J, case, res, lc)
    if sc.get("range"):
        range_correspond(J, case, res, lc)
    elif res.get("applied"):
        J.correspond(case, res, lc)
    return found


def run(ctx):
    ctx.rule = ("one live handshake per case between two real endpoints with an on-path attacker: every byte of every plaintext "
                "ClientHello / ServerHello / HelloRetryRequest record x masks {01,80,ff} (all positions of all records incl. "
                "protected ones in the thorough tier, sampled otherwise), every record dropped / duplicated / swapped with its "
                "successor / re-fragmented, hellos parsed with tlslite's classes and rewritten (versions, suites, groups, each "
                "extension dropped / replaced / added, random, session id, selection in ServerHello/HRR), version rollback with "
                "and without sentinel stripping for all cmax x smax in TLS1.1..1.3, FALLBACK_SCSV sent / stripped / inserted, "
                "one byte of the peer's Finished changed; connection histories (full handshake leaving a SessionCache entry / "
                "RFC 5077 ticket, black-holed attempt, retry offering the session: fallback mode with SCSV at every lower "
                "maximum, SCSV stripped / inserted, rollback of the resumption hello with and without restoring the version "
                "in the ServerHello) for all cmax x smax; distinct = distinct (scenario, tamper); non-trivial = the tamper "
                "changed bytes on the wire")
    ctx.assumptions = ["SHA-2/MD5/SHA-1 collision resistance and PRF/HMAC unforgeability enter the theorems as the named events "
                       "HashCollision / FinishedForgery, never as hypotheses",
                       "message bodies, secrets and semantic checks of the endpoints are arbitrary functions of their local history "
                       "in the model; record protection is the subject of C02",
                       "RFC 8446 4.1.3 / 4.1.2 / 4.2.11.2 and RFC 7507 are the independent reading of 'sentinel and FALLBACK_SCSV "
                       "enforced', 'second ClientHello equals the first modulo HRR changes', 'binders over the truncated hello'"]
    ctx.budget_s = ctx.pick(200, 1400)
    lc = ctx.lean()
    J = Judge(ctx)
    do_baseline(ctx, J, lc)
    cases = build_cases(ctx, J)
    ctx.extra["cases_generated"] = len(cases)
    ncpu = os.cpu_count() or 1
    nproc = int(os.environ.get("C04_PROCS", "0")) or max(1, min(8, ncpu // 2))
    done = 0
    for case, res in run_all(ctx, cases, nproc):
        if "crash" in res:
            from ..core import Infra
            raise Infra("harness crashed on %r: %s" % (case, res["crash"]))
        done += 1
        for key, what in judge_case(ctx, J, lc, case, res):
            rep_case = {k: v for k, v in case.items() if k not in ("id",)}
            ctx.violation(key, what, {"case": rep_case, "client": res["c_exc"], "server": res["s_exc"],
                                      "both_complete": res["both"],
                                      "views": {"client": res.get("c_view"), "server": res.get("s_view")} if res["both"] else None})
    ctx.extra["cases_run"] = done
    ctx.extra["benign_accepted_modifications"] = dict(sorted(J.benign.items()))
    ctx.extra["benign_note"] = ("both completed with identical views and transcripts although the attacker changed the byte "
                                "stream: only record framing (legacy record-version bytes 1-2 of unprotected records, "
                                "re-fragmentation of unprotected handshake records, TLS 1.3 compatibility CCS dropped / "
                                "duplicated / moved) or records that were still unread when both handshakes had returned "
                                "(duplicate of the last flight, post-handshake tickets: the record layer's business, C02); never "
                                "handshake content or a protected record that was consumed")
    ctx.extra["detector_predictions_with_single_allowed_side"] = J.pred_single
    ctx.extra["worker_processes"] = nproc


def replay(ctx, rep):
    inp = rep["input"]
    case = inp.get("case")
    if not case:
        print("replay without a case: re-running the whole check")
        run(ctx)
        return bool(ctx.violations or ctx.disagreements)
    J = Judge(ctx)
    sc = SC()[case["scn"]]
    if case.get("kind") == "honest":
        res = _safe_run({"scn": case["scn"], "tamper": None, "trace": True, "want_views": True, "want_wire": True, "kind": "honest",
                         "tap": True})
        found = J.oracle(case, res)
        if res.get("both"):
            dv = [k for k in diff_views(res, VIEW_FIELDS) if k in CORE_FIELDS]
            if dv:
                found.append(("c04:both-complete-views-differ", "views differ: %s" % dv))
            if sc.get("psk"):
                found += binder_check(J, sc, res, None)
            lc = ctx.lean()
            if lc is not None and sc["flow"] is not None:
                found += keys_check(J, sc, res, lc)
    else:
        base = _safe_run({"scn": case["scn"], "tamper": None, "want_views": True, "want_wire": True})
        if base.get("both"):
            dv = diff_views(base, VIEW_FIELDS)
            J.fields[case["scn"]] = tuple(k for k in VIEW_FIELDS if k not in dv or k in CORE_FIELDS)
            J.base_version[case["scn"]] = base["c_view"]["version"]
        res = _safe_run(dict(case, want_wire=True))
        if "crash" in res:
            print(res["crash"])
            return False
        found = J.oracle(case, res, report=False)
        if sc["flow"] in ("hrr13", "pskHrr13"):
            found += hrr_correspond(J, case, res, None)
    print("client: %s %s (%s)" % (res.get("c_state"), res.get("c_exc"), res.get("c_msg")))
    print("server: %s %s (%s)" % (res.get("s_state"), res.get("s_exc"), res.get("s_msg")))
    for key, what in found:
        print("  %s: %s" % (key, what))
    want = rep.get("key")
    return any(k == want for k, _ in found) if want else bool(found)
