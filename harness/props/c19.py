"""C19 — settings validation is pure and idempotent, yields only what the installation supports and
rejects what is outside the documented domains.

Theorems: lean/Props/C19.lean (purity of every op list accepted by pureOps + the op list generated
from the AST of validate() is accepted; idempotence, supported-only and rejection for the
value-level model).  Tie: translate/gen_settings.py (name lists, defaults, alias/copy/mutate
structure, regenerated on every run) and a correspondence of Tls.Settings.validate with the real
HandshakeSettings.validate() over the settings lattice.  Oracle (independent of the code under
test): deep snapshot of the receiver before/after, validate(validate(s)) field by field, the
installation's real capabilities, and the documented domains written out in this file.
"""
import copy
import importlib
import re

TRANSLATORS = ["settings"]

MANIFEST = {
    "text": "Proof: (1) validate_pure — for every op list accepted by the decidable checker pureOps, every initial object "
            "store, branch outcome and behaviour of the abstracted parts, the receiver's attribute bindings and every object "
            "it reaches are unchanged; validateOps_accepted — the alias/copy/mutate op list generated from the AST of "
            "HandshakeSettings.validate() and all helpers it calls is accepted (re-generated and re-decided on every run). "
            "(2) For the value-level model Tls.Settings.validate (every _sanityCheck*, version/MAC/backend/3DES filters, "
            "generated name lists and defaults, parameterised by what the installation has): validate_idempotent, "
            "validate_supported_only, validate_rejects_out_of_domain (documented domains written as literals), "
            "validate_result (only the four filters change anything). Tie: translator + correspondence of model and real "
            "validate() on the settings lattice (restrict/reorder every dimension, in- and out-of-domain values per field, "
            "backend availability patched), plus direct oracles on the real class: deep snapshot before/after, "
            "validate(validate(s)) == validate(s), real instantiability of every returned cipher, documented-domain check.",
    "note": "Trusted: Lean kernel, the AST translator (unclassifiable statements become `unknown` and fail the obligation), "
            "the correspondence harness. The object-store model is one level deep (attribute -> list object); effects on "
            "nested objects are classified `unknown`. Wrong *types* (None for a list, str for an int) are outside the "
            "quantifier and only recorded as observations. The 'compatible settings connect' half is checked with C03/C07.",
    "technique": "Lean 4 proof over a generated alias/copy/mutate op list + value-level model; differential correspondence; "
                 "snapshot / idempotence / capability oracles on the implementation",
}

FIELD_ORDER = [
    "minKeySize", "maxKeySize", "rsaSigHashes", "rsaSchemes", "dsaSigHashes", "virtual_hosts",
    "eccCurves", "dhParams", "dhGroups", "defaultCurve", "keyShares", "padding_cb",
    "use_heartbeat_extension", "heartbeat_response_callback", "certificateTypes",
    "useExperimentalTackExtension", "sendFallbackSCSV", "useEncryptThenMAC", "ecdsaSigHashes",
    "more_sig_schemes", "usePaddingExtension", "useExtendedMasterSecret",
    "requireExtendedMasterSecret", "pskConfigs", "psk_modes", "ticketKeys", "ticketCipher",
    "ticketLifetime", "max_early_data", "ticket_count", "record_size_limit", "ec_point_formats",
    "certificate_compression_send", "certificate_compression_receive", "dc_sig_algs",
    "dc_valid_time", "minVersion", "maxVersion", "versions", "cipherNames", "macNames",
    "keyExchangeNames", "cipherImplementations",
]
STRLISTS = ["rsaSigHashes", "rsaSchemes", "dsaSigHashes", "eccCurves", "dhGroups", "keyShares",
            "certificateTypes", "ecdsaSigHashes", "more_sig_schemes", "psk_modes",
            "certificate_compression_send", "certificate_compression_receive", "cipherNames",
            "macNames", "keyExchangeNames", "cipherImplementations"]
INTS = ["minKeySize", "maxKeySize", "ticketLifetime", "max_early_data", "ticket_count", "dc_valid_time"]
FLAGS = ["use_heartbeat_extension", "useEncryptThenMAC", "usePaddingExtension",
         "useExtendedMasterSecret", "requireExtendedMasterSecret"]
BOOLS = ["useExperimentalTackExtension", "sendFallbackSCSV"]
ENV_FIELDS = ["m2crypto", "pycrypto", "tripleDES", "mlKem", "mlDsa", "ecdsaAllCurves",
              "brotliCompress", "zstdCompress", "brotliDecompress", "zstdDecompress"]
TOKEN = re.compile(r"^[A-Za-z0-9_.\-]+$")

# ---------------------------------------------------------------------------------------------
# documented domains, written from the docstrings / error messages (NOT imported from tlslite)
# ---------------------------------------------------------------------------------------------
DOC = {
    "cipherNames": ["chacha20-poly1305", "aes256gcm", "aes128gcm", "aes256", "aes128", "3des",
                    "chacha20-poly1305_draft00", "null", "rc4", "aes256ccm", "aes128ccm", "aes128ccm_8", "aes256ccm_8"],
    "macNames": ["sha384", "sha256", "aead", "sha", "md5"],
    "certificateTypes": ["x509"],
    "rsaSigHashes": ["md5", "sha1", "sha224", "sha256", "sha384", "sha512"],
    "dsaSigHashes": ["sha1", "sha224", "sha256", "sha384", "sha512"],
    "ecdsaSigHashes": ["sha1", "sha224", "sha256", "sha384", "sha512"],
    "rsaSchemes": ["pss", "pkcs1"],
    "keyExchangeNames": ["rsa", "dhe_rsa", "ecdhe_rsa", "ecdhe_ecdsa", "dhe_dsa", "srp_sha", "srp_sha_rsa",
                         "ecdh_anon", "dh_anon"],
    "cipherImplementations": ["openssl", "pycrypto", "python"],
    "dhGroups": ["ffdhe2048", "ffdhe3072", "ffdhe4096", "ffdhe6144", "ffdhe8192"],
    "psk_modes": ["psk_dhe_ke", "psk_ke"],
    "ticketCipher": ["aes256gcm", "aes128gcm", "chacha20-poly1305", "aes128ccm", "aes128ccm_8", "aes256ccm",
                     "aes256ccm_8"],
    "versions": [(3, 0), (3, 1), (3, 2), (3, 3), (3, 4)],
}
MLKEM = ["secp256r1mlkem768", "x25519mlkem768", "secp384r1mlkem1024"]
MLDSA = ["mldsa44", "mldsa65", "mldsa87"]


def doc_curves(env):
    c = ["secp256r1", "secp384r1", "secp521r1", "secp256k1", "x25519", "x448", "brainpoolP256r1",
         "brainpoolP384r1", "brainpoolP512r1", "brainpoolP256r1tls13", "brainpoolP384r1tls13", "brainpoolP512r1tls13"]
    if env["ecdsaAllCurves"]:
        c += ["secp224r1", "secp192r1"]
    if env["mlKem"]:
        c += MLKEM
    return c


def doc_more_sig(env):
    return ["Ed25519", "Ed448", "ecdsa_brainpoolP256r1tls13_sha256", "ecdsa_brainpoolP384r1tls13_sha384",
            "ecdsa_brainpoolP512r1tls13_sha512"] + (MLDSA if env["mlDsa"] else [])


def out_of_domain(a, env):
    """fields of the abstract settings `a` that lie outside their documented domain ([] = all inside)"""
    bad = []

    def sub(f, dom):
        if any(x not in dom for x in a[f]):
            bad.append(f)
    if not (512 <= a["minKeySize"] <= 16384):
        bad.append("minKeySize")
    if not (512 <= a["maxKeySize"] <= 16384) or a["maxKeySize"] < a["minKeySize"]:
        bad.append("maxKeySize")
    for vh in a["virtual_hosts"]:
        if not vh or any(k != (True, True) for k in vh):
            bad.append("virtual_hosts")
    for f in ("cipherNames", "macNames", "certificateTypes", "rsaSigHashes", "dsaSigHashes", "ecdsaSigHashes",
              "rsaSchemes", "keyExchangeNames", "cipherImplementations", "dhGroups", "psk_modes"):
        sub(f, DOC[f])
    if not a["cipherNames"]:
        bad.append("cipherNames")
    if not a["certificateTypes"]:
        bad.append("certificateTypes")
    if a["minVersion"] not in DOC["versions"]:
        bad.append("minVersion")
    if a["maxVersion"] not in DOC["versions"] or a["minVersion"] > a["maxVersion"]:
        bad.append("maxVersion")
    sub("more_sig_schemes", doc_more_sig(env))
    if a["maxVersion"] >= (3, 3) and not (a["rsaSigHashes"] or a["ecdsaSigHashes"] or a["dsaSigHashes"]
                                          or a["more_sig_schemes"]):
        bad.append("rsaSigHashes")
    sub("eccCurves", doc_curves(env))
    if a["defaultCurve"] not in doc_curves(env):
        bad.append("defaultCurve")
    if any(k not in a["eccCurves"] and k not in a["dhGroups"] for k in a["keyShares"]):
        bad.append("keyShares")
    if a["dhParams"] == "M":
        bad.append("dhParams")
    for f in FLAGS:
        if a[f] == "X":
            bad.append(f)
    if a["requireExtendedMasterSecret"] == "T" and a["useExtendedMasterSecret"] != "T":
        bad.append("requireExtendedMasterSecret")
    if a["heartbeat_response_callback"] and a["use_heartbeat_extension"] != "T":
        bad.append("heartbeat_response_callback")
    r = a["record_size_limit"]
    if r is not None and not (64 <= r <= 2 ** 14 + 1):
        bad.append("record_size_limit")
    if any(x not in (0, 1) for x in a["ec_point_formats"]) or 0 not in a["ec_point_formats"]:
        bad.append("ec_point_formats")
    if a["dc_valid_time"] > 7 * 24 * 3600:
        bad.append("dc_valid_time")
    for f in ("certificate_compression_send", "certificate_compression_receive"):
        sub(f, ["zlib", "brotli", "zstd"])
    for (n, h) in a["pskConfigs"]:
        if n not in (2, 3) or (n == 3 and h not in ("sha256", "sha384")):
            bad.append("pskConfigs")
    if a["ticketCipher"] not in DOC["ticketCipher"]:
        bad.append("ticketCipher")
    if any(n not in (16, 32) for n in a["ticketKeys"]):
        bad.append("ticketKeys")
    if not (0 < a["ticketLifetime"] <= 7 * 24 * 3600):
        bad.append("ticketLifetime")
    if not (0 < a["max_early_data"] <= 2 ** 64):
        bad.append("max_early_data")
    if not (0 <= a["ticket_count"] < 2 ** 16):
        bad.append("ticket_count")
    return sorted(set(bad))


# ---------------------------------------------------------------------------------------------
# building settings objects from JSON-able specs, abstracting them back
# ---------------------------------------------------------------------------------------------
def _cb(*args):
    return 0


class Opaque(object):
    """stand-in for keys / certificates; the tag makes a reordering or replacement visible to `canon`"""
    counter = [0]

    def __init__(self):
        Opaque.counter[0] += 1
        self.tag = Opaque.counter[0]


def materialise(field, v):
    """spec value -> python value stored on the settings object"""
    from tlslite.handshakesettings import VirtualHost, Keypair
    if isinstance(v, dict) and "raw" in v:
        return {"none": None, "int5": 5, "str": "abc", "float": 1024.5, "listint": [1, 2], "listnone": [None],
                "emptystr": "", "tuple1": (3,), "strver": "3.3", "listver": [3, 3], "bytes": b"ab",
                "dict": {}, "two": 2, "yes": "yes"}[v["raw"]]
    if field in ("minVersion", "maxVersion"):
        return tuple(v)
    if field == "versions":
        return [tuple(x) for x in v]
    if field == "virtual_hosts":
        hosts = []
        for h in v:
            vh = VirtualHost()
            vh.keys = [Keypair(Opaque() if k else None, (Opaque(),) if c else ()) for (k, c) in h]
            hosts.append(vh)
        return hosts
    if field == "pskConfigs":
        res = []
        for (n, h) in v:
            item = [bytearray(b"id"), bytearray(b"secret")][:n]
            if n >= 3:
                item.append(h)
                item += [bytearray(b"x")] * (n - 3)
            res.append(tuple(item))
        return res
    if field == "ticketKeys":
        return [bytearray(n) for n in v]
    if field == "dhParams":
        return {"N": None, "P": (2, 0xffffffffffffffc5), "M": (2, 3, 5), "M2": ("g", 7)}[v]
    if field in ("padding_cb", "heartbeat_response_callback"):
        return _cb if v else None
    if field in FLAGS:
        return {"T": True, "F": False, "X": None, "X2": 2, "Xs": "yes", "T1": 1, "F0": 0}[v]
    if field == "dc_sig_algs":
        if isinstance(v, dict):
            return tuple(v["scheme"])
        return [tuple(x) for x in v]
    if isinstance(v, list):
        return list(v)
    return v


def build(spec):
    from tlslite.handshakesettings import HandshakeSettings
    Opaque.counter[0] = 0
    s = HandshakeSettings()
    for f, v in spec.items():
        setattr(s, f, materialise(f, v))
    return s


def abstract(s):
    """HandshakeSettings -> the model's view (dict), or None when some value is outside the model's types"""
    from tlslite.handshakesettings import VirtualHost
    a = {}
    d = s.__dict__
    if set(d) != set(FIELD_ORDER):
        return None
    try:
        for f in INTS:
            if type(d[f]) is not int:
                return None
            a[f] = d[f]
        for f in STRLISTS:
            v = d[f]
            if not isinstance(v, list) or not all(isinstance(x, str) and TOKEN.match(x) for x in v):
                return None
            a[f] = list(v)
        for f in ("defaultCurve", "ticketCipher"):
            if not (isinstance(d[f], str) and TOKEN.match(d[f])):
                return None
            a[f] = d[f]
        for f in ("minVersion", "maxVersion"):
            v = d[f]
            if not (type(v) is tuple and len(v) == 2 and all(type(x) is int and x >= 0 for x in v)):
                return None
            a[f] = v
        v = d["versions"]
        if not (isinstance(v, list) and all(type(x) is tuple and len(x) == 2 and
                                            all(type(y) is int and y >= 0 for y in x) for x in v)):
            return None
        a["versions"] = list(v)
        for f in FLAGS:
            v = d[f]
            if not (v is None or isinstance(v, (bool, int, str))):
                return None
            a[f] = "T" if v == True else ("F" if v == False else "X")  # noqa: E712  (the code uses `in (True, False)`)
        for f in BOOLS:
            if type(d[f]) is not bool:
                return None
            a[f] = d[f]
        a["padding_cb"] = d["padding_cb"] is not None
        a["heartbeat_response_callback"] = bool(d["heartbeat_response_callback"])
        v = d["dhParams"]
        if not v:
            a["dhParams"] = "N"
        elif isinstance(v, tuple):
            a["dhParams"] = "P" if (len(v) == 2 and all(type(x) is int for x in v)) else "M"
        else:
            return None
        hosts = []
        if not isinstance(d["virtual_hosts"], list):
            return None
        for h in d["virtual_hosts"]:
            if not isinstance(h, VirtualHost) or not isinstance(h.keys, list):
                return None
            hosts.append([(bool(k.key), bool(k.certificates)) for k in h.keys])
        a["virtual_hosts"] = hosts
        psks = []
        if not isinstance(d["pskConfigs"], list):
            return None
        for i in d["pskConfigs"]:
            if not isinstance(i, tuple):
                return None
            h = None
            if len(i) >= 3:
                if not (isinstance(i[2], str) and TOKEN.match(i[2]) and ":" not in i[2]):
                    return None
                h = i[2]
            psks.append((len(i), h))
        a["pskConfigs"] = psks
        if not (isinstance(d["ticketKeys"], list) and all(isinstance(k, (bytes, bytearray)) for k in d["ticketKeys"])):
            return None
        a["ticketKeys"] = [len(k) for k in d["ticketKeys"]]
        v = d["record_size_limit"]
        if not (v is None or type(v) is int):
            return None
        a["record_size_limit"] = v
        v = d["ec_point_formats"]
        if not (isinstance(v, list) and all(type(x) is int and x >= 0 for x in v)):
            return None
        a["ec_point_formats"] = list(v)
        v = d["dc_sig_algs"]
        if isinstance(v, list) and all(type(x) is tuple and len(x) == 2 and all(type(y) is int and y >= 0 for y in x) for x in v):
            a["dc_sig_algs"] = ("L", list(v))
        elif type(v) is tuple and len(v) == 2 and all(type(y) is int and y >= 0 for y in v):
            a["dc_sig_algs"] = ("S", v)
        else:
            return None
    except Exception:
        return None
    return a


def _sl(l):
    return ",".join(l) if l else "-"


def tokens(a):
    out = []
    for f in FIELD_ORDER:
        v = a[f]
        if f in STRLISTS:
            t = _sl(v)
        elif f in INTS:
            t = str(v)
        elif f in ("defaultCurve", "ticketCipher"):
            t = v
        elif f in ("minVersion", "maxVersion"):
            t = "%d.%d" % v
        elif f == "versions":
            t = _sl(["%d.%d" % x for x in v])
        elif f in FLAGS:
            t = v
        elif f in BOOLS or f in ("padding_cb", "heartbeat_response_callback"):
            t = "1" if v else "0"
        elif f == "dhParams":
            t = v
        elif f == "virtual_hosts":
            t = ";".join(("e" if not h else ",".join(("1" if k else "0") + ("1" if c else "0") for k, c in h))
                         for h in v) if v else "-"
        elif f == "pskConfigs":
            t = _sl([("%d:%s" % (n, h)) if h is not None else str(n) for n, h in v])
        elif f in ("ticketKeys", "ec_point_formats"):
            t = _sl([str(x) for x in v])
        elif f == "record_size_limit":
            t = "N" if v is None else str(v)
        elif f == "dc_sig_algs":
            t = "L:" + _sl(["%d.%d" % x for x in v[1]]) if v[0] == "L" else "S:%d.%d" % v[1]
        else:
            raise KeyError(f)
        out.append(f + "=" + t)
    return " ".join(out)


def canon(v, depth=0):
    """identity-independent deep value"""
    if depth > 8:
        return ("deep",)
    if isinstance(v, (bytes, bytearray)):
        return (type(v).__name__, bytes(v))
    if isinstance(v, list):
        return ("list", tuple(canon(x, depth + 1) for x in v))
    if isinstance(v, tuple):
        return ("tuple", tuple(canon(x, depth + 1) for x in v))
    if isinstance(v, (set, frozenset)):
        return ("set", tuple(sorted(repr(canon(x, depth + 1)) for x in v)))
    if isinstance(v, dict):
        return ("dict", tuple(sorted((repr(k), canon(x, depth + 1)) for k, x in v.items())))
    if v is None or isinstance(v, (bool, int, float, str)):
        return (type(v).__name__, v)
    if callable(v):
        return ("callable", getattr(v, "__name__", "?"))
    if hasattr(v, "__dict__"):
        return ("obj", type(v).__name__, canon(v.__dict__, depth + 1))
    return ("opaque", type(v).__name__)


# ---------------------------------------------------------------------------------------------
# environment
# ---------------------------------------------------------------------------------------------
class EnvCtl(object):
    """current availability flags of the installation, and patching of them"""

    def __init__(self):
        from tlslite.utils import cryptomath, cipherfactory, compat
        from tlslite.utils.compression import compression_algo_impls
        self.cryptomath, self.cipherfactory, self.compat, self.impls = cryptomath, cipherfactory, compat, compression_algo_impls
        self.real = self.read()
        self.saved = (cryptomath.m2cryptoLoaded, cryptomath.pycryptoLoaded, cipherfactory.tripleDESPresent,
                      compat.ML_KEM_AVAILABLE, compat.ML_DSA_AVAILABLE, compat.ecdsaAllCurves, dict(compression_algo_impls))
        self.reloaded = False

    def read(self):
        i = self.impls
        return {"m2crypto": bool(self.cryptomath.m2cryptoLoaded), "pycrypto": bool(self.cryptomath.pycryptoLoaded),
                "tripleDES": bool(self.cipherfactory.tripleDESPresent), "mlKem": bool(self.compat.ML_KEM_AVAILABLE),
                "mlDsa": bool(self.compat.ML_DSA_AVAILABLE), "ecdsaAllCurves": bool(self.compat.ecdsaAllCurves),
                "brotliCompress": bool(i["brotli_compress"]), "zstdCompress": bool(i["zstd_compress"]),
                "brotliDecompress": bool(i["brotli_decompress"]), "zstdDecompress": bool(i["zstd_decompress"])}

    def set_backends(self, m2, py, tdes):
        """flags that validate() reads at call time"""
        self.cryptomath.m2cryptoLoaded = m2
        self.cryptomath.pycryptoLoaded = py
        self.cipherfactory.tripleDESPresent = tdes

    def set_import_time(self, env):
        """flags read when handshakesettings is imported: patch and reload the module"""
        import tlslite.handshakesettings as hs
        self.compat.ML_KEM_AVAILABLE = env["mlKem"]
        self.compat.ML_DSA_AVAILABLE = env["mlDsa"]
        self.compat.ecdsaAllCurves = env["ecdsaAllCurves"]
        for k, f in (("brotli_compress", "brotliCompress"), ("zstd_compress", "zstdCompress"),
                     ("brotli_decompress", "brotliDecompress"), ("zstd_decompress", "zstdDecompress")):
            self.impls[k] = (self.saved[6][k] or _cb) if env[f] else None
        importlib.reload(hs)
        self.reloaded = True

    def restore(self):
        import tlslite.handshakesettings as hs
        (self.cryptomath.m2cryptoLoaded, self.cryptomath.pycryptoLoaded, self.cipherfactory.tripleDESPresent,
         self.compat.ML_KEM_AVAILABLE, self.compat.ML_DSA_AVAILABLE, self.compat.ecdsaAllCurves, impls) = self.saved
        for k, v in impls.items():
            self.impls[k] = v
        if self.reloaded:
            importlib.reload(hs)
            self.reloaded = False


def env_bits(env):
    return "".join("1" if env[f] else "0" for f in ENV_FIELDS)


# ---------------------------------------------------------------------------------------------
# capability oracle: can this installation really do what the validated object names?
# ---------------------------------------------------------------------------------------------
def unsupported(res, env):
    """names in the validated object that the running installation cannot provide (real env only)"""
    from tlslite.utils import cipherfactory as cf
    import hashlib
    bad = []
    impls = res.cipherImplementations
    for i in impls:
        if i == "openssl" and not env["m2crypto"] or i == "pycrypto" and not env["pycrypto"] or \
                i not in ("openssl", "pycrypto", "python"):
            bad.append("cipherImplementations:" + str(i))
    mk = {"aes128": lambda: cf.createAES(bytearray(16), bytearray(16), impls),
          "aes256": lambda: cf.createAES(bytearray(32), bytearray(16), impls),
          "aes128gcm": lambda: cf.createAESGCM(bytearray(16), impls),
          "aes256gcm": lambda: cf.createAESGCM(bytearray(32), impls),
          "aes128ccm": lambda: cf.createAESCCM(bytearray(16), impls),
          "aes256ccm": lambda: cf.createAESCCM(bytearray(32), impls),
          "aes128ccm_8": lambda: cf.createAESCCM_8(bytearray(16), impls),
          "aes256ccm_8": lambda: cf.createAESCCM_8(bytearray(32), impls),
          "chacha20-poly1305": lambda: cf.createCHACHA20(bytearray(32), impls),
          "chacha20-poly1305_draft00": lambda: cf.createCHACHA20(bytearray(32), impls),
          "3des": lambda: cf.createTripleDES(bytearray(24), bytearray(8), impls),
          "rc4": lambda: cf.createRC4(bytearray(16), bytearray(0), impls),
          "null": lambda: True}
    for c in res.cipherNames:
        try:
            ok = c in mk and mk[c]() is not None
        except Exception:
            ok = False
        if not ok:
            bad.append("cipherNames:" + str(c))
    for f in ("rsaSigHashes", "dsaSigHashes", "ecdsaSigHashes"):
        for h in getattr(res, f):
            if not hasattr(hashlib, h):
                bad.append(f + ":" + str(h))
    for m in res.macNames:
        if m not in ("aead",) and not hasattr(hashlib, {"sha": "sha1"}.get(m, m)):
            bad.append("macNames:" + str(m))
    for c in list(res.eccCurves) + list(res.keyShares):
        if c in MLKEM and not env["mlKem"]:
            bad.append("groups:" + c)
    for sgn in res.more_sig_schemes:
        if sgn in MLDSA and not env["mlDsa"]:
            bad.append("more_sig_schemes:" + sgn)
    for a in res.certificate_compression_send:
        if a != "zlib" and not env.get(a + "Compress"):
            bad.append("certificate_compression_send:" + str(a))
    for a in res.certificate_compression_receive:
        if a != "zlib" and not env.get(a + "Decompress"):
            bad.append("certificate_compression_receive:" + str(a))
    if res.maxVersion < (3, 4) and any(v >= (3, 4) for v in res.versions):
        bad.append("versions:tls13-above-maxVersion")
    if res.maxVersion < (3, 3) and any(m not in ("sha", "md5") for m in res.macNames):
        bad.append("macNames:sha2-or-aead-below-tls12")
    return bad


# ---------------------------------------------------------------------------------------------
# one case
# ---------------------------------------------------------------------------------------------
def run_impl(spec):
    """build, validate, validate again; returns a dict of observations (no judgement)"""
    s = build(spec)
    before_ids = {k: id(v) for k, v in s.__dict__.items()}
    before = canon(copy.deepcopy(s.__dict__))
    before_fields = {k: canon(v) for k, v in copy.deepcopy(s.__dict__).items()}
    obs = {"s": s}
    try:
        r = s.validate()
        obs["out"] = ("ok", r)
    except ValueError as e:
        obs["out"] = ("ValueError", str(e))
    except Exception as e:
        obs["out"] = ("exc", type(e).__name__ + ": " + str(e)[:100])
    after_fields = {k: canon(v) for k, v in s.__dict__.items()}
    changed = sorted(k for k in set(before_fields) | set(after_fields) if before_fields.get(k) != after_fields.get(k))
    obs["mutated"] = changed
    obs["rebound"] = sorted(k for k, v in s.__dict__.items() if k in before_ids and before_ids[k] != id(v)
                            and k not in changed)
    obs["before"] = before
    if obs["out"][0] == "ok":
        r = obs["out"][1]
        r_fields = {k: canon(v) for k, v in r.__dict__.items()}
        try:
            r2 = r.validate()
            r2_fields = {k: canon(v) for k, v in r2.__dict__.items()}
            obs["idem"] = sorted(k for k in set(r_fields) | set(r2_fields) if r_fields.get(k) != r2_fields.get(k))
        except Exception as e:
            obs["idem"] = ["<raises %s: %s>" % (type(e).__name__, str(e)[:80])]
        # did validating the result modify the result?
        r_after = {k: canon(v) for k, v in r.__dict__.items()}
        obs["mutated2"] = sorted(k for k in r_fields if r_fields[k] != r_after.get(k))
        obs["shared"] = sorted(k for k, v in r.__dict__.items()
                               if isinstance(v, (list, dict, set, bytearray)) and v is s.__dict__.get(k, obs))
        obs["not_restriction"] = sorted(k for k in s.__dict__ if not is_restriction(s.__dict__[k], r.__dict__.get(k, obs)))
        obs["mutable_fields"] = sorted(k for k, v in r.__dict__.items() if isinstance(v, (list, dict, set, bytearray)))
    return obs


def is_restriction(orig, res):
    """res is orig, or (for lists) orig with some entries left out, order kept"""
    if isinstance(orig, list) and isinstance(res, list):
        it = iter(orig)
        return all(any(canon(x) == canon(y) for y in it) for x in res)
    return canon(orig) == canon(res)


class Runner(object):
    def __init__(self, ctx):
        self.ctx = ctx
        self.envctl = EnvCtl()
        self.pending = []
        self.conds = None
        self.observations = {}
        self.shared_seen = set()
        self.info = {"in_domain_rejected": 0, "rebound_equal": 0}

    # -- judge one spec under the current environment
    def case(self, kind, spec, env, modelled=True):
        ctx = self.ctx
        rep = {"stage": "validate", "kind": kind, "spec": spec, "env": env}
        try:
            obs = run_impl(spec)
        except Exception as e:          # building the object failed: generator problem, not the library's
            ctx.count("generator-error:" + type(e).__name__)
            return
        ctx.count("kind:" + kind)
        ctx.count("outcome:" + obs["out"][0])
        s = obs["s"]
        a = abstract(s) if modelled else None
        ctx.case(key=("v", kind, repr(sorted(spec.items(), key=repr)), env_bits(env)), nontrivial=bool(spec),
                 sample={"kind": kind, "spec": spec, "outcome": obs["out"][0] if obs["out"][0] != "ok" else "ok"}
                 if ctx.evaluations % 499 == 0 else None)
        # ---- purity (holds for every input whatsoever)
        for f in obs["mutated"]:
            ctx.violation("c19:mutates:" + f,
                          "validate() modified its receiver: attribute %s differs after the call (outcome %s)"
                          % (f, obs["out"][0]), dict(rep, field=f))
        if obs["rebound"]:
            self.info["rebound_equal"] += 1
        if obs["out"][0] == "ok":
            for f in obs["mutated2"]:
                ctx.violation("c19:mutates:" + f,
                              "validate() modified its receiver (a validated object): attribute %s" % f,
                              dict(rep, field=f, second=True))
            # ---- idempotence
            for f in obs["idem"]:
                ctx.violation("c19:not-idempotent:" + f.split(" ")[0].strip("<>"),
                              "validate(validate(s)) differs from validate(s) in %s" % f, dict(rep, field=f))
            self.shared_seen.update(obs["shared"])
            # ---- "returns a (filtered) copy": nothing is added, reordered or replaced
            for f in obs["not_restriction"]:
                ctx.violation("c19:result-not-restriction:" + f,
                              "validate() returned %s that is not the receiver's value with entries filtered out" % f,
                              dict(rep, field=f))
        if a is None:
            # outside the model's types: only record what happened
            if modelled:
                ctx.count("unmodelled-value")
            label = obs["out"][0] if obs["out"][0] != "exc" else obs["out"][1].split(":")[0]
            d = self.observations.setdefault(kind, {})
            d[label] = d.get(label, 0) + 1
            return
        # ---- documented domains (oracle written from the documentation)
        ood = out_of_domain(a, env)
        if obs["out"][0] == "ok" and ood:
            ctx.violation("c19:accepts-out-of-domain:" + ood[0],
                          "validate() accepted a value outside the documented domain of %s" % ", ".join(ood),
                          dict(rep, fields=ood))
        if obs["out"][0] == "exc":
            ctx.violation("c19:wrong-exception:" + obs["out"][1].split(":")[0],
                          "validate() raised %s instead of ValueError on well-typed settings" % obs["out"][1],
                          dict(rep))
        if obs["out"][0] == "ValueError" and not ood:
            self.info["in_domain_rejected"] += 1
            m = re.split(r"[:{\[']", obs["out"][1])[0].strip()
            d = self.info.setdefault("in_domain_rejected_messages", {})
            d[m] = d.get(m, 0) + 1
        # ---- only what the installation supports (real capabilities; only meaningful without patching)
        if obs["out"][0] == "ok" and env == self.envctl.real:
            bad = unsupported(obs["out"][1], env)
            if bad:
                ctx.violation("c19:unsupported:" + bad[0].split(":")[0],
                              "validated settings name something this installation (or the object's own version range) cannot use: %s" % ", ".join(bad),
                              dict(rep, unsupported=bad))
        elif obs["out"][0] == "ok":
            r = obs["out"][1]
            bad = [i for i in r.cipherImplementations if (i == "openssl" and not env["m2crypto"]) or
                   (i == "pycrypto" and not env["pycrypto"])]
            if "3des" in r.cipherNames and not env["tripleDES"]:
                bad.append("3des")
            if bad:
                ctx.violation("c19:unsupported:" + ("cipherNames" if bad == ["3des"] else "cipherImplementations"),
                              "validated settings keep %s although it is not available" % bad, dict(rep, unsupported=bad))
        # ---- model
        if obs["out"][0] == "ok":
            ra = abstract(obs["out"][1])
            impl = ("ok " + tokens(ra)) if ra is not None else "ok <unrepresentable>"
        elif obs["out"][0] == "ValueError":
            impl = "ValueError " + obs["out"][1]
        else:
            impl = "exception " + obs["out"][1]
        line = "validate %s %s" % (env_bits(env), tokens(a))
        alias = None
        if obs["out"][0] == "ok" and self.conds is not None:
            alias = (obs["out"][1], obs["shared"], obs["mutable_fields"])
        self.pending.append((rep, line, impl, alias))
        if len(self.pending) >= 500:
            self.flush()

    def flush(self):
        ctx = self.ctx
        lc = ctx.lean()
        pend, self.pending = self.pending, []
        if lc is None or not pend:
            return
        lines = []
        for rep, line, impl, alias in pend:
            lines.append(line)
            if alias is not None:
                bits = self.cond_bits(alias[0])
                lines.append("taint " + (bits if bits is not None else "-"))
        out = lc.batch(lines)
        k = 0
        for rep, line, impl, alias in pend:
            m = out[k]
            k += 1
            ctx.compared()
            if m.startswith("ValueError "):
                # accept/reject is what is compared; the model also carries the constant prefix of the
                # message of the first failing check — a different message only means the checks ran in
                # another order (not a property matter), so it is counted, not reported
                same = impl.startswith("ValueError ")
                if same and not impl[len("ValueError "):].startswith(m[len("ValueError "):]):
                    ctx.count("info:first-failing-check-differs")
            else:
                same = (m == impl)
            if not same:
                ctx.disagree("validate", rep, m[:600], impl[:600])
            if alias is not None:
                t = out[k]
                k += 1
                bits = self.cond_bits(alias[0])
                if bits is None:
                    ctx.count("alias-correspondence-skipped")
                    continue
                ctx.compared()
                model_shared = set() if t in ("-", "impure") else set(t.split(","))
                model_shared &= set(alias[2])
                if t == "impure" or model_shared != set(alias[1]):
                    ctx.disagree("alias-structure", dict(rep, bits=bits), t if t == "impure" else sorted(model_shared),
                                 alias[1])

    def cond_bits(self, result):
        """truth values of the generated branch conditions on this run, evaluated on the returned object"""
        from tlslite.utils import cryptomath, cipherfactory
        bits = ""
        for c in self.conds:
            try:
                v = eval(c, {"other": result, "self": result, "cryptomath": cryptomath, "cipherfactory": cipherfactory})
            except Exception:
                return None
            bits += "1" if v else "0"
        return bits or "-"


# ---------------------------------------------------------------------------------------------
# generators
# ---------------------------------------------------------------------------------------------
def lattice_values(env, consts):
    """per field: in-domain alternatives and out-of-domain probes (spec values)"""
    C = consts
    unknown = "bogus-name"
    V = {}

    def lists(f, default, extra_ok, extra_bad=(unknown,)):
        vals = []
        d = list(default)
        vals.append(d[:1])
        vals.append(d[-1:])
        vals.append(d[::-1])
        vals.append(d[::2])
        vals.append(d[1::2] or d[:1])
        vals.append(d + [x for x in extra_ok if x not in d])
        vals.append([x for x in extra_ok if x not in d] or d)
        vals.append(d + d[:1])                     # duplicate entry
        vals.append([])
        for b in extra_bad:
            vals.append(d + [b])
            vals.append([b])
            vals.append([b] + d)
        vals.append([x.upper() for x in d[:1]] if d and d[0].upper() != d[0] else [unknown])
        V[f] = vals
    lists("cipherNames", C["CIPHER_NAMES"], C["ALL_CIPHER_NAMES"], (unknown, "aes192", "des"))
    V["cipherNames"] += [["3des"], ["3des", "aes128"], ["rc4"], ["null"], ["aes128ccm_8"], ["chacha20-poly1305_draft00"]]
    lists("macNames", C["MAC_NAMES"], C["ALL_MAC_NAMES"], (unknown, "sha512", "sha1"))
    V["macNames"] += [["md5"], ["sha", "md5"], ["aead"], ["sha256", "sha384"], ["md5", "aead", "sha"]]
    lists("keyExchangeNames", C["KEY_EXCHANGE_NAMES"], C["KEY_EXCHANGE_NAMES"], (unknown, "dh_rsa", "ecdh_rsa"))
    lists("cipherImplementations", C["CIPHER_IMPLEMENTATIONS"], C["CIPHER_IMPLEMENTATIONS"], (unknown, "cryptlib"))
    V["cipherImplementations"] += [["openssl"], ["pycrypto"], ["openssl", "pycrypto"], ["python"], ["python", "openssl"],
                                   ["python", "python"], ["openssl", "openssl", "python", "pycrypto", "openssl"]]
    lists("certificateTypes", C["CERTIFICATE_TYPES"], C["CERTIFICATE_TYPES"], (unknown, "openpgp"))
    lists("rsaSigHashes", C["RSA_SIGNATURE_HASHES"], C["ALL_RSA_SIGNATURE_HASHES"], (unknown, "sha3_256"))
    lists("dsaSigHashes", C["DSA_SIGNATURE_HASHES"], C["DSA_SIGNATURE_HASHES"], (unknown, "md5"))
    lists("ecdsaSigHashes", C["ECDSA_SIGNATURE_HASHES"], C["ECDSA_SIGNATURE_HASHES"], (unknown, "md5"))
    lists("rsaSchemes", C["RSA_SCHEMES"], C["RSA_SCHEMES"], (unknown, "oaep"))
    lists("more_sig_schemes", C["SIGNATURE_SCHEMES"], C["SIGNATURE_SCHEMES"] + MLDSA, (unknown, "ed25519"))
    lists("eccCurves", C["CURVE_NAMES"], C["ALL_CURVE_NAMES"] + MLKEM, (unknown, "secp160r1", "P-256"))
    V["eccCurves"] += [["x25519", "secp256r1"], ["secp256r1", "secp384r1", "secp521r1", "x25519", "x448"],
                       ["secp256r1", "x25519", "brainpoolP256r1tls13"], ["brainpoolP256r1"]]
    lists("dhGroups", C["ALL_DH_GROUP_NAMES"], C["ALL_DH_GROUP_NAMES"], (unknown, "ffdhe1024"))
    V["keyShares"] = [[], ["x25519"], ["secp256r1"], ["x25519", "secp256r1"], ["ffdhe2048"], ["secp384r1", "ffdhe3072"],
                      ["x448", "x25519", "secp521r1"], ["secp256k1"], ["brainpoolP256r1tls13"], [unknown], ["x25519", unknown],
                      ["x25519mlkem768"], ["x25519mlkem768", "x25519"], ["secp224r1"], ["ffdhe1024"],
                      ["secp256r1", "secp256r1"]]
    lists("psk_modes", C["PSK_MODES"], C["PSK_MODES"], (unknown, "psk"))
    lists("certificate_compression_send", C["ALL_COMPRESSION_ALGOS_SEND"], ["zlib", "brotli", "zstd"], (unknown, "gzip"))
    lists("certificate_compression_receive", C["ALL_COMPRESSION_ALGOS_RECEIVE"], ["zlib", "brotli", "zstd"], (unknown, "gzip"))
    V["defaultCurve"] = ["secp256r1", "secp384r1", "secp521r1", "x25519", "secp256k1", "brainpoolP256r1", "secp224r1",
                         "x25519mlkem768", unknown, "P-256", "ffdhe2048", "brainpoolP512r1tls13"]
    V["minKeySize"] = [0, 1, 511, 512, 513, 1023, 1024, 2048, 8193, 16383, 16384, 16385, -1, 10 ** 6]
    V["maxKeySize"] = [0, 511, 512, 513, 1022, 1023, 1024, 4096, 8193, 16383, 16384, 16385, -5, 10 ** 6]
    vers = [[3, 0], [3, 1], [3, 2], [3, 3], [3, 4]]
    V["minVersion"] = vers + [[3, 5], [2, 0], [4, 0], [0, 0], [3, 10]]
    V["maxVersion"] = vers + [[3, 5], [2, 0], [4, 0], [3, 10]]
    V["versions"] = [[[3, 4], [3, 3], [3, 2], [3, 1]], [[3, 4]], [[3, 3]], [[3, 4], [3, 3]], [[3, 3], [3, 4]],
                     [[3, 1], [3, 2], [3, 3], [3, 4]], [[3, 0]], [[3, 2], [3, 1]], [], [[3, 4], [3, 2]], [[3, 5]],
                     [[3, 4], [3, 4], [3, 3]], [[3, 0], [3, 1], [3, 2], [3, 3], [3, 4], [3, 5]], [[2, 0], [3, 3]]]
    V["record_size_limit"] = [None, 0, 1, 63, 64, 65, 512, 2 ** 14 - 1, 2 ** 14, 2 ** 14 + 1, 2 ** 14 + 2, 2 ** 16, -1]
    for f in FLAGS:
        V[f] = ["T", "F", "X", "X2", "Xs", "T1", "F0"]
    V["useExperimentalTackExtension"] = [True, False]
    V["sendFallbackSCSV"] = [True, False]
    V["padding_cb"] = [True, False]
    V["heartbeat_response_callback"] = [True, False]
    V["ticketCipher"] = ["aes256gcm", "aes128gcm", "chacha20-poly1305", "aes128ccm", "aes128ccm_8", "aes256ccm",
                         "aes256ccm_8", "aes128", "3des", unknown, "AES256GCM"]
    V["ticketKeys"] = [[], [32], [16], [32, 32], [32, 16], [16, 32, 32], [15], [17], [31], [33], [0], [32, 0], [64], [24]]
    V["ticketLifetime"] = [-1, 0, 1, 2, 3600, 86400, 604799, 604800, 604801, 10 ** 9]
    V["max_early_data"] = [-1, 0, 1, 2 ** 14, 2 ** 14 + 16, 2 ** 31, 2 ** 32, 2 ** 64 - 1, 2 ** 64, 2 ** 64 + 1]
    V["ticket_count"] = [-1, 0, 1, 2, 255, 65534, 65535, 65536, 10 ** 6]
    V["pskConfigs"] = [[], [[2, None]], [[3, "sha256"]], [[3, "sha384"]], [[2, None], [3, "sha256"]], [[3, "sha1"]],
                       [[3, "sha512"]], [[1, None]], [[0, None]], [[4, "sha256"]], [[2, None], [1, None]],
                       [[3, "sha256"], [3, "md5"]], [[3, "SHA256"]], [[5, "sha384"]]]
    V["dhParams"] = ["N", "P", "M", "M2"]
    V["virtual_hosts"] = [[], [[[True, True]]], [[[True, True], [True, True]]], [[]], [[[True, False]]], [[[False, True]]],
                          [[[False, False]]], [[[True, True]], []], [[[True, True]], [[True, True], [False, True]]],
                          [[], [[False, False]]]]
    V["ec_point_formats"] = [[1, 0], [0], [0, 1], [1], [], [0, 2], [2, 0, 1], [2], [0, 0], [1, 2]]
    V["dc_sig_algs"] = [[], [[4, 3]], [[8, 4]], [[8, 4], [8, 5], [8, 6]], [[8, 9]], {"scheme": [8, 4]}, {"scheme": [8, 5]},
                        {"scheme": [8, 6]}, {"scheme": [4, 3]}, {"scheme": [8, 7]}]
    V["dc_valid_time"] = [0, 1, 3600, 604799, 604800, 604801, -1, 10 ** 9]
    return V


WRONG_TYPES = {
    "minKeySize": ["none", "str", "float"], "maxKeySize": ["none", "str", "float"],
    "cipherNames": ["none", "str", "listint", "listnone", "int5"], "macNames": ["none", "str", "listint"],
    "keyExchangeNames": ["none", "listnone"], "cipherImplementations": ["none", "str", "listint"],
    "certificateTypes": ["none", "str", "int5"], "versions": ["none", "listint", "str"],
    "minVersion": ["none", "tuple1", "strver", "listver", "int5"], "maxVersion": ["none", "tuple1", "strver", "listver"],
    "record_size_limit": ["str", "float", "listint"], "ticketLifetime": ["none", "str", "float"],
    "max_early_data": ["none", "str"], "ticket_count": ["none", "str", "float"],
    "ticketKeys": ["none", "listnone", "listint", "int5"], "pskConfigs": ["none", "listnone", "listint", "int5"],
    "psk_modes": ["none", "int5", "listint"], "ticketCipher": ["none", "int5", "listint"],
    "defaultCurve": ["none", "int5"], "eccCurves": ["none", "listint", "str"], "dhGroups": ["none", "listnone"],
    "keyShares": ["none", "listint", "str"], "virtual_hosts": ["none", "listnone", "listint", "int5"],
    "dhParams": ["int5", "str", "listint", "bytes"], "ec_point_formats": ["none", "str", "int5"],
    "dc_valid_time": ["none", "str"], "dc_sig_algs": ["none", "int5", "str"],
    "certificate_compression_send": ["int5", "listint", "listnone", "str", "none", "dict"],
    "certificate_compression_receive": ["int5", "listint", "listnone", "str", "none", "dict"],
    "rsaSigHashes": ["none", "listint"], "rsaSchemes": ["none", "str"], "dsaSigHashes": ["none"],
    "ecdsaSigHashes": ["none"], "more_sig_schemes": ["none", "listint"],
    "useEncryptThenMAC": ["listint", "dict"], "useExtendedMasterSecret": ["listint"],
}


def module_consts():
    import tlslite.handshakesettings as hs
    return {n: copy.deepcopy(getattr(hs, n)) for n in dir(hs) if n.isupper()}


def random_spec(rng, V, ndims=None):
    fields = sorted(V)
    n = ndims if ndims is not None else rng.choice([1, 2, 2, 3, 3, 4, 6, 10])
    spec = {}
    for f in rng.sample(fields, min(n, len(fields))):
        spec[f] = copy.deepcopy(rng.choice(V[f]))
    return spec


def restrict_reorder_spec(rng, consts, in_domain_only=True):
    """the quantifier of C19 proper: restrict and/or reorder any subset of the list dimensions and
    pick consistent scalars — expected to validate"""
    spec = {}
    dims = {"cipherNames": consts["CIPHER_NAMES"], "macNames": consts["MAC_NAMES"],
            "keyExchangeNames": consts["KEY_EXCHANGE_NAMES"], "eccCurves": consts["CURVE_NAMES"],
            "dhGroups": consts["ALL_DH_GROUP_NAMES"], "rsaSigHashes": consts["RSA_SIGNATURE_HASHES"],
            "dsaSigHashes": consts["DSA_SIGNATURE_HASHES"], "ecdsaSigHashes": consts["ECDSA_SIGNATURE_HASHES"],
            "rsaSchemes": consts["RSA_SCHEMES"], "more_sig_schemes": consts["SIGNATURE_SCHEMES"],
            "psk_modes": consts["PSK_MODES"], "cipherImplementations": consts["CIPHER_IMPLEMENTATIONS"],
            "certificate_compression_send": consts["ALL_COMPRESSION_ALGOS_SEND"],
            "certificate_compression_receive": consts["ALL_COMPRESSION_ALGOS_RECEIVE"]}
    for f, full in dims.items():
        r = rng.random()
        if r < 0.45:
            continue
        l = list(full)
        if r < 0.8 and len(l) > 1:
            k = rng.randrange(1, len(l) + 1)
            l = [x for x in l if rng.random() < k / float(len(l))] or [rng.choice(list(full))]
        if rng.random() < 0.5:
            rng.shuffle(l)
        spec[f] = l
    ecc = spec.get("eccCurves", list(consts["CURVE_NAMES"]))
    dh = spec.get("dhGroups", list(consts["ALL_DH_GROUP_NAMES"]))
    pool = ecc + dh
    if rng.random() < 0.7 and pool:
        spec["keyShares"] = rng.sample(pool, rng.randrange(0, min(3, len(pool)) + 1))
    vs = [[3, 0], [3, 1], [3, 2], [3, 3], [3, 4]]
    if rng.random() < 0.7:
        lo = rng.randrange(0, 5)
        hi = rng.randrange(lo, 5)
        spec["minVersion"], spec["maxVersion"] = vs[lo], vs[hi]
        if rng.random() < 0.6:
            l = [v for v in [[3, 4], [3, 3], [3, 2], [3, 1], [3, 0]] if rng.random() < 0.6] or [vs[hi]]
            if rng.random() < 0.3:
                rng.shuffle(l)
            spec["versions"] = l
    if rng.random() < 0.4:
        a, b = sorted([rng.choice([512, 768, 1023, 1024, 2048, 3072, 4096, 8192, 8193, 16384]) for _ in range(2)])
        spec["minKeySize"], spec["maxKeySize"] = a, b
    if rng.random() < 0.4:
        spec["useEncryptThenMAC"] = rng.choice(["T", "F"])
    if rng.random() < 0.4:
        use = rng.choice(["T", "F"])
        spec["useExtendedMasterSecret"] = use
        spec["requireExtendedMasterSecret"] = rng.choice(["T", "F"]) if use == "T" else "F"
    if rng.random() < 0.4:
        spec["record_size_limit"] = rng.choice([None, 64, 65, 512, 1024, 2 ** 14, 2 ** 14 + 1, rng.randrange(64, 2 ** 14 + 2)])
    if rng.random() < 0.3:
        spec["ticketKeys"] = [rng.choice([16, 32]) for _ in range(rng.randrange(0, 4))]
        spec["ticketCipher"] = rng.choice(DOC["ticketCipher"])
        spec["ticketLifetime"] = rng.choice([1, 60, 3600, 86400, 604800])
        spec["ticket_count"] = rng.choice([0, 1, 2, 5, 65535])
    if rng.random() < 0.3:
        spec["pskConfigs"] = [rng.choice([[2, None], [3, "sha256"], [3, "sha384"]]) for _ in range(rng.randrange(0, 3))]
    if rng.random() < 0.2:
        spec["max_early_data"] = rng.choice([1, 2 ** 14, 2 ** 32, 2 ** 64])
    if rng.random() < 0.2:
        spec["use_heartbeat_extension"] = rng.choice(["T", "F"])
    if rng.random() < 0.2:
        spec["defaultCurve"] = rng.choice(["secp256r1", "secp384r1", "secp521r1", "x25519"])
    return spec


def static_checks(ctx, rn, env):
    """translator round trip: generated tables/defaults vs the imported module, read back through the driver"""
    from tlslite.handshakesettings import HandshakeSettings
    lc = ctx.lean()
    if lc is None:
        return
    C = module_consts()
    got = lc.ask("consts " + env_bits(env))
    want = []
    for n in ["CIPHER_NAMES", "ALL_CIPHER_NAMES", "MAC_NAMES", "ALL_MAC_NAMES", "KEY_EXCHANGE_NAMES",
              "CIPHER_IMPLEMENTATIONS", "CERTIFICATE_TYPES", "RSA_SIGNATURE_HASHES", "DSA_SIGNATURE_HASHES",
              "ECDSA_SIGNATURE_HASHES", "ALL_RSA_SIGNATURE_HASHES", "SIGNATURE_SCHEMES", "RSA_SCHEMES", "CURVE_NAMES",
              "ALL_CURVE_NAMES", "ALL_DH_GROUP_NAMES", "TLS13_PERMITTED_GROUPS"]:
        want.append(n + "=" + _sl(list(C[n])))
    want.append("KNOWN_VERSIONS=" + _sl(["%d.%d" % tuple(v) for v in C["KNOWN_VERSIONS"]]))
    want.append("TICKET_CIPHERS=" + _sl(list(C["TICKET_CIPHERS"])))
    want.append("PSK_MODES=" + _sl(list(C["PSK_MODES"])))
    want.append("EC_POINT_FORMATS=" + _sl([str(x) for x in C["EC_POINT_FORMATS"]]))
    want.append("ALL_COMPRESSION_ALGOS_SEND=" + _sl(list(C["ALL_COMPRESSION_ALGOS_SEND"])))
    want.append("ALL_COMPRESSION_ALGOS_RECEIVE=" + _sl(list(C["ALL_COMPRESSION_ALGOS_RECEIVE"])))
    want.append("DELEGETED_CREDENTIAL_FORBIDDEN_ALG=" + _sl(["%d.%d" % tuple(v) for v in C["DELEGETED_CREDENTIAL_FORBIDDEN_ALG"]]))
    want.append("DC_VALID_TIME=%d" % C["DC_VALID_TIME"])
    want = " ".join(want)
    ctx.compared()
    ctx.case(key=("consts", env_bits(env)))
    if got != want:
        ctx.disagree("generated-constants", {"env": env}, got[:1500], want[:1500])
    fresh = HandshakeSettings()
    if set(fresh.__dict__) != set(FIELD_ORDER):
        ctx.disagree("fields", {"env": env}, sorted(FIELD_ORDER), sorted(fresh.__dict__))
        return
    a = abstract(fresh)
    got = lc.ask("defaults " + env_bits(env))
    ctx.compared()
    ctx.case(key=("defaults", env_bits(env)))
    if a is None or got != "ok " + tokens(a):
        ctx.disagree("generated-defaults", {"env": env}, got[:1500], ("ok " + tokens(a))[:1500] if a else None)


def sweep(ctx, rn, env, tag, thorough_extra=False):
    """every listed value of every field with the rest default, then random combinations"""
    rng = ctx.rng
    C = module_consts()
    V = lattice_values(env, C)
    rn.case(tag + "default", {}, env)
    for f in sorted(V):
        for v in V[f]:
            rn.case(tag + "single:" + f, {f: copy.deepcopy(v)}, env)
    # pairs that interact
    for lo in V["minVersion"]:
        for hi in V["maxVersion"]:
            rn.case(tag + "pair:versions", {"minVersion": lo, "maxVersion": hi}, env)
    for hi in [[3, 0], [3, 1], [3, 2], [3, 3], [3, 4]]:
        for m in V["macNames"]:
            rn.case(tag + "pair:maxVersion-macNames", {"minVersion": [3, 0], "maxVersion": hi, "macNames": m}, env)
        for vs in V["versions"]:
            rn.case(tag + "pair:maxVersion-versions", {"minVersion": [3, 0], "maxVersion": hi, "versions": vs}, env)
            for cur in (["x25519", "secp256r1"], ["brainpoolP256r1", "x25519"], ["secp256k1"], ["brainpoolP256r1tls13"]):
                rn.case(tag + "pair:versions-curves", {"minVersion": [3, 0], "maxVersion": hi, "versions": vs,
                                                       "eccCurves": cur, "keyShares": []}, env)
        rn.case(tag + "pair:nosig", {"minVersion": [3, 0], "maxVersion": hi, "rsaSigHashes": [], "ecdsaSigHashes": [],
                                     "dsaSigHashes": [], "more_sig_schemes": []}, env)
        rn.case(tag + "pair:nosig", {"minVersion": [3, 0], "maxVersion": hi, "rsaSigHashes": [], "ecdsaSigHashes": [],
                                     "dsaSigHashes": [], "more_sig_schemes": ["Ed25519"]}, env)
    for a in V["minKeySize"]:
        for b in V["maxKeySize"]:
            rn.case(tag + "pair:keysizes", {"minKeySize": a, "maxKeySize": b}, env)
    for u in FLAGS[3:4]:
        for x in V[u]:
            for y in V["requireExtendedMasterSecret"]:
                rn.case(tag + "pair:ems", {"useExtendedMasterSecret": x, "requireExtendedMasterSecret": y}, env)
    for x in V["use_heartbeat_extension"]:
        for y in (True, False):
            rn.case(tag + "pair:heartbeat", {"use_heartbeat_extension": x, "heartbeat_response_callback": y}, env)
    for ks in V["keyShares"]:
        for ecc in (["x25519"], ["secp256r1", "x25519"], [], ["secp256k1", "secp224r1"]):
            for dh in (["ffdhe2048"], []):
                rn.case(tag + "pair:keyshares", {"keyShares": ks, "eccCurves": ecc, "dhGroups": dh}, env)


def report_use_mutation(ctx, r, rep):
    """the settings objects handed to a handshake (the caller's original and its validated copy, which share
    lists by reference) must come back untouched"""
    for m in r.get("settings_mutated") or []:
        who, field, how = (m.split(":") + ["", ""])[:3]
        ctx.violation("c19:use-mutates-settings:" + field,
                      "a handshake changed the caller's settings object: %s.%s (%s)" % (who, field, how),
                      dict(rep, mutated=r["settings_mutated"]))


def judge_sequence(ctx, seq):
    from . import c19_use as U
    r = U.run_sequence(seq)
    if "invalid" in r:
        ctx.count("pair:invalid:reuse")
        return
    ctx.case(key=("reuse", repr(sorted(seq.items(), key=repr))),
             sample={"kind": seq["kind"], "steps": [s["entry"] for s in seq["steps"]]} if ctx.evaluations % 53 == 0 else None)
    ctx.count("pair-kind:" + seq["kind"])
    rep = dict(seq, stage="reuse-sequence")
    rep["observed"] = r
    for m in r["mutated"]:
        who, field, how = (m.split(":") + ["", ""])[:3]
        ctx.violation("c19:use-mutates-settings:" + field,
                      "using a settings object for handshakes changed it: %s.%s (%s)" % (who, field, how), rep)
    for m in r["validate_changed"]:
        ctx.violation("c19:use-changes-validate-result:" + m.split(":", 1)[1].split(" ")[0].strip("<>"),
                      "validate() of the settings object gives a different result after the object was used: %s" % m, rep)
    for st in r["steps"]:
        if not st["same"]:
            ctx.violation("c19:reuse-changes-outcome:" + st["entry"],
                          "step %d (%s) with the already used settings object ends differently (%s) than with a fresh equal "
                          "object (%s)" % (st["step"], st["entry"], st["with_shared_objects"], st["with_fresh_objects"]), rep)


def judge_pair(ctx, table, kind, cspec, sspec, cred, alpn, server_dh_bits=None):
    """run one pair in the lab and compare with the independent expectation; returns a short verdict"""
    from . import c19_pairs as P
    r = P.run_pair(cspec, sspec, cred, alpn, server_dh_bits)
    rep = {"stage": "pair", "kind": kind, "client": cspec, "server": sspec, "cred": cred, "alpn": alpn,
           "server_dh_bits": server_dh_bits}
    if r["outcome"].startswith("invalid"):
        ctx.count("pair:" + r["outcome"])
        return "invalid"
    report_use_mutation(ctx, r, rep)
    exp, why, v = P.compatible(table, r["cset"], r["sset"], cred)
    ctx.case(key=("pair", repr(sorted(cspec.items())), repr(sorted(sspec.items())), cred, repr(alpn)),
             sample={"kind": kind, "client": cspec, "server": sspec, "cred": cred, "expected": exp, "why": why,
                     "outcome": r["outcome"]} if ctx.evaluations % 701 == 0 else None)
    ctx.count("pair-kind:" + kind.split(":")[0] + (":" + kind.split(":")[1] if kind.startswith("sys:") else ""))
    ctx.count("pair-cred:" + cred)
    ctx.count("pair-expected:%s:%s" % (exp, why if exp is not True else "ok"))
    if v is not None:
        ctx.count("pair-version:%d.%d" % v)
    vname = {None: "none", (3, 0): "ssl3", (3, 1): "tls10", (3, 2): "tls11", (3, 3): "tls12", (3, 4): "tls13"}[v]
    detail = dict(rep, expected=exp, why=why, version=v, outcome=r["outcome"], client_result=r.get("client_exc"),
                  server_result=r.get("server_exc"), validated_client=r["cset"], validated_server=r["sset"])
    if exp is None:
        ctx.count("info:pair-not-judged:%s:%s" % (why.split(":")[0], r["outcome"]))
        return "unjudged"
    if exp is True and r["outcome"] != "complete":
        exc = r.get("server_exc") if r.get("server_exc") not in (None, "none") else r.get("client_exc")
        ctx.violation("c19:compatible-pair-fails:%s-%s-%s" % (vname, P.CRED_FACTS[cred][0], str(exc).replace(":", "-")),
                      "two validated settings that share version %s, a suite, a group and a signature scheme usable with "
                      "the %s credentials do not complete a handshake (client: %s, server: %s)"
                      % (vname, cred, r.get("client_exc"), r.get("server_exc")), detail)
        return "bad"
    if exp is False and r["outcome"] != "fail":
        ctx.violation("c19:incompatible-pair-connects:" + why,
                      "two validated settings with %s completed a handshake" % why, detail)
        return "bad"
    if exp is True:
        both = P.enabled_suites(table, r["cset"], v) & P.enabled_suites(table, r["sset"], v)
        if r["version"] != v or r["server_version"] != v or r["suite"] != r["server_suite"] or r["suite"] not in both:
            ctx.violation("c19:pair-completes-outside-settings",
                          "handshake completed with version %s / suite %#x (server side: %s / %#x); expected version %s and a "
                          "suite both settings enable" % (r["version"], r["suite"], r["server_version"], r["server_suite"], v),
                          detail)
            return "bad"
    return "ok"


def psk_verdict(table, spec, r):
    """(kind of failure or None, text) for one PSK / ticket pair result"""
    from . import c19_pairs as P
    if spec["kind"] == "external":
        must, used, why = P.psk_expectation(table, r["cset"], r["sset"], spec["cred"], spec["psk"].get("hash") or "sha256",
                                            spec["client"]["psk_modes"], spec["server"]["psk_modes"])
    else:
        if r["outcome"] in ("first-connection-failed", "no-ticket-received"):
            ok, why, v = P.compatible(table, r["cset"], r["sset"], spec["cred"])
            if ok is True and v == (3, 4):
                return "first-connection", "the ticket-issuing connection: " + r["outcome"]
            return None, "first connection not expected to give a ticket"
        ok, why, v = P.compatible(table, r["cset2"], r["sset"], spec["cred"])
        must, used = (ok, True) if (ok is True and v == (3, 4)) else (ok if ok is not True else None, None)
    if must is not True:
        return None, "not judged (%s)" % why
    hrr = "hrr" if r.get("hrr") else "no-hrr"
    if r["outcome"] != "complete":
        exc = r.get("server_exc") if r.get("server_exc") not in (None, "none") else r.get("client_exc")
        return ("fails:%s-%s-%s" % (spec["kind"], hrr, str(exc).replace(":", "-")),
                "settings sharing %s do not complete a TLS 1.3 handshake (%s; client: %s, server: %s)"
                % ("an external PSK" if spec["kind"] == "external" else "a session ticket", hrr, r.get("client_exc"),
                   r.get("server_exc")))
    if used is True and not r.get("psk_selected"):
        return "psk-not-used:" + spec["kind"], "handshake completed but the server did not select the shared PSK (%s)" % hrr
    if used is True and r.get("server_sent_certificate"):
        return "psk-not-used:" + spec["kind"], "server selected the PSK and still sent a certificate"
    if used is False and r.get("psk_selected"):
        return "psk-used-with-wrong-hash", "server selected a PSK whose hash differs from the suite's PRF hash"
    if spec["kind"] == "ticket" and not (r.get("client_resumed") and r.get("server_resumed")):
        return "psk-not-used:ticket-resumed-flag", "ticket accepted but resumed is client=%s server=%s" % (
            r.get("client_resumed"), r.get("server_resumed"))
    return None, "ok"


def judge_psk(ctx, table, label, spec):
    from . import c19_pairs as P
    r = P.run_psk_pair(spec)
    if r["outcome"] == "invalid":
        ctx.count("pair:invalid:psk")
        return
    ctx.case(key=("psk", repr(sorted(spec.items(), key=repr))),
             sample={"kind": label, "spec": spec, "outcome": r["outcome"], "hrr": r.get("hrr"),
                     "psk_selected": r.get("psk_selected")} if ctx.evaluations % 701 == 0 else None)
    ctx.count("pair-kind:" + label)
    ctx.count("pair-cred:" + spec["cred"])
    report_use_mutation(ctx, r, dict(spec, stage="psk-pair", label=label))
    bad, text = psk_verdict(table, spec, r)
    if text.startswith("not judged") or text.startswith("first connection not"):
        ctx.count("info:pair-not-judged:psk")
    if bad is None:
        return
    detail = dict(spec, stage="psk-pair", label=label)
    detail["observed"] = {k: v for k, v in r.items() if k not in ("cset", "sset", "cset2")}
    key = ("c19:compatible-pair-fails:tls13-psk-" + bad[len("fails:"):]) if bad.startswith("fails:") else "c19:" + bad
    ctx.violation(key, text, detail)


VNAME = {None: "none", (3, 0): "ssl3", (3, 1): "tls10", (3, 2): "tls11", (3, 3): "tls12", (3, 4): "tls13"}


def entry_verdict(otable, spec, r):
    from . import c19_entry as E
    exp, why, v = E.entry_expectation(otable, spec, r["cset"], r["sset"])
    if exp is None:
        return None, "not judged (%s)" % why, exp, why
    if exp is True and r["outcome"] != "complete":
        exc = r.get("server_exc") if r.get("server_exc") not in (None, "none") else r.get("client_exc")
        key = "c19:compatible-pair-fails:%s-%s-%s" % (spec["entry"], VNAME[v], str(exc).replace(":", "-"))
        if tuple(r["cset"]["maxVersion"]) >= (3, 4) and tuple(r["sset"]["maxVersion"]) >= (3, 4):
            key = "c19:srp-anon-client-advertises-tls13"      # both ends also enable TLS 1.3, which has no such suites
        elif why == "ok-plain-srp-only":
            key = "c19:srp-server-with-certificate-refuses-plain-srp"
        return (key,
                "%s endpoints with validated settings that share version %s, a suite and parameters inside the client's "
                "key-size limits [%d, %d] do not complete (client: %s, server: %s)"
                % (spec["entry"], VNAME[v], r["cset"]["minKeySize"], r["cset"]["maxKeySize"], r.get("client_exc"),
                   r.get("server_exc")), exp, why)
    if exp is False and r["outcome"] != "fail":
        return ("c19:incompatible-pair-connects:%s-%s" % (spec["entry"], why),
                "%s endpoints with %s completed a handshake" % (spec["entry"], why), exp, why)
    return None, "ok", exp, why


def judge_entry(ctx, otable, label, spec):
    from . import c19_entry as E
    r = E.run_entry_pair(spec)
    if r["outcome"] == "invalid":
        ctx.count("pair:invalid:" + spec["entry"])
        return
    ctx.case(key=("entry", repr(sorted(spec.items(), key=repr))),
             sample={"kind": label, "spec": spec, "outcome": r["outcome"]} if ctx.evaluations % 701 == 0 else None)
    ctx.count("pair-kind:" + label)
    report_use_mutation(ctx, r, dict(spec, stage="entry-pair", label=label))
    key, text, exp, why = entry_verdict(otable, spec, r)
    ctx.count("pair-expected:%s:%s" % (exp, why if exp is not True else "ok"))
    if exp is None:
        ctx.count("info:pair-not-judged:%s:%s:%s" % (spec["entry"], why.split(":")[0], r["outcome"]))
    if key is not None:
        detail = dict(spec, stage="entry-pair", label=label)
        detail["observed"] = {k: v for k, v in r.items() if k not in ("cset", "sset")}
        ctx.violation(key, text, detail)


def multipsk_verdict(table, spec, r):
    from . import c19_entry as E
    must, sel, why = E.multipsk_expectation(table, spec, r["cset"], r["sset"])
    if must is None:
        return None, "not judged (%s)" % why, must, why
    if must is False:
        if r["outcome"] != "fail":
            return "c19:incompatible-pair-connects:multipsk-" + why, "endpoints with %s completed a handshake" % why, must, why
        return None, "ok", must, why
    if r["outcome"] != "complete":
        exc = r.get("server_exc") if r.get("server_exc") not in (None, "none") else r.get("client_exc")
        return ("c19:psk-hash-mismatch-no-certificate-fallback" if why == "certificate-fallback-for-unfitting-psk"
                else "c19:compatible-pair-fails:tls13-multipsk-%s" % str(exc).replace(":", "-"),
                "TLS 1.3 endpoints that share a suite and %s do not complete (client offered %s, server holds %s; client: %s, "
                "server: %s)" % ("a PSK of the suite's hash" if sel != "none" else "a certificate path",
                                 [p["identity"] for p in spec["client_psks"]], [p["identity"] for p in spec["server_psks"]],
                                 r.get("client_exc"), r.get("server_exc")), must, why)
    if sel == "none" and r["selected_identity"] is not None:
        return "c19:psk-used-with-wrong-hash", "server selected identity %s although no offered PSK fits" % r["selected_identity"], must, why
    if isinstance(sel, list) and r["selected_identity"] not in sel:
        return ("c19:psk-not-used:multi", "completed, but the server selected identity index %s; the PSKs fitting the suite are %s"
                % (r["selected_identity"], sel), must, why)
    return None, "ok", must, why


def judge_multipsk(ctx, table, label, spec):
    from . import c19_entry as E
    r = E.run_multipsk_pair(spec)
    if r["outcome"] == "invalid":
        ctx.count("pair:invalid:multipsk")
        return
    ctx.case(key=("multipsk", repr(sorted(spec.items(), key=repr))),
             sample={"kind": label, "spec": spec, "outcome": r["outcome"], "selected": r.get("selected_identity")}
             if ctx.evaluations % 701 == 0 else None)
    ctx.count("pair-kind:" + label)
    report_use_mutation(ctx, r, dict(spec, stage="multipsk-pair", label=label))
    key, text, must, why = multipsk_verdict(table, spec, r)
    ctx.count("pair-expected:%s:%s" % (must, why if must is not True else "ok"))
    if must is None:
        ctx.count("info:pair-not-judged:multipsk:%s:%s" % (why.split(":")[0], r["outcome"]))
    if key is not None:
        detail = dict(spec, stage="multipsk-pair", label=label)
        detail["observed"] = {k: v for k, v in r.items() if k not in ("cset", "sset")}
        ctx.violation(key, text, detail)


class Budget(object):
    """wall-clock budget for the RANDOM bulk only (AGENT_GUIDE "Load independence"): directed families never
    consult it; a random stream that runs out is cut and recorded"""

    def __init__(self, ctx, seconds):
        self.ctx, self.deadline = ctx, seconds

    def spent(self, stream):
        if self.ctx.elapsed() > self.deadline:
            self.ctx.count("cut-by-budget:" + stream)
            return True
        return False


def _count(gen):
    return sum(1 for _ in gen)


def pairs_directed(ctx):
    """second half of C19, directed families (live lab, real environment): never cut by a budget"""
    import random as _random
    from . import c19_pairs as P, c19_use as U, c19_entry as E
    table = P.suite_table()
    otable = E.other_table()
    ctx.extra["suite_table_size"] = len(table)
    for seq in U.reuse_sequences():
        judge_sequence(ctx, seq)
    for (kind, c, s, cred, alpn) in P.systematic_pairs():
        judge_pair(ctx, table, kind, c, s, cred, alpn)
    for (kind, c, s, cred, alpn, dhb) in E.cert_boundary_pairs():
        judge_pair(ctx, table, kind, c, s, cred, alpn, dhb)
    dummy = _random.Random(0)
    for label, spec in P.psk_pairs(dummy, 0):
        judge_psk(ctx, table, label, spec)
    for label, spec in E.entry_pairs(dummy, 0):
        judge_entry(ctx, otable, label, spec)
    for label, spec in E.multipsk_pairs(dummy, 0):
        judge_multipsk(ctx, table, label, spec)


def pairs_random(ctx, budget):
    import itertools
    import random as _random
    from . import c19_pairs as P, c19_entry as E
    table = P.suite_table()
    otable = E.other_table()
    dummy = _random.Random(0)
    for _ in range(ctx.pick(1500, 22000)):
        if budget.spent("pairs:random"):
            break
        kind, c, s, cred, alpn = P.gen_pair(ctx.rng)
        judge_pair(ctx, table, kind, c, s, cred, alpn)
    k = _count(P.psk_pairs(dummy, 0))
    for label, spec in itertools.islice(P.psk_pairs(ctx.rng, ctx.pick(250, 5000)), k, None):
        if budget.spent("pairs:psk-random"):
            break
        judge_psk(ctx, table, label, spec)
    k = _count(E.entry_pairs(dummy, 0))
    for label, spec in itertools.islice(E.entry_pairs(ctx.rng, ctx.pick(150, 3000)), k, None):
        if budget.spent("pairs:entry-random"):
            break
        judge_entry(ctx, otable, label, spec)
    k = _count(E.multipsk_pairs(dummy, 0))
    for label, spec in itertools.islice(E.multipsk_pairs(ctx.rng, ctx.pick(150, 3000)), k, None):
        if budget.spent("pairs:multipsk-random"):
            break
        judge_multipsk(ctx, table, label, spec)


def run(ctx):
    from translate import gen_settings
    ctx.rule = ("settings = defaults with any subset of fields replaced: (a) every listed in-/out-of-domain value of every "
                "field alone, (b) interacting pairs (versions x MACs x version list x curves, key sizes, EMS, heartbeat, "
                "key shares), (c) random restrict/reorder of the list dimensions with consistent scalars (the quantifier "
                "proper), (d) random combinations of listed values over up to 10 fields; each under the real backend flags and "
                "under patched m2crypto/pycrypto/3DES availability, a subset under patched ML-KEM/ML-DSA/compression "
                "availability (module reloaded); distinct = distinct (spec, environment); non-trivial = differs from defaults. "
                "Second half: pairs of validated settings x server credential kind in the live lab — systematic pairs that agree in "
                "exactly one version / group (ffdhe-only, x25519-only, with the share sent at once, another share first, or none) / "
                "cipher / MAC / key exchange / signature scheme, EMS/EtM/record_size_limit/ALPN combinations, and random pairs with "
                "one-common / disjoint / random sub-lists per dimension; pairs sharing an external PSK (both hashes, psk_dhe_ke / psk_ke, "
                "decoy identities) and clients resuming a TLS 1.3 ticket, each with the share sent at once / no share / another share "
                "(HelloRetryRequest) over the group layouts; servers holding several PSKs of different hashes with clients offering subsets "
                "in different orders and cipherNames of one PRF hash (with / without a server certificate); SRP (verifierDB, with / "
                "without certificate) and anonymous (EC)DH entry points; minKeySize / maxKeySize exactly at, one below and one above "
                "the size of the RSA / DSA key, RFC 7919 group, server dhParams and SRP group; expectation = "
                "harness/props/c19_pairs.py:compatible, psk_expectation, c19_entry.py:entry_expectation, multipsk_expectation. Purity "
                "across use: every pair run watches the caller's settings objects and their validated copies; directed sequences run "
                "several different handshakes (anonymous, SRP, certificate with each key kind, post-handshake authentication) with ONE "
                "settings object and compare every step with fresh equal objects. Directed families run first and outside the budget; "
                "only random streams can be cut (cut-by-budget:<stream>)")
    ctx.assumptions = ["copy.deepcopy + structural comparison sees every change of the receiver (opaque key/cert objects by type only)",
                       "patching cryptomath.m2cryptoLoaded / pycryptoLoaded / cipherfactory.tripleDESPresent and reloading "
                       "handshakesettings with patched availability flags is what another installation would look like",
                       "documented domains are the literals in harness/props/c19.py and Tls.Settings.InDomain",
                       "pair expectation: the version is negotiated first (highest common), everything else for it; pairs that "
                       "are compatible only at a lower common version, DHE without a common RFC 7919 group, an ECDSA certificate "
                       "on a curve the client did not list, RSA key transport without any common signature scheme, and a TLS 1.3 client "
                       "whose own key-size limits exclude an ffdhe share it offers are run but not judged",
                       "SRP and anonymous entry points speak TLS 1.2 and earlier only, whatever the client's settings enable",
                       "key-size limits are inclusive (documentation: parameters smaller than minKeySize / larger than maxKeySize "
                       "are refused)",
                       "purity across use: Watch compares every attribute of the caller's settings object and of the validated copy "
                       "(identity of mutable containers + deep value) before and after each handshake and the data exchange; the "
                       "static counterpart (use_never_mutates_shared_lists) follows `settings`-named objects and local aliases only"]
    rn = Runner(ctx)
    envctl = rn.envctl
    try:
        ana = gen_settings.analyse(ctx.repo)
        rn.conds = ana["conds"]
        ctx.extra["alias_ops"] = {"n_ops": len(ana["ops"]), "conditions": ana["conds"],
                                  "unknown": [op[1][1] for op in ana["ops"] if op[1][0] == "unknown"],
                                  "translator_problems": ana["problems"] + ana["dproblems"],
                                  "unmodelled_fields": ana["unmodelled"]}
    except Exception as e:
        ctx.count("translator-analysis-failed:" + type(e).__name__)
    lc = ctx.lean()
    if lc is not None:
        ctx.extra["pureOps_generated"] = lc.ask("pure")
    budget = Budget(ctx, ctx.pick(125, 1100))
    combos = [(m2, py, td) for m2 in (False, True) for py in (False, True) for td in (False, True)]
    imp = [dict(mlKem=True, mlDsa=True, ecdsaAllCurves=True, brotliCompress=True, zstdCompress=True,
                brotliDecompress=True, zstdDecompress=True),
           dict(mlKem=False, mlDsa=False, ecdsaAllCurves=False, brotliCompress=False, zstdCompress=False,
                brotliDecompress=False, zstdDecompress=False)]
    if ctx.thorough():
        for _ in range(6):
            imp.append({k: ctx.rng.random() < 0.5 for k in imp[0]})

    def backend_envs(real):
        for (m2, py, td) in combos:
            env = dict(real, m2crypto=m2, pycrypto=py, tripleDES=td)
            if env != real:
                envctl.set_backends(m2, py, td)
                yield env, "env%d%d%d:" % (m2, py, td)
        envctl.set_backends(real["m2crypto"], real["pycrypto"], real["tripleDES"])

    def import_envs(real):
        for flags in imp:
            env = dict(real, **flags)
            if env == real:
                continue
            envctl.set_import_time(env)
            if envctl.read() != env:
                ctx.count("env-patch-failed")
                continue
            yield env, "imp%s:" % env_bits(env)[3:]
        envctl.restore()

    try:
        real = envctl.real
        # ================= directed families: always run, in this order, outside any budget =================
        static_checks(ctx, rn, real)
        # (a)+(b) every listed value of every field and the interacting pairs, real installation
        sweep(ctx, rn, real, "")
        # wrong types: observations only (purity still judged)
        for f, raws in sorted(WRONG_TYPES.items()):
            for r in raws:
                rn.case("wrongtype:%s=%s" % (f, r), {f: {"raw": r}}, real, modelled=False)
        rn.flush()
        C = module_consts()
        V = lattice_values(real, C)
        # backend availability patched (flags read at call time)
        for env, tag in backend_envs(real):
            rn.case(tag + "default", {}, env)
            for f in ("cipherImplementations", "cipherNames"):
                for v in V[f]:
                    rn.case(tag + "single:" + f, {f: copy.deepcopy(v)}, env)
            for ci in V["cipherImplementations"]:
                for cn in (["3des"], ["3des", "aes128"], ["aes128", "3des", "3des"], ["aes256gcm"]):
                    rn.case(tag + "pair:impl-cipher", {"cipherImplementations": copy.deepcopy(ci), "cipherNames": cn}, env)
            rn.flush()
        # import-time availability patched (module reloaded)
        for env, tag in import_envs(real):
            static_checks(ctx, rn, env)
            V2 = lattice_values(env, module_consts())
            rn.case(tag + "default", {}, env)
            for f in ("eccCurves", "keyShares", "defaultCurve", "more_sig_schemes", "certificate_compression_send",
                      "certificate_compression_receive"):
                for v in V2[f]:
                    rn.case(tag + "single:" + f, {f: copy.deepcopy(v)}, env)
            rn.flush()
        # second half of the property and purity across use: directed pairs / sequences in the live lab
        pairs_directed(ctx)
        # ================= random bulk: may be cut by the wall-clock budget (recorded) =================
        for _ in range(ctx.pick(1500, 20000)):
            if budget.spent("validate:restrict-reorder"):
                break
            rn.case("restrict-reorder", restrict_reorder_spec(ctx.rng, C), real)
        for _ in range(ctx.pick(2500, 40000)):
            if budget.spent("validate:random"):
                break
            rn.case("random", random_spec(ctx.rng, V), real)
        rn.flush()
        pairs_random(ctx, budget)
        for env, tag in backend_envs(real):
            for _ in range(ctx.pick(150, 3000)):
                if budget.spent("validate:env-random"):
                    break
                rn.case(tag + "restrict-reorder", restrict_reorder_spec(ctx.rng, C), env)
                rn.case(tag + "random", random_spec(ctx.rng, V), env)
            rn.flush()
        for env, tag in import_envs(real):
            C2 = module_consts()
            V2 = lattice_values(env, C2)
            for _ in range(ctx.pick(200, 3000)):
                if budget.spent("validate:import-env-random"):
                    break
                rn.case(tag + "restrict-reorder", restrict_reorder_spec(ctx.rng, C2), env)
                rn.case(tag + "random", random_spec(ctx.rng, V2), env)
            rn.flush()
    finally:
        rn.flush() if ctx.lean() is not None else None
        envctl.restore()
    ctx.extra["wrong_type_observations"] = rn.observations
    ctx.extra["result_lists_shared_with_receiver"] = sorted(rn.shared_seen)
    ctx.extra["informational"] = rn.info


def replay(ctx, rep):
    inp = rep["input"]
    if inp.get("stage") == "reuse-sequence":
        from . import c19_use as U
        seq = {k: v for k, v in inp.items() if k in ("kind", "client", "server", "steps", "share", "validated")}
        r = U.run_sequence(seq)
        print("sequence:", seq)
        for st in r.get("steps", []):
            print(" step", st["step"], st["entry"], "same as with fresh objects:", st["same"])
            if not st["same"]:
                print("   shared:", st["with_shared_objects"])
                print("   fresh: ", st["with_fresh_objects"])
        print("settings changed by use:", r.get("mutated"), " validate() result changed:", r.get("validate_changed"))
        return bool(r.get("mutated") or r.get("validate_changed") or any(not st["same"] for st in r.get("steps", [])))
    if inp.get("stage") in ("entry-pair", "multipsk-pair"):
        from . import c19_pairs as P, c19_entry as E
        spec = {k: v for k, v in inp.items() if k not in ("stage", "label", "observed", "broken_obligations",
                                                          "correspondence_disagreements")}
        if inp["stage"] == "entry-pair":
            r = E.run_entry_pair(spec)
            if r["outcome"] == "invalid":
                return False
            key, text, exp, why = entry_verdict(E.other_table(), spec, r)
        else:
            r = E.run_multipsk_pair(spec)
            if r["outcome"] == "invalid":
                return False
            key, text, exp, why = multipsk_verdict(P.suite_table(), spec, r)
        print("spec:", spec)
        print("observed:", {k: v for k, v in r.items() if k not in ("cset", "sset")})
        print("expected:", exp, "(%s)" % why, " verdict:", key, "-", text)
        return key is not None
    if inp.get("stage") == "psk-pair":
        from . import c19_pairs as P
        table = P.suite_table()
        spec = {k: v for k, v in inp.items() if k in ("kind", "client", "client2", "server", "cred", "psk", "client_decoys",
                                                      "shared_position", "server_decoys", "ticket_count")}
        r = P.run_psk_pair(spec)
        print("spec:", spec)
        print("observed:", {k: v for k, v in r.items() if k not in ("cset", "sset", "cset2")})
        if r["outcome"] == "invalid":
            return False
        bad, text = psk_verdict(table, spec, r)
        print("verdict:", bad, "-", text)
        return bad is not None
    if inp.get("stage") == "pair":
        from . import c19_pairs as P
        table = P.suite_table()
        alpn = inp.get("alpn")
        r = P.run_pair(inp["client"], inp["server"], inp["cred"], tuple(alpn) if alpn else None, inp.get("server_dh_bits"))
        if r["outcome"].startswith("invalid"):
            print("settings no longer validate:", r)
            return False
        exp, why, v = P.compatible(table, r["cset"], r["sset"], inp["cred"])
        print("client settings:", inp["client"])
        print("server settings:", inp["server"], " credentials:", inp["cred"], " alpn:", alpn)
        print("expected compatible:", exp, "(%s) at version %s" % (why, v))
        print("outcome:", r["outcome"], " client:", r.get("client_exc"), " server:", r.get("server_exc"),
              " negotiated:", r.get("version"), hex(r["suite"]) if r.get("suite") else None)
        if exp is True:
            both = P.enabled_suites(table, r["cset"], v) & P.enabled_suites(table, r["sset"], v)
            return r["outcome"] != "complete" or r["version"] != v or r["suite"] not in both
        if exp is False:
            return r["outcome"] != "fail"
        return False
    if inp.get("stage") != "validate" or "spec" not in inp:
        print("replay of stage %r: re-running the whole check" % inp.get("stage"))
        run(ctx)
        return bool(ctx.violations or ctx.disagreements)
    envctl = EnvCtl()
    env = inp.get("env") or envctl.real
    try:
        if any(env[k] != envctl.real[k] for k in ENV_FIELDS[3:]):
            envctl.set_import_time(env)
        envctl.set_backends(env["m2crypto"], env["pycrypto"], env["tripleDES"])
        obs = run_impl(inp["spec"])
        a = abstract(obs["s"])
        out = obs["out"]
        print("spec:", inp["spec"])
        print("outcome:", out[0], "" if out[0] == "ok" else out[1])
        print("receiver attributes changed by validate():", obs["mutated"])
        fails = bool(obs["mutated"])
        if out[0] == "ok":
            print("validate(validate(s)) differs in:", obs["idem"], " second call changed its receiver in:", obs["mutated2"])
            print("returned fields that are not a restriction of the receiver's:", obs["not_restriction"])
            fails = fails or bool(obs["idem"]) or bool(obs["mutated2"]) or bool(obs["not_restriction"])
            if a is not None:
                ood = out_of_domain(a, env)
                print("fields outside the documented domain:", ood)
                fails = fails or bool(ood)
            if env == envctl.real:
                bad = unsupported(out[1], env)
                print("not supported by this installation:", bad)
                fails = fails or bool(bad)
            else:
                r = out[1]
                bad = [i for i in r.cipherImplementations if (i == "openssl" and not env["m2crypto"]) or
                       (i == "pycrypto" and not env["pycrypto"])]
                if "3des" in r.cipherNames and not env["tripleDES"]:
                    bad.append("3des")
                print("kept although unavailable:", bad)
                fails = fails or bool(bad)
        elif out[0] == "exc" and a is not None:
            fails = True
        return fails
    finally:
        envctl.restore()
