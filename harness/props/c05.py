"""C05 — peer credentials are recorded only after proof of possession.

Theorems: lean/Props/C05.lean over lean/TlsModel/Auth.lean (every proof site mirrored from the code,
abstract signature scheme / hash / MAC).  Tie: (1) generated signature-scheme tables
(translate/gen_sigschemes.py), (2) correspondence of `_sigHashesToList`, of every verifying site and of
the handshake-level order with live endpoints in the lab whose PEER is a cooperating faulty endpoint
(harness/props/c05_sites.py), (3) direct oracle from the property text: a verifying endpoint that
completes and records a peer identity although the proof was corrupted / not offered / for another key
is a violation.  Helper modules: c05_peer (independent signer), c05_sites (live scenarios), c05_plan.
"""
import random

TRANSLATORS = ["sigschemes", "auth"]

MANIFEST = {
    "text": "Proof: Tls.Auth (Lean model of every place where tlslite-ng accepts a proof of possession: ServerKeyExchange "
            "signature, CertificateVerify of TLS<=1.2 and TLS 1.3 in both directions, post-handshake authentication, delegated "
            "credential, SRP premaster equations, PSK binder, Finished, Checker, and the position of the write to session.* "
            "relative to those checks) with theorems identity_implies_proof (a completed handshake that records a chain / SRP "
            "user / PSK implies verify(end-entity key, offered scheme, signedBytes(this transcript)) resp. the SRP/PSK equations), "
            "signed-bytes injectivity with named bad events (forgery / hash collision), not_offered_scheme_rejected, "
            "wrong_key_type_rejected, checker_mismatch_fails, pha_chain_after_finished, srp_agreement. Tie: generated scheme tables; "
            "the source's own structure regenerated from its AST on every run (translate/gen_auth.py -> Gen/AuthSrc.lean: ordered "
            "verification events dominating every identity-recording site, fate of every verify() result, Checker decision structure, "
            "checker-before-tickets) with kernel-decided gen_* theorems; "
            "correspondence of _sigHashesToList and of every site with live endpoints whose peer is a cooperating faulty endpoint "
            "(site x corruption class x key type x version); direct oracle from the property text on the same runs.",
    "note": "Trusted: Lean kernel, the harness, python-ecdsa/hashlib as used by the independent signer; unforgeability and collision "
            "resistance are named bad events, not proved. Certificate path validation is not a tlslite feature. SSLv3, ML-DSA, "
            "TACK and TLS<=1.2 session-ticket / session-ID resumption (C13) are not modelled here; TLS 1.3 tickets are modelled as PSK "
            "identities (pskSelectT / hsServer13T: the chain stored in a ticket is attributed only if that ticket was selected and its "
            "resumption binder verified).",
    "technique": "Lean 4 proofs over a code-mirroring model; differential correspondence with live faulty peers; property oracle",
}


# ------------------------------------------------------------------------------------------------
def _verifier_settings(case, S):
    site = case["site"]
    base = dict(case, ver=4) if site in ("pha", "dc") else case
    return S.mk_settings(base, True).validate()


def _norm(out):
    """canonical outcome: ok | alert:N | raise:TLS... | raise:py"""
    if out.startswith("raise:"):
        n = out.split(":", 1)[1]
        return out if n.startswith("TLS") else "raise:py"
    return out


def _violation(ctx, case, obs, kind, exp, seed):
    from . import c05_plan as PL
    name = PL.SITE_NAME[case["site"]]
    key = {"unoffered": "c05:%s-accepts-unoffered-sigscheme",
           "wrong-key-type": "c05:%s-accepts-scheme-wrong-for-key-type",
           "omitted": "c05:%s-accepts-missing-proof",
           "invalid-proof": "c05:%s-accepts-corrupted-proof"}[kind] % name
    what = ("%s completed the handshake and recorded the peer's certificate chain although the proof of possession was %s "
            "(site %s, case %s, label sent %s, offered on the wire %s)"
            % (name, kind, case["site"], {k: v for k, v in case.items() if k not in ("site",)},
               obs.get("sent_label"), "yes" if obs.get("sent_label") in (obs.get("offered") or []) else "no"))
    ctx.violation(key, what, {"stage": "oracle", "kind": "site", "case": case, "seed": seed,
                              "outcome": obs.get("outcome"), "identity": obs.get("identity"), "expected": list(exp)})


def run_site_case(ctx, case, seed, pending):
    """run one live case; register it; queue the model request; apply the oracle. Returns obs."""
    from .. import lab
    from . import c05_sites as S, c05_peer as P, c05_plan as PL
    rng = random.Random(seed)
    site = case["site"]
    shown = case.get("present") or case["cred"]
    shown_tok = P.cert_token(shown)
    shown_alg, shown_curve = shown_tok.split(":")[0], shown_tok.split(":")[1]
    if site == "pha":
        L, cap, results = S.run_pha(case, rng)
        obs = results[-1]
        if obs["outcome"] in ("setup-failed", "prover-failed") or len(results) < case.get("round", 1):
            ctx.count("not-exercised:" + site)
            return None
        obs["sent_sig"] = cap.sent_sig
        obs["orig_sig"] = cap.orig_sig
        prf, own, fam = cap.prf(), None, "rsa"
    else:
        replay_sig = None
        if case.get("msg") == "replay":
            L0, v0, p0, cap0 = S.run_handshake_site(dict(case, msg="this"), random.Random(seed + 7))
            replay_sig = cap0.orig_sig
            if replay_sig is None:
                ctx.count("not-exercised:" + site)
                return None
        L, v, p, cap = S.run_handshake_site(case, rng, replay_sig)
        obs = S.observe(L, v, p, cap, site)
        if not obs["touched"] or obs["outcome"].startswith("peer_alert") or \
                (obs["harness_error"] and case.get("salg") is not None):
            ctx.count("not-exercised:" + site)
            ctx.extra.setdefault("not_exercised_cases", []).append(
                {"case": case, "why": obs["harness_error"] or obs["outcome"], "prover": obs["prover"]})
            return None
        from tlslite.constants import CipherSuite
        fam = "ecdsa" if (cap.suite in CipherSuite.ecdheEcdsaSuites or cap.suite in CipherSuite.dheDsaSuites) else "rsa"
        prf = cap.prf()
        own = L.server.conn.serverSigAlg if site == "cv13s" else None
    exp = PL.expectation(case, obs, shown_alg, shown_curve)
    cls = case.get("cls") or case.get("form") or case.get("msg") or ("otherkey" if case.get("signer") == "other" else "honest")
    ctx.count("site:" + site)
    ctx.count("class:" + cls)
    ctx.count("keytype:" + shown_alg)
    ctx.count("version:3.%d" % case["ver"])
    ctx.count("outcome:" + _norm(obs["outcome"]))
    ctx.case(key=("site", repr(sorted(case.items(), key=str)), seed), nontrivial=exp[0] == "reject",
             sample={"case": case, "outcome": obs["outcome"], "identity": obs["identity"], "expected": exp}
             if ctx.evaluations % 211 == 0 else None)
    accepted = obs["completed"] and obs["identity"]
    if exp[0] == "reject" and accepted:
        _violation(ctx, case, obs, exp[1], exp, seed)
    if not obs["completed"]:
        # a rejected handshake must leave a dead, non-resumable connection and no usable identity
        if not obs.get("closed") or obs.get("resumable"):
            ctx.violation("c05:%s-rejected-but-connection-usable" % PL.SITE_NAME[site],
                          "proof rejected (%s) but the connection is not closed / session still resumable" % obs["outcome"],
                          {"stage": "oracle", "kind": "site", "case": case, "seed": seed})
        if obs["outcome"].startswith("raise:"):
            ctx.count("observation:rejected-without-alert:%s:%s" % (site, obs["outcome"].split(":", 1)[1]))
    if case.get("form") != "omit":
        vs = _verifier_settings(case, S)
        if site == "pha":
            from tlslite.handshakesettings import HandshakeSettings
            vs = HandshakeSettings()
        line = PL.model_line(case, obs, vs, shown_tok, fam, prf, own)
        impl = _norm("ok" if accepted else obs["outcome"])
        pending.append((dict(case, seed=seed), line, impl))
    return obs


def flush(ctx, pending, stream="site"):
    lc = ctx.lean()
    if lc is None or not pending:
        del pending[:]
        return
    outs = lc.batch([p[1] for p in pending])
    for (case, line, impl), mo in zip(pending, outs):
        m = _norm(mo.split(":nochain")[0])
        if m != impl:
            ctx.disagree(stream, {"case": case, "line": line}, mo, impl)
    ctx.compared(len(pending))
    del pending[:]


# ------------------------------------------------------------------------------------------------
def run_dc_case(ctx, case, seed, pending):
    from . import c05_sites as S, c05_peer as P, c05_plan as PL
    rng = random.Random(seed)
    try:
        L, cap, o = S.run_dc(case, rng)
    except TypeError:
        ctx.count("not-exercised:dc")
        return
    if not o["touched"] or o["outcome"].startswith("peer_alert"):
        ctx.count("not-exercised:dc")
        ctx.extra.setdefault("not_exercised_cases", []).append({"case": case, "why": o["outcome"], "prover": o["prover"]})
        return
    dc_sid = S.DC_SCHEMES[case["dckind"]]
    cert_sig = tuple(case["cert_sig"])
    tok = P.cert_token(case["cred"])
    alg, curve = tok.split(":")[0], tok.split(":")[1]
    good = (case.get("dcform", "ok") == "ok" and case.get("cvform", "ok") == "ok" and
            dc_sid in (cap.ch_dcalgs or []) and cert_sig in (cap.ch_sigalgs or []) and
            P.compatible(cert_sig, alg, curve, 4))
    accepted = o["completed"] and o["identity"]
    ctx.count("site:dc")
    ctx.count("class:dc-" + (case.get("cls") or case.get("dcform") or case.get("cvform") or "honest"))
    ctx.case(key=("dc", repr(sorted(case.items(), key=str)), seed), nontrivial=not good)
    if accepted and not good:
        ctx.violation("c05:tls13-client-dc-accepts-corrupted-proof",
                      "TLS 1.3 client completed and recorded the server chain / delegated credential although the "
                      "delegation or the CertificateVerify under the delegated key was corrupted or not offered: %s" % case,
                      {"stage": "oracle", "kind": "dc", "case": case, "seed": seed})
    if not o["completed"] and (not o["closed"] or o["resumable"]):
        ctx.violation("c05:tls13-client-dc-rejected-but-connection-usable", "rejected but open", {"kind": "dc", "case": case, "seed": seed})
    if o["outcome"].startswith("raise:"):
        ctx.count("observation:rejected-without-alert:dc:" + o["outcome"].split(":", 1)[1])
    # model request
    vs = S.mk_settings(dict(case, ver=4), True)
    vs.dc_sig_algs = [tuple(x) for x in case.get("offer_dc", [dc_sid])]
    dform = {"ok": "ok", "bitflip": "garbage", "short": "garbage", "empty": "empty", "otherkey": "ok"}.get(
        case.get("dcform", "ok"), "garbage")
    dsigner = "other" if case.get("dcform") == "otherkey" else "ee"
    cvf = case.get("cvform", "ok")
    sig = {"ok": "s:dckey:%d.%d:this" % dc_sid, "bitflip": "garbage", "empty": "empty", "short": "garbage",
           "certkey": "s:ee:%d.%d:this" % cert_sig, "otherkey": "s:other:%d.%d:this" % dc_sid}.get(cvf, "garbage")
    dcalg = S.DC_ALGS[case["dckind"]]
    line = " ".join(["site", "site:cv13c", "ver:4", "cert:" + tok, "set:" + PL.set_token(vs.validate()),
                     "ch:" + PL.ids(cap.ch_sigalgs or []), "label:%d.%d" % dc_sid, "sig:" + sig, "prf:" + cap.prf(),
                     "dc:%s:%s:%d.%d:%d.%d:%s:%d.%d:%s" % ((dcalg, S.DC_CURVES.get(case["dckind"], "-")) + dc_sid + cert_sig +
                                                          (dsigner,) + cert_sig + (dform,))])
    pending.append((dict(case, seed=seed), line, _norm("ok" if accepted else o["outcome"])))


# ------------------------------------------------------------------------------------------------
def stream_sighashes(ctx):
    """_sigHashesToList: model vs implementation over random settings / certificate kinds / versions"""
    from .. import lab
    from tlslite.tlsconnection import TLSConnection
    from tlslite.handshakesettings import HandshakeSettings
    from . import c05_plan as PL, c05_peer as P
    lc = ctx.lean()
    rng = ctx.rng
    kinds = [None, "rsa", "rsapss", "ecdsa", "ecdsa384", "ecdsa521", "brainpool256", "ed25519", "ed448", "dsa"]
    hashes = ["sha512", "sha384", "sha256", "sha224", "sha1"]
    more = ["Ed25519", "Ed448", "ecdsa_brainpoolP512r1tls13_sha512", "ecdsa_brainpoolP384r1tls13_sha384",
            "ecdsa_brainpoolP256r1tls13_sha256"]
    lines, impls, cases = [], [], []
    n = ctx.pick(400, 12000)
    for i in range(n):
        s = HandshakeSettings()
        if i % 5:
            s.rsaSigHashes = rng.sample(hashes, rng.randint(0, 5))
            s.ecdsaSigHashes = rng.sample(hashes, rng.randint(0, 5))
            s.dsaSigHashes = rng.sample(hashes, rng.randint(0, 5))
            s.rsaSchemes = rng.sample(["pss", "pkcs1"], rng.randint(0, 2))
            s.more_sig_schemes = rng.sample(more, rng.randint(0, 5))
        kind = kinds[i % len(kinds)] if i < 4 * len(kinds) else rng.choice(kinds)
        ver = (i // len(kinds)) % 4 + 1 if i < 4 * len(kinds) else rng.randint(1, 4)
        small = rng.random() < 0.3
        priv = P.key_of("client_rsa") if small else None
        chain = lab.creds(kind)[0] if kind else None
        try:
            impl = TLSConnection._sigHashesToList(s, priv, chain, (3, ver))
            impl = PL.ids([tuple(x) for x in impl])
        except Exception as e:
            impl = "raise:py"
        tok = "-" if kind is None else ":".join(P.cert_token(kind).split(":")[:2])
        lines.append("shl ver:%d small:%d cert:%s set:%s" % (ver, 1 if small else 0, tok, PL.set_token(s)))
        impls.append(impl)
        cases.append({"kind": kind, "ver": ver, "small": small, "set": PL.set_token(s)})
        ctx.case(key=("shl", lines[-1]), nontrivial=True)
    ctx.count("stream:sigHashesToList", n)
    if lc is None:
        return
    for case, line, impl, mo in zip(cases, lines, impls, lc.batch(lines)):
        if _norm(mo) != impl:
            ctx.disagree("sigHashesToList", case, mo, impl)
    ctx.compared(n)


# ------------------------------------------------------------------------------------------------
def run(ctx):
    from ..core import use_repo
    use_repo()
    from . import c05_plan as PL, c05_other as O
    thorough = ctx.thorough()
    ctx.rule = ("verifier completes AND records peer identity  =>  signature by the presented end-entity key over this "
                "transcript with a scheme that was on the wire in the verifier's offer and fits the key type (resp. SRP / PSK / "
                "Finished equations); Checker mismatch => call fails, connection closed")
    ctx.assumptions = ["signature unforgeability and hash collision resistance are named bad events in the theorems",
                       "python-ecdsa / hashlib are used by the independent signer of the faulty peer",
                       "SSLv3, ML-DSA, TACK, TLS<=1.2 ticket/session-ID resumption are outside this check"]
    stream_sighashes(ctx)
    pending = []
    cases = PL.plan_signature_cases(thorough)
    seeds = [ctx.seed * 1000 + 1] + ([ctx.seed * 1000 + i for i in range(2, 9)] if thorough else [])
    for sd in seeds:
        for case in cases:
            if sd != seeds[0] and case.get("form") not in ("bitflip",) and case.get("msg") != "replay":
                continue        # further seeds only change random bit positions
            run_site_case(ctx, dict(case), sd, pending)
        flush(ctx, pending)
    for case in PL.plan_dc_cases(thorough):
        run_dc_case(ctx, dict(case), seeds[0], pending)
    flush(ctx, pending, "dc")
    O.run_other(ctx)
    from . import c05_modes as M
    M.run_modes(ctx)
    ctx.extra["observations"] = {k.split(":", 1)[1]: v for k, v in ctx.dist.items() if k.startswith("observation:")}
    ctx.extra["not_exercised"] = {k.split(":", 1)[1]: v for k, v in ctx.dist.items() if k.startswith("not-exercised:")}


def replay(ctx, rep):
    """re-run one recorded case; True if the property still fails on it"""
    from ..core import use_repo
    use_repo()
    inp = rep.get("input", rep)
    kind = inp.get("kind")
    before = len(ctx.violations)
    if kind == "site":
        run_site_case(ctx, dict(inp["case"]), inp["seed"], [])
    elif kind == "dc":
        run_dc_case(ctx, dict(inp["case"]), inp["seed"], [])
    elif kind == "mode":
        from . import c05_modes as M
        M.mode_case(ctx, dict(inp["case"]), [])
    else:
        from . import c05_other as O
        O.replay_other(ctx, inp)
    return len(ctx.violations) > before
