"""C09 — symmetric primitives and key derivation compute the standardised functions.

Three voices per primitive:
  * the implementation in $VERIF_REPO (tlslite's pure-Python classes / functions),
  * the Lean model (transliteration of that code, proved equal to a Lean spec written from the
    standard: lean/Props/C09.lean) through the driver `drv_c09`,
  * an independent Python reference written here straight from the standard (refs below; only
    hashlib / hmac are used, tlslite is never imported by a reference).
model != implementation  -> correspondence disagreement (ctx.disagree)
implementation != reference -> the property fails on a concrete input (ctx.violation + replay)
"""
import hashlib
import hmac as pyhmac
import struct

from ..leanclient import hx

TRANSLATORS = ["gcm", "aes"]

MANIFEST = {
    "text": "Proof: for each pure-Python primitive a Lean transliteration of the code (Python-int arithmetic with the code's masks, "
            "its loops and the state carried between calls, exceptions as values) is proved equal to a Lean specification written from the "
            "standard, for every key, nonce, AAD, label and message of every length: ChaCha20 (RFC 8439 quarter round, inner block, block "
            "function, encrypt), Poly1305 (byte-wise clamp, polynomial mod 2^130-5, + s mod 2^128), ChaCha20-Poly1305 seal/open; CBC "
            "(Python_AES, Python_TripleDES wrapper) and CTR (Python_AES_CTR with _counter_update) over an abstract block permutation incl. "
            "multi-call streaming = one-shot and decrypt∘encrypt, RC4 with its (S,i,j) state; tlshmac.HMAC (RFC 2104), P_hash, PRF, PRF_1_2(_SHA384), "
            "PRF_SSL, SSLv3 digest, calc_key dispatch for every version x label x PRF hash, HKDF-Expand(-Label), Derive-Secret, HkdfLabel "
            "encoding and its injectivity, key-block slicing per role, TLS 1.3 traffic keys and KeyUpdate over an abstract hash; AES-GCM "
            "(_mul 4-bit table method = SP 800-38D bit-serial multiplication, product table, GENERATED reduction table, GHASH, tag, inc32) "
            "with seal/open = GCM-AE/AD; AES-CCM / CCM-8 (B_0 flags, AAD length forms, CBC-MAC, S_0, truncation, counter blocks) = RFC 3610; "
            "per AEAD open∘seal and 'open returns data iff the tag equals the recomputed tag'. "
            "Tie: constant table generated from the source on every run; hand-written models checked by correspondence against the real "
            "classes/functions on seeded inputs over all length classes, multi-call splits, guards and error paths; an independent "
            "straight-from-the-standard Python reference (hashlib/hmac only, own FIPS-197 AES) plus published vectors (RFC 8439, 6229, 2202, 4231, "
            "5869, 8448, FIPS-197, SP 800-38A/C/D) and the OpenSSL command line for 3DES as direct oracle on the implementation; AEAD open on every "
            "single-bit modification of short sealed messages. HISTORIES on one object run first: sequences of seal/open/encrypt/decrypt calls of "
            "very different sizes (0 .. 2^16, counter-carry boundaries 254/255/256 blocks, directly set counters) on the SAME AEAD / CTR / CBC / RC4 "
            "object, each result compared with the standard's value of that call alone, with a fresh object and with the Lean object model "
            "(gcm_history_independent: any call history on an AESGCM object returns per call the one-shot value); callers' buffers must be left "
            "unchanged and returned buffers are scribbled over between calls.",
    "note": "Trusted: Lean kernel (axioms propext, Classical.choice, Quot.sound), the correspondence harness, hashlib/hmac (MD5, SHA-1, SHA-2, "
            "HMAC of CPython/OpenSSL), the harness' own reference implementations (validated against the published vectors on every run), "
            "the OpenSSL CLI for 3DES-CBC. Block ciphers and hashes are PARAMETERS of the proved theorems (only output lengths and D(E b)=b are "
            "assumed); for the AES core (rijndael.py, block size 16) the GENERATED tables S, Si, T1..T8, U1..U4, rcon are proved to be the FIPS-197 "
            "S-box, its inverse (also as inverse-affine + inverse), the (Inv)MixColumns columns and x^i over the whole tables, and on top of them: "
            "the key-schedule loops of __init__ = KeyExpansion for 16/24/32-byte keys (incl. the Nk=8 extra SubWord and the truncated last pass), "
            "encrypt = Cipher(KeyExpansion key) (aes_encrypt_eq_spec), the decryption schedule Kd = the modified schedule of FIPS-197 5.3.5, "
            "decrypt = InvCipher via the equivalent inverse cipher (aes_decrypt_eq_spec; InvMixColumns linear, InvSubBytes/InvShiftRows commute), "
            "and decrypt(encrypt(b)) = b (aes_decrypt_encrypt), for every key and block. The AES Lean model is an executable transliteration tied "
            "to rijndael.py by correspondence (random blocks, FIPS-197 appendix C, an independent Python FIPS-197); block sizes 24/32 of rijndael.py "
            "are not modelled (tlslite only uses 16). Single DES is NOT modelled or proved: 3DES-CBC is tied against the OpenSSL CLI and two "
            "recorded OpenSSL vectors (growth choice: AES decryption was done instead of DES, whose FIPS 46-3 tables would have had to be copied "
            "rather than derived). "
            "Named excluded regions (hypotheses): ChaCha20 block counter above 2^32 (code neither wraps nor raises); CTR counter field reaching "
            "all-ones (code raises OverflowError one step early: proved); GCM more than 2^32-2 blocks (128-bit increment vs inc32); "
            "PRF_SSL beyond 416 bytes (code returns zeros); HKDF L > 255*HashLen raises (proved); CCM message >= 2^24 bytes. "
            "Timing side channels and the security of the primitives are not claimed.",
    "technique": "Lean 4 proofs model = specification for all inputs; differential correspondence model vs implementation; "
                 "independent straight-from-the-standard reference as direct oracle; published test vectors",
}


# ======================================================================================
# canonical outputs
# ======================================================================================
def canon(v):
    if v is None:
        return "none"
    if isinstance(v, (bytes, bytearray)):
        return hx(v)
    if isinstance(v, str):
        return v
    if isinstance(v, bool):
        return "true" if v else "false"
    if isinstance(v, (list, tuple)):
        return " ".join(canon(x) for x in v)
    return str(v)


def exc_name(e):
    n = type(e).__name__
    if isinstance(e, struct.error):
        return "struct.error"
    return n


def run_impl(f, *a):
    """call the implementation; an exception becomes 'raise:<Name>'"""
    try:
        return canon(f(*a))
    except Exception as e:  # noqa: the whole point is to classify what the code does
        return "raise:" + exc_name(e)


class Work(object):
    """collects (stream, case, lean line, implementation output); one lean batch per flush"""

    def __init__(self, ctx):
        self.ctx = ctx
        self.items = []

    def model(self, stream, case, line, impl_out):
        self.items.append((stream, case, line, impl_out))
        if len(self.items) >= 3000:
            self.flush()

    def flush(self):
        lc = self.ctx.lean()
        items, self.items = self.items, []
        if lc is None or not items:
            return
        outs = lc.batch([it[2] for it in items])
        for (stream, case, line, impl_out), m in zip(items, outs):
            self.ctx.compared()
            if m != impl_out:
                self.ctx.disagree(stream, dict(case, lean_line=line[:400]), m, impl_out)

    def oracle(self, key, stage, case, impl_out, ref_out, what=None):
        """direct oracle: the implementation against the independent reference"""
        if impl_out != ref_out:
            d = next((i for i, (a, b) in enumerate(zip(impl_out, ref_out)) if a != b), min(len(impl_out), len(ref_out)))
            lo = max(0, d - 16)
            self.ctx.violation(key, what or ("%s: implementation returned …%s (%d chars), the standard's value is …%s (%d chars), "
                                             "first difference at hex offset %d"
                                             % (stage, impl_out[lo:lo + 48], len(impl_out), ref_out[lo:lo + 48], len(ref_out), d)),
                               dict(case, stage=stage, impl=impl_out, ref=ref_out))


# ======================================================================================
# independent references (RFC 8439) — no tlslite code
# ======================================================================================
def _rotl(v, n):
    return ((v << n) | (v >> (32 - n))) & 0xffffffff


def ref_chacha_block(key, counter, nonce):
    st = [0x61707865, 0x3320646e, 0x79622d32, 0x6b206574] + list(struct.unpack("<8L", key)) + \
        [counter & 0xffffffff] + list(struct.unpack("<3L", nonce))
    w = list(st)

    def qr(a, b, c, d):
        w[a] = (w[a] + w[b]) & 0xffffffff; w[d] = _rotl(w[d] ^ w[a], 16)
        w[c] = (w[c] + w[d]) & 0xffffffff; w[b] = _rotl(w[b] ^ w[c], 12)
        w[a] = (w[a] + w[b]) & 0xffffffff; w[d] = _rotl(w[d] ^ w[a], 8)
        w[c] = (w[c] + w[d]) & 0xffffffff; w[b] = _rotl(w[b] ^ w[c], 7)
    for _ in range(10):
        qr(0, 4, 8, 12); qr(1, 5, 9, 13); qr(2, 6, 10, 14); qr(3, 7, 11, 15)
        qr(0, 5, 10, 15); qr(1, 6, 11, 12); qr(2, 7, 8, 13); qr(3, 4, 9, 14)
    return struct.pack("<16L", *[(x + y) & 0xffffffff for x, y in zip(st, w)])


def ref_chacha_encrypt(key, counter, nonce, pt):
    out = bytearray()
    for j in range((len(pt) + 63) // 64):
        ks = ref_chacha_block(key, counter + j, nonce)
        blk = pt[64 * j:64 * j + 64]
        out += bytes(a ^ b for a, b in zip(blk, ks))
    return bytes(out)


def ref_poly1305(key, msg):
    r = int.from_bytes(key[:16], "little") & 0x0ffffffc0ffffffc0ffffffc0fffffff
    s = int.from_bytes(key[16:32], "little")
    p = (1 << 130) - 5
    a = 0
    for i in range(0, len(msg), 16):
        n = int.from_bytes(msg[i:i + 16] + b"\x01", "little")
        a = ((a + n) * r) % p
    return ((a + s) & ((1 << 128) - 1)).to_bytes(16, "little")


def _pad16(x):
    return b"\x00" * ((16 - len(x) % 16) % 16)


def ref_aead_tag(key, nonce, aad, ct):
    otk = ref_chacha_block(key, 0, nonce)[:32]
    md = aad + _pad16(aad) + ct + _pad16(ct) + struct.pack("<Q", len(aad)) + struct.pack("<Q", len(ct))
    return ref_poly1305(otk, md)


def ref_aead_seal(key, nonce, pt, aad):
    ct = ref_chacha_encrypt(key, 1, nonce, pt)
    return ct + ref_aead_tag(key, nonce, aad, ct)


def ref_aead_open(key, nonce, c, aad):
    if len(c) < 16:
        return None
    ct, tag = c[:-16], c[-16:]
    if not pyhmac.compare_digest(tag, ref_aead_tag(key, nonce, aad, ct)):
        return None
    return ref_chacha_encrypt(key, 1, nonce, ct)


# ======================================================================================
# stages: one function per checked operation: case dict -> (impl_out, ref_out, lean_line or None)
# used by both run() and replay()
# ======================================================================================
STAGES = {}


def stage(name):
    def deco(f):
        STAGES[name] = f
        return f
    return deco


def B(h):
    return bytes.fromhex(h)


@stage("chacha20-encrypt")
def st_chacha(c):
    from tlslite.utils.chacha import ChaCha
    key, nonce, pt, ctr, rounds = B(c["key"]), B(c["nonce"]), B(c["pt"]), c["counter"], c.get("rounds", 20)
    impl = run_impl(lambda: ChaCha(bytearray(key), bytearray(nonce), ctr, rounds).encrypt(bytearray(pt)))
    ref = None
    if len(key) == 32 and len(nonce) == 12 and rounds == 20 and ctr + (len(pt) + 63) // 64 <= 2 ** 32:
        ref = canon(ref_chacha_encrypt(key, ctr, nonce, pt))
    elif len(key) != 32 or len(nonce) != 12:
        ref = "raise:ValueError"
    return impl, ref, "chacha %s %s %d %d %s" % (hx(key), hx(nonce), ctr, rounds, hx(pt))


@stage("chacha20-decrypt")
def st_chacha_dec(c):
    from tlslite.utils.chacha import ChaCha
    key, nonce, pt, ctr = B(c["key"]), B(c["nonce"]), B(c["pt"]), c["counter"]
    ct = ref_chacha_encrypt(key, ctr, nonce, pt)
    impl = run_impl(lambda: ChaCha(bytearray(key), bytearray(nonce), ctr).decrypt(bytearray(ct)))
    return impl, canon(pt), None


@stage("poly1305-tag")
def st_poly(c):
    from tlslite.utils.poly1305 import Poly1305
    key, msg = B(c["key"]), B(c["msg"])
    impl = run_impl(lambda: Poly1305(bytearray(key)).create_tag(bytearray(msg)))
    ref = canon(ref_poly1305(key, msg)) if len(key) == 32 else "raise:ValueError"
    return impl, ref, "poly %s %s" % (hx(key), hx(msg))


@stage("chachapoly-seal")
def st_aead_seal(c):
    from tlslite.utils.chacha20_poly1305 import CHACHA20_POLY1305
    key, nonce, pt, aad = B(c["key"]), B(c["nonce"]), B(c["pt"]), B(c["aad"])
    impl = run_impl(lambda: CHACHA20_POLY1305(bytearray(key), "python").seal(bytearray(nonce), bytearray(pt), bytearray(aad)))
    ref = canon(ref_aead_seal(key, nonce, pt, aad)) if (len(key) == 32 and len(nonce) == 12) else "raise:ValueError"
    return impl, ref, "aead_seal %s %s %s %s" % (hx(key), hx(nonce), hx(pt), hx(aad))


@stage("chachapoly-open")
def st_aead_open(c):
    from tlslite.utils.chacha20_poly1305 import CHACHA20_POLY1305
    key, nonce, ct, aad = B(c["key"]), B(c["nonce"]), B(c["ct"]), B(c["aad"])
    impl = run_impl(lambda: CHACHA20_POLY1305(bytearray(key), "python").open(bytearray(nonce), bytearray(ct), bytearray(aad)))
    ref = canon(ref_aead_open(key, nonce, ct, aad)) if (len(key) == 32 and len(nonce) == 12) else "raise:ValueError"
    return impl, ref, "aead_open %s %s %s %s" % (hx(key), hx(nonce), hx(ct), hx(aad))


def do(ctx, W, name, case, vkey=None, nontrivial=True):
    """evaluate one case of stage `name`: oracle + model correspondence + bookkeeping"""
    impl, ref, line = STAGES[name](case)
    ctx.count("stage:" + name)
    ctx.case(key=(name, tuple(sorted((k, str(v)) for k, v in case.items()))), nontrivial=nontrivial,
             sample=dict(case, stage=name, impl=impl[:64]) if ctx.evaluations % 1499 == 0 else None)
    if ref is not None:
        W.oracle(vkey or ("c09:" + name), name, case, impl, ref)
    if line is not None:
        W.model(name, dict(case, stage=name), line, impl)
    return impl


# ======================================================================================
# part 1: ChaCha20, Poly1305, ChaCha20-Poly1305
# ======================================================================================
LENS_Q = [0, 1, 15, 16, 17, 31, 32, 33, 63, 64, 65, 127, 128, 129, 191, 192, 193, 255, 256, 257, 300]


def rb(rng, n):
    return bytes(rng.getrandbits(8) for _ in range(n))


RFC8439_KEY = bytes(range(32))
SUNSCREEN = (b"Ladies and Gentlemen of the class of '99: If I could offer you only one tip for the future, "
             b"sunscreen would be it.")


def vectors_chacha(ctx, W):
    """RFC 8439 §2.3.2, §2.4.2, §2.5.2, §2.6.2, §2.8.2 and appendix A vectors against
    implementation, Lean model, Lean spec and the reference"""
    lc = ctx.lean()
    # §2.3.2 block function
    nonce = B("000000090000004a00000000")
    exp_block = B("10f1e7e4d13b5915500fdd1fa32071c4c7d1f4c733c068030422aa9ac3d46c4e"
                  "d2826446079faa0914c2d705d98b02a2b5129cd1de164eb9cbd083e8a2503c4e")
    # §2.4.2 encryption
    nonce2 = B("000000000000004a00000000")
    exp_ct = B("6e2e359a2568f98041ba0728dd0d6981e97e7aec1d4360c20a27afccfd9fae0bf91b65c5524733ab8f593dabcd62b357"
               "1639d624e65152ab8f530c359f0861d807ca0dbf500d6a6156a38e088a22b65e52bc514d16ccf806818ce91ab7793736"
               "5af90bbf74a35be6b40b8eedf2785e42874d")
    # §2.5.2 poly1305
    pkey = B("85d6be7857556d337f4452fe42d506a80103808afb0db2fd4abff6af4149f51b")
    pmsg = b"Cryptographic Forum Research Group"
    ptag = B("a8061dc1305136c6c22b8baf0c0127a9")
    # §2.8.2 AEAD
    akey = bytes(range(0x80, 0xa0))
    anonce = B("070000004041424344454647")
    aaad = B("50515253c0c1c2c3c4c5c6c7")
    asealed = B("d31a8d34648e60db7b86afbc53ef7ec2a4aded51296e08fea9e2b5a736ee62d63dbea45e8ca9671282fafb69da92728b"
                "1a71de0a9e060b2905d6a5b67ecd3b3692ddbd7f2d778b8c9803aee328091b58fab324e4fad675945585808b4831d7bc"
                "3ff4def08e4b7a9de576d26586cec64b61161ae10b594f09e26a7e902ecbd0600691")
    # appendix A.1 #1/#2 (zero key), A.3 #1 poly (zero key)
    a1 = B("76b8e0ada0f13d90405d6ae55386bd28bdd219b8a08ded1aa836efcc8b770dc7da41597c5157488d7724e03fb8d84a37"
           "6a43b8f41518a11cc387b669b2ee6586")
    vec = [
        ("rfc8439-2.3.2", "chacha20-encrypt", dict(key=RFC8439_KEY.hex(), nonce=nonce.hex(), counter=1, pt="00" * 64), exp_block),
        ("rfc8439-2.4.2", "chacha20-encrypt", dict(key=RFC8439_KEY.hex(), nonce=nonce2.hex(), counter=1, pt=SUNSCREEN.hex()), exp_ct),
        ("rfc8439-A.1#1", "chacha20-encrypt", dict(key="00" * 32, nonce="00" * 12, counter=0, pt="00" * 64), a1),
        ("rfc8439-2.5.2", "poly1305-tag", dict(key=pkey.hex(), msg=pmsg.hex()), ptag),
        ("rfc8439-A.3#1", "poly1305-tag", dict(key="00" * 32, msg="00" * 64), bytes(16)),
        ("rfc8439-2.8.2", "chachapoly-seal", dict(key=akey.hex(), nonce=anonce.hex(), pt=SUNSCREEN.hex(), aad=aaad.hex()), asealed),
        ("rfc8439-2.8.2-open", "chachapoly-open", dict(key=akey.hex(), nonce=anonce.hex(), ct=asealed.hex(), aad=aaad.hex()), SUNSCREEN),
    ]
    for label, name, case, expected in vec:
        impl, ref, line = STAGES[name](case)
        ctx.count("vector:" + label)
        ctx.case(key=("vec", label), sample=None)
        W.oracle("c09:" + name, name, dict(case, vector=label), impl, canon(expected),
                 what="%s: published vector %s not reproduced (got %s)" % (name, label, impl[:64]))
        if ref != canon(expected):
            raise AssertionError("harness reference wrong on " + label)
        W.model(name, dict(case, vector=label), line, canon(expected))
        # the Lean *spec* on the same vector
        spec_line = {"chacha20-encrypt": lambda: "chacha_spec %s %s %d %s" % (hx(B(case["key"])), hx(B(case["nonce"])), case["counter"], hx(B(case["pt"]))),
                     "poly1305-tag": lambda: "poly_spec %s %s" % (hx(B(case["key"])), hx(B(case["msg"]))),
                     "chachapoly-seal": lambda: "aead_seal_spec %s %s %s %s" % (hx(B(case["key"])), hx(B(case["nonce"])), hx(B(case["pt"])), hx(B(case["aad"]))),
                     "chachapoly-open": lambda: "aead_open_spec %s %s %s %s" % (hx(B(case["key"])), hx(B(case["nonce"])), hx(B(case["ct"])), hx(B(case["aad"])))}[name]()
        W.model("lean-spec:" + name, dict(case, vector=label), spec_line, canon(expected))
    # §2.6.2 poly key generation
    from tlslite.utils.chacha20_poly1305 import CHACHA20_POLY1305
    k = bytes(range(0x80, 0xa0))
    n = B("000000000001020304050607")
    exp = B("8ad5a08b905f81cc815040274ab29471a833b637e3fd0da508dbb8e2fdd1a646")
    got = run_impl(lambda: CHACHA20_POLY1305.poly1305_key_gen(bytearray(k), bytearray(n)))
    ctx.case(key=("vec", "rfc8439-2.6.2"), sample=None)
    W.oracle("c09:chachapoly-keygen", "chachapoly-keygen", dict(key=k.hex(), nonce=n.hex(), vector="rfc8439-2.6.2"), got, canon(exp))


def part_chacha(ctx, W):
    rng = ctx.rng
    thorough = ctx.thorough()
    vectors_chacha(ctx, W)
    lens = sorted(set(LENS_Q + (list(range(0, 200)) + [511, 512, 513, 1024, 4096, 16384 + 17] if thorough else [])))
    # --- ChaCha20 encrypt: every listed length, counters incl. the 32-bit edge, two keys per length
    for n in lens:
        for rep in range(3 if thorough else 2):
            key, nonce = rb(rng, 32), rb(rng, 12)
            nblk = (n + 63) // 64
            ctr = rng.choice([0, 1, 2, rng.getrandbits(31), 2 ** 32 - nblk, max(0, 2 ** 32 - nblk - 1), rng.getrandbits(32) % (2 ** 32 - nblk + 1)])
            case = dict(key=key.hex(), nonce=nonce.hex(), counter=ctr, pt=rb(rng, n).hex())
            ctx.count("chacha-len-class:%s" % ("0" if n == 0 else "partial" if n % 64 else "full"))
            do(ctx, W, "chacha20-encrypt", case)
            if rep == 0:
                do(ctx, W, "chacha20-decrypt", case)
    # other round counts and the region outside the standard (model correspondence only)
    for rounds in (8, 12, 20):
        for ctr in (2 ** 32 - 1, 2 ** 32, 2 ** 32 + 5, 2 ** 40 + 3):
            case = dict(key=rb(rng, 32).hex(), nonce=rb(rng, 12).hex(), counter=ctr, pt=rb(rng, 130).hex(), rounds=rounds)
            do(ctx, W, "chacha20-encrypt", case)
    # guards
    for kl, nl in ((31, 12), (33, 12), (32, 11), (32, 13), (0, 12), (16, 12), (32, 8), (32, 0)):
        do(ctx, W, "chacha20-encrypt", dict(key=rb(rng, kl).hex(), nonce=rb(rng, nl).hex(), counter=0, pt="0102"), nontrivial=False)
    # quarter round arithmetic on 32-bit edge values
    from tlslite.utils.chacha import ChaCha
    vals = [0, 1, 0x7fffffff, 0x80000000, 0xffffffff, 0xfffffffe, 0x0000ffff, 0xffff0000]
    for i in range(ctx.pick(60, 400)):
        a, b, c, d = [rng.choice(vals) if rng.random() < 0.4 else rng.getrandbits(32) for _ in range(4)]
        x = [a, b, c, d]
        ChaCha.quarter_round(x, 0, 1, 2, 3)
        ra, rbb, rc, rd = a, b, c, d
        ra = (ra + rbb) & 0xffffffff; rd = _rotl(rd ^ ra, 16); rc = (rc + rd) & 0xffffffff; rbb = _rotl(rbb ^ rc, 12)
        ra = (ra + rbb) & 0xffffffff; rd = _rotl(rd ^ ra, 8); rc = (rc + rd) & 0xffffffff; rbb = _rotl(rbb ^ rc, 7)
        case = dict(a=a, b=b, c=c, d=d)
        ctx.case(key=("qr", a, b, c, d), sample=None)
        W.oracle("c09:chacha20-quarter-round", "chacha20-quarter-round", case, canon(x), canon([ra, rbb, rc, rd]))
        W.model("chacha20-quarter-round", case, "chacha_qr %d %d %d %d" % (a, b, c, d), canon(x))
    # --- Poly1305
    edge_keys = [bytes(32), b"\xff" * 32, b"\xff" * 16 + bytes(16), bytes(16) + b"\xff" * 16,
                 B("02" + "00" * 15 + "ff" * 16), B("01" + "00" * 31)]
    for n in lens:
        for rep in range(2):
            key = rb(rng, 32) if rep == 0 or n > 80 else rng.choice(edge_keys)
            msg = rb(rng, n) if rng.random() < 0.8 else b"\xff" * n
            ctx.count("poly-len-class:%s" % ("0" if n == 0 else "partial" if n % 16 else "full"))
            do(ctx, W, "poly1305-tag", dict(key=key.hex(), msg=msg.hex()))
    # RFC 8439 A.3 style edge cases: r with all clamped bits set, messages of all 0xff / wrap of 2^130-5
    for key in edge_keys:
        for msg in (b"\xff" * 16, b"\xfb" + b"\xff" * 15, b"\xff" * 48, b"\xfa" + b"\xff" * 15 + b"\x03" + bytes(15), b""):
            do(ctx, W, "poly1305-tag", dict(key=key.hex(), msg=msg.hex()))
    for kl in (0, 16, 31, 33):
        do(ctx, W, "poly1305-tag", dict(key=rb(rng, kl).hex(), msg="00"), nontrivial=False)
    # two create_tag calls on one object (accumulator carried): model correspondence
    from tlslite.utils.poly1305 import Poly1305
    for _ in range(ctx.pick(10, 60)):
        key, m1, m2 = rb(rng, 32), rb(rng, rng.randrange(0, 40)), rb(rng, rng.randrange(0, 40))
        p = Poly1305(bytearray(key))
        p.create_tag(bytearray(m1))
        got = canon(p.create_tag(bytearray(m2)))
        ctx.case(key=("poly2", key, m1, m2), sample=None)
        W.model("poly1305-two-calls", dict(key=key.hex(), m1=m1.hex(), m2=m2.hex()),
                "poly2 %s %s %s" % (hx(key), hx(m1), hx(m2)), got)
    # --- AEAD seal / open
    alens = [0, 1, 15, 16, 17, 63, 64, 65, 128, 129, 200] + ([2, 31, 32, 33, 47, 48, 255, 256, 257, 1000, 16384] if thorough else [])
    aadlens = [0, 1, 5, 13, 15, 16, 17, 32, 40]
    for n in alens:
        for al in (aadlens if (thorough or n in (0, 1, 16, 65)) else [0, 13, 16]):
            key, nonce, pt, aad = rb(rng, 32), rb(rng, 12), rb(rng, n), rb(rng, al)
            case = dict(key=key.hex(), nonce=nonce.hex(), pt=pt.hex(), aad=aad.hex())
            sealed = do(ctx, W, "chachapoly-seal", case)
            good = ref_aead_seal(key, nonce, pt, aad)
            do(ctx, W, "chachapoly-open", dict(key=key.hex(), nonce=nonce.hex(), ct=good.hex(), aad=aad.hex()))
            ctx.count("aead-open:genuine")
    # refusal: every bit position of short sealed messages, nonce and AAD flips, truncation, extension
    for n, al in ((0, 0), (1, 3), (5, 13), (17, 16)) + (((64, 5), (70, 20)) if thorough else ()):
        key, nonce, pt, aad = rb(rng, 32), rb(rng, 12), rb(rng, n), rb(rng, al)
        good = ref_aead_seal(key, nonce, pt, aad)
        muts = []
        for pos in range(len(good)):
            for bit in (range(8) if (thorough or len(good) <= 21) else [rng.randrange(8)]):
                m = bytearray(good); m[pos] ^= 1 << bit
                muts.append(("ct-bit", bytes(m), nonce, aad))
        for pos in range(12):
            for bit in (range(8) if thorough else [rng.randrange(8)]):
                m = bytearray(nonce); m[pos] ^= 1 << bit
                muts.append(("nonce-bit", good, bytes(m), aad))
        for pos in range(len(aad)):
            m = bytearray(aad); m[pos] ^= 1 << rng.randrange(8)
            muts.append(("aad-bit", good, nonce, bytes(m)))
        muts.append(("aad-extended", good, nonce, aad + b"\x00"))
        if aad:
            muts.append(("aad-truncated", good, nonce, aad[:-1]))
        for cut in range(1, min(len(good), 20) + 1):
            muts.append(("truncated", good[:-cut], nonce, aad))
        muts.append(("extended", good + b"\x00", nonce, aad))
        muts.append(("tag-zero", good[:-16] + bytes(16), nonce, aad))
        for kind, c2, n2, a2 in muts:
            ctx.count("aead-open:" + kind)
            do(ctx, W, "chachapoly-open", dict(key=key.hex(), nonce=n2.hex(), ct=c2.hex(), aad=a2.hex(), mutation=kind),
               vkey="c09:chachapoly-open-accepts-modified")
    for kl, nl in ((31, 12), (32, 11), (32, 13), (16, 12)):
        do(ctx, W, "chachapoly-seal", dict(key=rb(rng, kl).hex(), nonce=rb(rng, nl).hex(), pt="00", aad=""), nontrivial=False)
        do(ctx, W, "chachapoly-open", dict(key=rb(rng, kl).hex(), nonce=rb(rng, nl).hex(), ct="00" * 20, aad=""), nontrivial=False)
    W.flush()


# ======================================================================================
# part 2: AES block, CBC / CTR with carried state, 3DES-CBC, RC4
# ======================================================================================
# ---- independent AES (FIPS-197), written from the standard
def _gmul(a, b):
    r = 0
    while b:
        if b & 1:
            r ^= a
        a <<= 1
        if a & 0x100:
            a ^= 0x11b
        b >>= 1
    return r


def _make_sbox():
    inv = [0] * 256
    for a in range(1, 256):
        for b in range(1, 256):
            if _gmul(a, b) == 1:
                inv[a] = b
                break
    sb = []
    for a in range(256):
        x = inv[a]
        y = x
        for sh in (1, 2, 3, 4):
            y ^= ((x << sh) | (x >> (8 - sh))) & 0xff
        sb.append(y ^ 0x63)
    return sb


_SBOX = _make_sbox()
_INV_SBOX = [0] * 256
for _i, _v in enumerate(_SBOX):
    _INV_SBOX[_v] = _i


def _aes_expand(key):
    nk = len(key) // 4
    nr = nk + 6
    w = [list(key[4 * i:4 * i + 4]) for i in range(nk)]
    rcon = 1
    for i in range(nk, 4 * (nr + 1)):
        t = list(w[i - 1])
        if i % nk == 0:
            t = t[1:] + t[:1]
            t = [_SBOX[x] for x in t]
            t[0] ^= rcon
            rcon = _gmul(rcon, 2)
        elif nk > 6 and i % nk == 4:
            t = [_SBOX[x] for x in t]
        w.append([a ^ b for a, b in zip(w[i - nk], t)])
    return [sum(w[4 * r:4 * r + 4], []) for r in range(nr + 1)], nr


def ref_aes_encrypt(key, block):
    rk, nr = _aes_expand(key)
    s = [a ^ b for a, b in zip(block, rk[0])]
    for r in range(1, nr + 1):
        s = [_SBOX[x] for x in s]
        s = [s[(i + 4 * (i % 4)) % 16] for i in range(16)]            # ShiftRows (column-major state)
        if r != nr:
            t = []
            for c in range(4):
                a = s[4 * c:4 * c + 4]
                t += [_gmul(a[0], 2) ^ _gmul(a[1], 3) ^ a[2] ^ a[3], a[0] ^ _gmul(a[1], 2) ^ _gmul(a[2], 3) ^ a[3],
                      a[0] ^ a[1] ^ _gmul(a[2], 2) ^ _gmul(a[3], 3), _gmul(a[0], 3) ^ a[1] ^ a[2] ^ _gmul(a[3], 2)]
            s = t
        s = [a ^ b for a, b in zip(s, rk[r])]
    return bytes(s)


def ref_aes_decrypt(key, block):
    rk, nr = _aes_expand(key)
    s = [a ^ b for a, b in zip(block, rk[nr])]
    for r in range(nr - 1, -1, -1):
        s = [s[(i - 4 * (i % 4)) % 16] for i in range(16)]            # InvShiftRows
        s = [_INV_SBOX[x] for x in s]
        s = [a ^ b for a, b in zip(s, rk[r])]
        if r != 0:
            t = []
            for c in range(4):
                a = s[4 * c:4 * c + 4]
                t += [_gmul(a[0], 14) ^ _gmul(a[1], 11) ^ _gmul(a[2], 13) ^ _gmul(a[3], 9),
                      _gmul(a[0], 9) ^ _gmul(a[1], 14) ^ _gmul(a[2], 11) ^ _gmul(a[3], 13),
                      _gmul(a[0], 13) ^ _gmul(a[1], 9) ^ _gmul(a[2], 14) ^ _gmul(a[3], 11),
                      _gmul(a[0], 11) ^ _gmul(a[1], 13) ^ _gmul(a[2], 9) ^ _gmul(a[3], 14)]
            s = t
    return bytes(s)


def xor(a, b):
    return bytes(x ^ y for x, y in zip(a, b))


def ref_cbc_encrypt(E, bs, iv, pt):
    """SP 800-38A 6.2"""
    out, prev = b"", iv
    for i in range(0, len(pt), bs):
        prev = E(xor(pt[i:i + bs], prev))
        out += prev
    return out


def ref_cbc_decrypt(D, bs, iv, ct):
    out, prev = b"", iv
    for i in range(0, len(ct), bs):
        out += xor(D(ct[i:i + bs]), prev)
        prev = ct[i:i + bs]
    return out


def ref_inc(m, block):
    """SP 800-38A B.1 standard incrementing function on the low m bits"""
    v = int.from_bytes(block, "big")
    lo = (v + 1) & ((1 << m) - 1) if m else 0
    return (((v >> m) << m) | lo).to_bytes(len(block), "big") if m else block


def ref_ctr(E, m, t1, pt):
    """SP 800-38A 6.5; returns (output, next counter block)"""
    out, t = b"", t1
    for i in range(0, len(pt), 16):
        out += xor(pt[i:i + 16], E(t))
        t = ref_inc(m, t)
    return out, t


def ref_rc4(key, n):
    S = list(range(256))
    j = 0
    for i in range(256):
        j = (j + S[i] + key[i % len(key)]) & 0xff
        S[i], S[j] = S[j], S[i]
    i = j = 0
    out = bytearray()
    for _ in range(n):
        i = (i + 1) & 0xff
        j = (j + S[i]) & 0xff
        S[i], S[j] = S[j], S[i]
        out.append(S[(S[i] + S[j]) & 0xff])
    return bytes(out)


class Rec(object):
    """records the (input, output) pairs of a block primitive of the implementation"""

    def __init__(self, f):
        self.f = f
        self.tab = {}

    def __call__(self, x):
        y = self.f(x)
        self.tab[bytes(x)] = bytes(y)
        return y

    def line(self):
        return ",".join("%s:%s" % (hx(k), hx(v)) for k, v in self.tab.items()) or "-"


def split_msgs(c):
    return [B(m) for m in c["msgs"]]


def take(out):
    """copy a call's result, then scribble over the returned buffer: a later call on the same object
    must not be affected (outputs must not alias internal state)"""
    if out is None:
        return None
    val = bytes(out)
    if isinstance(out, bytearray):
        for i in range(len(out)):
            out[i] ^= 0xa5
    return val


def seq_canon(state, outs):
    return " ".join([hx(state)] + [hx(o) for o in outs])


@stage("aes-block")
def st_aes_block(c):
    from tlslite.utils.rijndael import Rijndael
    key, blk = B(c["key"]), B(c["block"])
    line = "aes_model %s %s %s" % (hx(key), c["dir"], hx(blk))
    if len(key) not in (16, 24, 32) or len(blk) != 16:
        f = (lambda: Rijndael(bytearray(key), 16).encrypt(bytearray(blk))) if c["dir"] == "enc" else \
            (lambda: Rijndael(bytearray(key), 16).decrypt(bytearray(blk)))
        return run_impl(f), "raise:ValueError", line
    r = Rijndael(bytearray(key), 16)
    if c["dir"] == "enc":
        return run_impl(lambda: r.encrypt(bytearray(blk))), canon(ref_aes_encrypt(key, blk)), line
    return run_impl(lambda: r.decrypt(bytearray(blk))), canon(ref_aes_decrypt(key, blk)), line


@stage("aes-cbc")
def st_cbc(c):
    """one Python_AES object, a sequence of encrypt (or decrypt) calls; state = obj.IV"""
    from tlslite.utils import python_aes
    key, iv, msgs, dec = B(c["key"]), B(c["iv"]), split_msgs(c), c.get("dir") == "dec"
    rec = [None]

    def go():
        o = python_aes.new(bytearray(key), 2, bytearray(iv))
        rec[0] = Rec(o.rijndael.decrypt if dec else o.rijndael.encrypt)
        if dec:
            o.rijndael.decrypt = rec[0]
        else:
            o.rijndael.encrypt = rec[0]
        outs = [take((o.decrypt if dec else o.encrypt)(bytearray(m))) for m in msgs]
        return seq_canon(o.IV, outs)
    impl = run_impl(go)
    ref = None
    if len(key) in (16, 24, 32) and len(iv) == 16:
        if all(len(m) % 16 == 0 for m in msgs):
            whole = b"".join(msgs)
            if dec:
                out = ref_cbc_decrypt(lambda b: ref_aes_decrypt(key, b), 16, iv, whole)
                last = whole[-16:] if whole else iv
            else:
                out = ref_cbc_encrypt(lambda b: ref_aes_encrypt(key, b), 16, iv, whole)
                last = out[-16:] if out else iv
            outs, pos = [], 0
            for m in msgs:
                outs.append(out[pos:pos + len(m)])
                pos += len(m)
            ref = seq_canon(last, outs)
        else:
            ref = "raise:AssertionError"
    line = "%s %d %s %s %s" % ("cbc_dec_seq" if dec else "cbc_enc_seq", len(key), rec[0].line() if rec[0] else "-", hx(iv),
                               " ".join(hx(m) for m in msgs))
    return impl, ref, line


@stage("aes-ctr")
def st_ctr(c):
    """Python_AES_CTR(key, 6, nonce): a sequence of encrypt calls; state = obj.counter.
    With `counter` given the object is used the way AESGCM/AESCCM use it (counter assigned)."""
    from tlslite.utils import python_aes
    key, iv, msgs = B(c["key"]), B(c["iv"]), split_msgs(c)
    setctr = B(c["counter"]) if c.get("counter") else None
    rec = [None]

    def go():
        o = python_aes.new(bytearray(key), 6, bytearray(iv))
        rec[0] = Rec(o.rijndael.encrypt)
        o.rijndael.encrypt = rec[0]
        if setctr is not None:
            o.counter = bytearray(setctr)
        outs = [take(o.encrypt(bytearray(m))) for m in msgs]
        return seq_canon(o.counter, outs)
    impl = run_impl(go)
    cb = 16 - len(iv)
    ref = None
    if len(iv) <= 16:
        t = setctr if setctr is not None else iv + bytes(cb)
        m = 8 * cb if cb else 128
        if "inc_bits" in c:
            m = c["inc_bits"]
        nblk = sum((len(x) + 15) // 16 for x in msgs)
        low = int.from_bytes(t, "big") & ((1 << m) - 1)
        whole_blocks = all(len(x) % 16 == 0 for x in msgs[:-1])
        if whole_blocks and low + nblk < (1 << min(m, 8 * cb if cb else 128)) - 1:
            E = lambda b: ref_aes_encrypt(key, b)
            outs = []
            for x in msgs:
                o_, t = ref_ctr(E, m, t, x)
                outs.append(o_)
            ref = seq_canon(t, outs)
    tab = rec[0].line() if rec[0] else "-"
    if setctr is not None:
        line = "ctr_set_seq %s %s %d %s" % (tab, hx(setctr), cb, " ".join(hx(m) for m in msgs))
    else:
        line = "ctr_seq %d %s %s %s" % (len(key), tab, hx(iv), " ".join(hx(m) for m in msgs))
    return impl, ref, line


def _raw_des(keypart):
    """raw single-DES block functions of the implementation (Des with a zero IV)"""
    from tlslite.utils.python_tripledes import Des
    d = Des(bytearray(keypart), bytearray(8))
    return (lambda b: bytes(d.crypt(bytearray(b), Des.ENCRYPT)), lambda b: bytes(d.crypt(bytearray(b), Des.DECRYPT)))


def openssl_3des_cbc(key, iv, data, dec):
    import shutil
    import subprocess
    exe = shutil.which("openssl") or ("/root/miniconda/bin/openssl" if __import__("os").path.exists("/root/miniconda/bin/openssl") else None)
    if exe is None or not data:
        return None
    k = key if len(key) == 24 else key + key[:8]
    try:
        p = subprocess.run([exe, "enc", "-des-ede3-cbc", "-nopad", "-K", k.hex(), "-iv", iv.hex()] + (["-d"] if dec else []),
                           input=data, stdout=subprocess.PIPE, stderr=subprocess.PIPE, timeout=20)
    except Exception:
        return None
    if p.returncode != 0 or len(p.stdout) != len(data):
        return None
    return p.stdout


@stage("3des-cbc")
def st_tdes(c):
    from tlslite.utils import python_tripledes
    key, iv, msgs, dec = B(c["key"]), B(c["iv"]), split_msgs(c), c.get("dir") == "dec"

    def go():
        o = python_tripledes.new(bytearray(key), bytearray(iv))
        outs = [take((o.decrypt if dec else o.encrypt)(bytearray(m))) for m in msgs]
        return seq_canon(o._Python_TripleDES__key1.iv, outs)
    impl = run_impl(go)
    ref, line = None, None
    if len(key) in (16, 24) and len(iv) == 8 and all(len(m) % 8 == 0 for m in msgs):
        parts = [key[:8], key[8:16], key[16:] if len(key) == 24 else key[:8]]
        prims = [_raw_des(p) for p in parts]
        recs = [Rec(prims[0][0]), Rec(prims[0][1]), Rec(prims[1][0]), Rec(prims[1][1]), Rec(prims[2][0]), Rec(prims[2][1])]
        whole = b"".join(msgs)
        if dec:
            out = ref_cbc_decrypt(lambda b: recs[1](recs[2](recs[5](b))), 8, iv, whole)
            last = whole[-8:] if whole else iv
        else:
            out = ref_cbc_encrypt(lambda b: recs[4](recs[3](recs[0](b))), 8, iv, whole)
            last = out[-8:] if out else iv
        ossl = openssl_3des_cbc(key, iv, whole, dec) if c.get("openssl", True) else None
        if ossl is not None:
            outs, pos = [], 0
            for m in msgs:
                outs.append(ossl[pos:pos + len(m)])
                pos += len(m)
            ref = seq_canon((whole[-8:] if dec else ossl[-8:]) if whole else iv, outs)
        elif not whole:
            ref = seq_canon(iv, [b"" for _ in msgs])
        line = "%s %s %s %s" % ("tdes_dec_seq" if dec else "tdes_enc_seq", ";".join(r.line() for r in recs), hx(iv),
                                " ".join(hx(m) for m in msgs))
    return impl, ref, line


@stage("rc4")
def st_rc4(c):
    from tlslite.utils import python_rc4
    key, msgs = B(c["key"]), split_msgs(c)

    def go():
        o = python_rc4.new(bytearray(key))
        return " ".join(hx(take(o.encrypt(bytearray(m)))) for m in msgs) or "-"
    impl = run_impl(go)
    if 16 <= len(key) <= 256:
        ks = ref_rc4(key, sum(len(m) for m in msgs))
        outs, pos = [], 0
        for m in msgs:
            outs.append(xor(m, ks[pos:pos + len(m)]))
            pos += len(m)
        ref = " ".join(hx(o) for o in outs) or "-"
    else:
        ref = "raise:ValueError"
    return impl, ref, "rc4_seq %s %s" % (hx(key), " ".join(hx(m) for m in msgs))


def splits(rng, total, bs, k):
    """split `total` bytes into k messages at multiples of bs (bs = 1: anywhere)"""
    cuts = sorted(rng.randrange(0, total // bs + 1) * bs for _ in range(k - 1))
    pts = [0] + cuts + [total]
    return [pts[i + 1] - pts[i] for i in range(k)]


def vectors_modes(ctx, W):
    V = []
    # FIPS-197 appendix C
    pt = "00112233445566778899aabbccddeeff"
    for key, ct in ((bytes(range(16)), "69c4e0d86a7b0430d8cdb78070b4c55a"), (bytes(range(24)), "dda97ca4864cdfe06eaf70a0ec0d7191"),
                    (bytes(range(32)), "8ea2b7ca516745bfeafc49904b496089")):
        V.append(("fips197-C-%d" % (len(key) * 8), "aes-block", dict(key=key.hex(), block=pt, dir="enc"), ct))
        V.append(("fips197-C-%d-dec" % (len(key) * 8), "aes-block", dict(key=key.hex(), block=ct, dir="dec"), pt))
    k128 = "2b7e151628aed2a6abf7158809cf4f3c"
    nist_pt = ["6bc1bee22e409f96e93d7e117393172a", "ae2d8a571e03ac9c9eb76fac45af8e51", "30c81c46a35ce411e5fbc1191a0a52ef",
               "f69f2445df4f9b17ad2b417be66c3710"]
    cbc_ct = ["7649abac8119b246cee98e9b12e9197d", "5086cb9b507219ee95db113a917678b2", "73bed6b8e3c1743b7116e69e22229516",
              "3ff1caa1681fac09120eca307586e1a7"]
    ctr_ct = ["874d6191b620e3261bef6864990db6ce", "9806f66b7970fdff8617187bb9fffdff", "5ae4df3edbd5d35e5b4f09020db03eab",
              "1e031dda2fbe03d1792170a0f3009cee"]
    iv = "000102030405060708090a0b0c0d0e0f"
    V.append(("sp800-38a-F.2.1", "aes-cbc", dict(key=k128, iv=iv, msgs=["".join(nist_pt)]), "%s %s" % (cbc_ct[-1], "".join(cbc_ct))))
    V.append(("sp800-38a-F.2.1-4calls", "aes-cbc", dict(key=k128, iv=iv, msgs=nist_pt), "%s %s" % (cbc_ct[-1], " ".join(cbc_ct))))
    V.append(("sp800-38a-F.2.2", "aes-cbc", dict(key=k128, iv=iv, msgs=["".join(cbc_ct)], dir="dec"), "%s %s" % (cbc_ct[-1], "".join(nist_pt))))
    V.append(("sp800-38a-F.5.1", "aes-ctr", dict(key=k128, iv="", counter="f0f1f2f3f4f5f6f7f8f9fafbfcfdfeff", msgs=["".join(nist_pt)]),
              "f0f1f2f3f4f5f6f7f8f9fafbfcfdff03 " + "".join(ctr_ct)))
    # 3DES-CBC (3-key and 2-key), recorded from OpenSSL 3.5 `enc -des-ede3-cbc -nopad`; used even when the CLI is absent
    fox = b"The quick brown fox jump".hex()
    V.append(("openssl-3des-3key", "3des-cbc", dict(key="0123456789abcdef23456789abcdef01456789abcdef0123", iv="0001020304050607", msgs=[fox], openssl=False),
              "8782e8bec97fe03f 29b01b011b9ebb6f10308a42938279068782e8bec97fe03f"))
    V.append(("openssl-3des-2key", "3des-cbc", dict(key="0123456789abcdef23456789abcdef01", iv="0001020304050607", msgs=[fox], openssl=False),
              "1bbcb29ed950f3e5 007b2d1401557ec301cee03206ba3df31bbcb29ed950f3e5"))
    V.append(("rfc6229-128", "rc4", dict(key="0102030405060708090a0b0c0d0e0f10", msgs=["00" * 32]),
              "9ac7cc9a609d1ef7b2932899cde41b975248c4959014126a6e8a84f11d1a9e1c"))
    for label, name, case, expected in V:
        impl, ref, line = STAGES[name](case)
        ctx.count("vector:" + label)
        ctx.case(key=("vec", label), sample=None)
        W.oracle("c09:" + name, name, dict(case, vector=label), impl, expected,
                 what="%s: published vector %s not reproduced (got %s)" % (name, label, impl[:64]))
        if ref is not None and ref != expected:
            raise AssertionError("harness reference wrong on %s: %s" % (label, ref))
        if line is not None:
            W.model(name, dict(case, vector=label), line, expected)


def part_modes(ctx, W):
    rng = ctx.rng
    thorough = ctx.thorough()
    vectors_modes(ctx, W)
    # --- AES block against the independent FIPS-197 implementation
    for kl in (16, 24, 32):
        for _ in range(ctx.pick(12, 150)):
            key, blk = rb(rng, kl), rb(rng, 16)
            do(ctx, W, "aes-block", dict(key=key.hex(), block=blk.hex(), dir="enc"))
            do(ctx, W, "aes-block", dict(key=key.hex(), block=blk.hex(), dir="dec"))
        for key, blk in ((bytes(kl), bytes(16)), (b"\xff" * kl, b"\xff" * 16), (bytes(kl), b"\x80" + bytes(15))):
            do(ctx, W, "aes-block", dict(key=key.hex(), block=blk.hex(), dir="enc"))
            do(ctx, W, "aes-block", dict(key=key.hex(), block=blk.hex(), dir="dec"))
    for kl, bl in ((15, 16), (17, 16), (16, 15), (16, 17), (0, 16), (16, 0)):
        do(ctx, W, "aes-block", dict(key=rb(rng, kl).hex(), block=rb(rng, bl).hex(), dir=rng.choice(["enc", "dec"])), nontrivial=False)
    # the Lean FIPS-197 specification as a further voice on the same blocks
    for kl in (16, 24, 32):
        for _ in range(ctx.pick(6, 60)):
            key, blk = rb(rng, kl), rb(rng, 16)
            W.model("lean-spec:aes", dict(key=key.hex(), block=blk.hex(), dir="enc"), "aes_spec %s enc %s" % (hx(key), hx(blk)),
                    canon(ref_aes_encrypt(key, blk)))
            W.model("lean-spec:aes", dict(key=key.hex(), block=blk.hex(), dir="dec"), "aes_spec %s dec %s" % (hx(key), hx(blk)),
                    canon(ref_aes_decrypt(key, blk)))
    # --- CBC: lengths 0..several blocks, 1..4 calls on one object
    for kl in (16, 24, 32):
        for nblk in ([0, 1, 2, 3, 5, 8] + ([4, 6, 7, 16, 33] if thorough else [])):
            for ncalls in (1, 2, 3, 4):
                if ncalls > 1 and not thorough and kl == 24 and nblk not in (3, 8):
                    continue
                key, iv = rb(rng, kl), rb(rng, 16)
                data = rb(rng, 16 * nblk)
                lens = splits(rng, len(data), 16, ncalls)
                msgs, pos = [], 0
                for L in lens:
                    msgs.append(data[pos:pos + L].hex())
                    pos += L
                ctx.count("cbc-calls:%d" % ncalls)
                case = dict(key=key.hex(), iv=iv.hex(), msgs=msgs)
                do(ctx, W, "aes-cbc", case)
                ct = ref_cbc_encrypt(lambda b: ref_aes_encrypt(key, b), 16, iv, data)
                msgs2, pos = [], 0
                for L in lens:
                    msgs2.append(ct[pos:pos + L].hex())
                    pos += L
                do(ctx, W, "aes-cbc", dict(key=key.hex(), iv=iv.hex(), msgs=msgs2, dir="dec"))
    for bad in (1, 15, 17, 31):
        do(ctx, W, "aes-cbc", dict(key=rb(rng, 16).hex(), iv=rb(rng, 16).hex(), msgs=[rb(rng, bad).hex()]), nontrivial=False)
        do(ctx, W, "aes-cbc", dict(key=rb(rng, 16).hex(), iv=rb(rng, 16).hex(), msgs=[rb(rng, 16).hex(), rb(rng, bad).hex()], dir="dec"), nontrivial=False)
    for kl, il in ((15, 16), (16, 15), (16, 17), (33, 16)):
        do(ctx, W, "aes-cbc", dict(key=rb(rng, kl).hex(), iv=rb(rng, il).hex(), msgs=[rb(rng, 16).hex()]), nontrivial=False)
    # --- CTR: nonce lengths 0..16, partial last block, multi-call at block boundaries and elsewhere
    for il in ([0, 4, 8, 12, 15, 16] + ([1, 11, 13, 14] if thorough else [])):
        for total in ([0, 1, 15, 16, 17, 47, 48, 64, 100] + ([31, 32, 33, 255, 256, 257, 1000] if thorough else [])):
            for ncalls in (1, 2, 3):
                key, iv = rb(rng, rng.choice([16, 24, 32])), rb(rng, il)
                data = rb(rng, total)
                lens = splits(rng, total, 16 if rng.random() < 0.7 else 1, ncalls)
                msgs, pos = [], 0
                for L in lens:
                    msgs.append(data[pos:pos + L].hex())
                    pos += L
                ctx.count("ctr-noncelen:%d" % il)
                do(ctx, W, "aes-ctr", dict(key=key.hex(), iv=iv.hex(), msgs=msgs))
    # counter field edges: 1-byte counter field (254 usable blocks), the step where the code raises
    for nblk in (1, 100, 253, 254, 255, 256):
        key, iv = rb(rng, 16), rb(rng, 15)
        do(ctx, W, "aes-ctr", dict(key=key.hex(), iv=iv.hex(), msgs=[rb(rng, 16 * nblk - rng.choice([0, 5])).hex()]))
    for start, nblk in ((0xfffffffd, 1), (0xfffffffd, 2), (0xfffffffe, 1), (0xfffffff0, 20), (0xffff, 3), (0xfffffc, 5)):
        # objects as GCM/CCM use them: counter assigned, _counter_bytes = 0; low 32 bits near the wrap
        key = rb(rng, 16)
        ctr = rb(rng, 12) + start.to_bytes(4, "big")
        do(ctx, W, "aes-ctr", dict(key=key.hex(), iv="00" * 16, counter=ctr.hex(), msgs=[rb(rng, 16 * nblk - 3).hex()], inc_bits=32))
    do(ctx, W, "aes-ctr", dict(key=rb(rng, 16).hex(), iv="00" * 16, counter="ff" * 16, msgs=[rb(rng, 40).hex()]))
    do(ctx, W, "aes-ctr", dict(key=rb(rng, 16).hex(), iv=rb(rng, 17).hex(), msgs=["00"]), nontrivial=False)
    # --- 3DES-CBC (2-key and 3-key), multi-call, against the OpenSSL command line
    for kl in (24, 16):
        for nblk in ([0, 1, 2, 3, 7] + ([4, 5, 16, 40] if thorough else [])):
            for ncalls in (1, 2, 3):
                key, iv = rb(rng, kl), rb(rng, 8)
                data = rb(rng, 8 * nblk)
                lens = splits(rng, len(data), 8, ncalls)
                msgs, pos = [], 0
                for L in lens:
                    msgs.append(data[pos:pos + L].hex())
                    pos += L
                do(ctx, W, "3des-cbc", dict(key=key.hex(), iv=iv.hex(), msgs=msgs))
                do(ctx, W, "3des-cbc", dict(key=key.hex(), iv=iv.hex(), msgs=msgs, dir="dec"))
    for bad in (1, 7, 9):
        do(ctx, W, "3des-cbc", dict(key=rb(rng, 24).hex(), iv=rb(rng, 8).hex(), msgs=[rb(rng, bad).hex()]), nontrivial=False)
    # --- RC4: key lengths 16..256, multi-call splits anywhere
    for kl in ([16, 17, 32, 255, 256] + ([20, 64, 128] if thorough else [])):
        for total in ([0, 1, 2, 255, 256, 257, 600] + ([3, 100, 1000, 5000] if thorough else [])):
            key = rb(rng, kl)
            data = rb(rng, total)
            for ncalls in (1, 2, 4):
                lens = splits(rng, total, 1, ncalls)
                msgs, pos = [], 0
                for L in lens:
                    msgs.append(data[pos:pos + L].hex())
                    pos += L
                do(ctx, W, "rc4", dict(key=key.hex(), msgs=msgs))
    for kl in (0, 1, 15, 257):
        do(ctx, W, "rc4", dict(key=rb(rng, kl).hex(), msgs=["00"]), nontrivial=False)
    # --- the Lean specifications on the same inputs as the references (third voice agreement)
    for _ in range(ctx.pick(6, 40)):
        key, iv, data = rb(rng, 16), rb(rng, 16), rb(rng, 16 * rng.randrange(0, 6))
        rec = Rec(lambda b: ref_aes_encrypt(key, b))
        ct = ref_cbc_encrypt(rec, 16, iv, data)
        W.model("lean-spec:cbc", dict(key=key.hex(), iv=iv.hex(), data=data.hex()),
                "cbc_spec 16 %s %s %s" % (rec.line(), hx(iv), hx(data)), hx(ct))
        rec = Rec(lambda b: ref_aes_encrypt(key, b))
        t1, m = rb(rng, 16), rng.choice([8, 24, 32, 64, 128])
        data = rb(rng, rng.randrange(0, 80))
        out, _t = ref_ctr(rec, m, t1, data)
        W.model("lean-spec:ctr", dict(key=key.hex(), t1=t1.hex(), m=m, data=data.hex()),
                "ctr_spec %d %s %s %s" % (m, rec.line(), hx(t1), hx(data)), hx(out))
        k2, d2 = rb(rng, rng.randrange(16, 40)), rb(rng, rng.randrange(0, 300))
        W.model("lean-spec:rc4", dict(key=k2.hex(), data=d2.hex()), "rc4_spec %s %s" % (hx(k2), hx(d2)),
                hx(xor(d2, ref_rc4(k2, len(d2)))))
        ctx.compared(0)
    W.flush()


# ======================================================================================
# part 3: HMAC, PRFs, calc_key, HKDF, key schedule
# ======================================================================================
class RecHash(object):
    """hashlib hash as a function of the whole input, recording every (input, digest) pair"""

    def __init__(self, name):
        self.name = name
        h = hashlib.new(name)
        self.bs, self.ds = h.block_size, h.digest_size
        self.tab = {}

    def __call__(self, x):
        x = bytes(x)
        d = hashlib.new(self.name, x).digest()
        self.tab[x] = d
        return d

    def line(self):
        return ",".join("%s:%s" % (hx(k), hx(v)) for k, v in self.tab.items()) or "-"

    def args(self):
        return "%d %d %s" % (self.bs, self.ds, self.line())


def ref_hmac(H, key, msg):
    """RFC 2104"""
    k = H(key) if len(key) > H.bs else key
    k0 = k + bytes(H.bs - len(k))
    out = H(bytes(a ^ 0x5c for a in k0) + H(bytes(a ^ 0x36 for a in k0) + msg))
    if out != pyhmac.new(key, msg, H.name).digest():
        raise AssertionError("harness HMAC reference disagrees with the interpreter's hmac")
    return out


def ref_p_hash(H, secret, seed, n):
    """RFC 5246 section 5"""
    out, a = b"", seed
    while len(out) < n:
        a = ref_hmac(H, secret, a)
        out += ref_hmac(H, secret, a + seed)
    return out[:n]


def ref_prf10(H5, H1, secret, label, seed, n):
    """RFC 2246 section 5"""
    half = (len(secret) + 1) // 2
    s1, s2 = secret[:half], secret[len(secret) - half:]
    return xor(ref_p_hash(H5, s1, label + seed, n), ref_p_hash(H1, s2, label + seed, n))


def ref_prfssl(H5, H1, secret, seed, n):
    """RFC 6101 section 6.2.2"""
    out = b""
    i = 0
    while len(out) < n:
        out += H5(secret + H1(bytes([65 + i]) * (i + 1) + secret + seed))
        i += 1
        if i > 26:
            raise AssertionError("PRF_SSL defined for 26 rounds only")
    return out[:n]


def ref_ssl_finished(H5, H1, transcript, ms, sender):
    """RFC 6101 section 5.6.9"""
    return H5(ms + b"\x5c" * 48 + H5(transcript + sender + ms + b"\x36" * 48)) + \
        H1(ms + b"\x5c" * 40 + H1(transcript + sender + ms + b"\x36" * 40))


def ref_calc_key(Hs, ver, label, secret, transcript, cr, sr, n, sha384):
    """what RFC 6101 / 2246 / 4346 / 5246 / 7627 derive for each label"""
    H5, H1, H256, H384 = Hs
    if ver == (3, 0):
        if label == b"client finished":
            return ref_ssl_finished(H5, H1, transcript, secret, b"CLNT")
        if label == b"server finished":
            return ref_ssl_finished(H5, H1, transcript, secret, b"SRVR")
        if label == b"master secret":
            return ref_prfssl(H5, H1, secret, cr + sr, n)
        if label == b"key expansion":
            return ref_prfssl(H5, H1, secret, sr + cr, n)
        return None
    if label == b"master secret":
        seed = cr + sr
    elif label == b"key expansion":
        seed = sr + cr
    elif ver in ((3, 1), (3, 2)):
        seed = H5(transcript) + H1(transcript)
    else:
        seed = (H384 if sha384 else H256)(transcript)
    if ver in ((3, 1), (3, 2)):
        return ref_prf10(H5, H1, secret, label, seed, n)
    return ref_p_hash(H384 if sha384 else H256, secret, label + seed, n)


def ref_hkdf_expand(H, prk, info, L):
    """RFC 5869 section 2.3"""
    if L > 255 * H.ds:
        return None
    t, okm, i = b"", b"", 0
    while len(okm) < L:
        i += 1
        t = ref_hmac(H, prk, t + info + bytes([i]))
        okm += t
    return okm[:L]


def ref_hkdf_label(length, label, ctx):
    """RFC 8446 section 7.1"""
    full = b"tls13 " + label
    return struct.pack(">H", length) + bytes([len(full)]) + full + bytes([len(ctx)]) + ctx


def ref_hkdf_expand_label(H, secret, label, ctx, length):
    if length > 0xffff or len(label) + 6 > 255 or len(ctx) > 255:
        return None
    return ref_hkdf_expand(H, secret, ref_hkdf_label(length, label, ctx), length)


_FALLBACK = {}


def fallback_hmac_class():
    """tlshmac.HMAC as it is defined when the interpreter's hmac cannot do MD5 (FIPS mode): the
    module is executed once more with a hmac module that refuses"""
    import importlib.util
    import os
    import sys
    import types
    from .. import core
    if core.REPO in _FALLBACK:
        return _FALLBACK[core.REPO]
    import tlslite.utils  # noqa
    fake = types.ModuleType("hmac")

    def _refuse(*a, **k):
        raise ValueError("disabled (FIPS emulation for the check)")
    fake.HMAC = _refuse
    fake.new = _refuse
    fake.compare_digest = pyhmac.compare_digest
    saved = sys.modules.get("hmac")
    sys.modules["hmac"] = fake
    try:
        spec = importlib.util.spec_from_file_location("tlslite.utils._c09_tlshmac_fallback",
                                                      os.path.join(core.REPO, "tlslite", "utils", "tlshmac.py"))
        mod = importlib.util.module_from_spec(spec)
        spec.loader.exec_module(mod)
    finally:
        sys.modules["hmac"] = saved
    _FALLBACK[core.REPO] = mod.HMAC
    return mod.HMAC


def opt(v):
    return "None" if v is None else hx(B(v))


@stage("hmac-object")
def st_hmac(c):
    """tlshmac.HMAC (fallback class and the one mathtls uses): new, update..., copy, digest"""
    key, msgs, hname = B(c["key"]), split_msgs(c), c["hash"]
    cls = fallback_hmac_class() if c.get("fallback", True) else __import__("tlslite.utils.tlshmac", fromlist=["HMAC"]).HMAC

    def go():
        o = cls(key, digestmod=hname)
        for m in msgs:
            o = o.copy()
            o.update(m)
        return bytes(o.digest())
    H = RecHash(hname)
    ref = canon(ref_hmac(H, key, b"".join(msgs)))
    return run_impl(go), ref, "hmac %s %s %s" % (H.args(), hx(key), " ".join(hx(m) for m in msgs))


@stage("p_hash")
def st_phash(c):
    from tlslite import mathtls
    secret, seed, n, hname = B(c["secret"]), B(c["seed"]), c["length"], c["hash"]
    H = RecHash(hname)
    ref = canon(ref_p_hash(H, secret, seed, n))
    return run_impl(lambda: mathtls.P_hash(hname, bytearray(secret), bytearray(seed), n)), ref, \
        "phash %s %s %s %d" % (H.args(), hx(secret), hx(seed), n)


@stage("prf")
def st_prf(c):
    from tlslite import mathtls
    secret, label, seed, n, kind = B(c["secret"]), B(c["label"]), B(c["seed"]), c["length"], c["kind"]
    if kind == "tls10":
        H5, H1 = RecHash("md5"), RecHash("sha1")
        ref = canon(ref_prf10(H5, H1, secret, label, seed, n))
        return run_impl(lambda: mathtls.PRF(bytearray(secret), bytearray(label), bytearray(seed), n)), ref, \
            "prf %s %s %s %s %s %d" % (H5.line(), H1.line(), hx(secret), hx(label), hx(seed), n)
    if kind == "ssl":
        H5, H1 = RecHash("md5"), RecHash("sha1")
        ref = canon(ref_prfssl(H5, H1, secret, seed, n)) if n <= 416 else None
        if ref is None:
            # outside the construction's 26 rounds: model correspondence only; give the model the table
            ref_prfssl(H5, H1, secret, seed, 416)
        return run_impl(lambda: mathtls.PRF_SSL(bytearray(secret), bytearray(seed), n)), ref, \
            "prfssl %s %s %s %s %d" % (H5.line(), H1.line(), hx(secret), hx(seed), n)
    H = RecHash("sha256" if kind == "sha256" else "sha384")
    f = mathtls.PRF_1_2 if kind == "sha256" else mathtls.PRF_1_2_SHA384
    ref = canon(ref_p_hash(H, secret, label + seed, n))
    return run_impl(lambda: f(bytearray(secret), bytearray(label), bytearray(seed), n)), ref, \
        "prf12 %s %s %s %s %d" % (H.args(), hx(secret), hx(label), hx(seed), n)


SUITE_SHA256_PRF = 0x002F     # TLS_RSA_WITH_AES_128_CBC_SHA
SUITE_SHA384_PRF = 0x009D     # TLS_RSA_WITH_AES_256_GCM_SHA384


@stage("calc_key")
def st_calc_key(c):
    from tlslite import mathtls
    from tlslite.handshakehashes import HandshakeHashes
    from tlslite.constants import CipherSuite
    ver, secret, label, suite = tuple(c["version"]), B(c["secret"]), B(c["label"]), c["suite"]
    tr = None if c.get("transcript") is None else B(c["transcript"])
    cr = None if c.get("cr") is None else B(c["cr"])
    sr = None if c.get("sr") is None else B(c["sr"])
    n = c.get("length")
    sha384 = suite in CipherSuite.sha384PrfSuites

    def go():
        hh = None
        if tr is not None:
            hh = HandshakeHashes()
            hh.update(bytearray(tr))
        return mathtls.calc_key(ver, bytearray(secret), suite, bytes(label), handshake_hashes=hh,
                                client_random=None if cr is None else bytearray(cr),
                                server_random=None if sr is None else bytearray(sr), output_length=n)
    Hs = (RecHash("md5"), RecHash("sha1"), RecHash("sha256"), RecHash("sha384"))
    ref = None
    labels = (b"master secret", b"key expansion", b"client finished", b"server finished", b"extended master secret")
    needs_tr = label in (b"client finished", b"server finished", b"extended master secret")
    needs_n = not (ver == (3, 0) and label in (b"client finished", b"server finished"))
    complete = (tr is not None if needs_tr else (cr is not None and sr is not None)) and (n is not None or not needs_n)
    if complete and ver in ((3, 0), (3, 1), (3, 2), (3, 3)) and label in labels and (ver != (3, 0) or not needs_n or n <= 416):
        r = ref_calc_key(Hs, ver, label, secret, tr or b"", cr or b"", sr or b"", n or 0, sha384)
        ref = canon(r) if r is not None else "raise:AssertionError"
    elif complete and ver == (3, 0) and label in labels[:2]:
        ref_prfssl(Hs[0], Hs[1], secret, (cr + sr) if label == b"master secret" else (sr + cr), 416)
    line = "calckey %s %s %s %s %d %d %s %d %s %s %s %s %s" % (
        Hs[0].line(), Hs[1].line(), Hs[2].line(), Hs[3].line(), ver[0], ver[1], hx(secret), 1 if sha384 else 0, hx(label),
        opt(c.get("transcript")), opt(c.get("cr")), opt(c.get("sr")), "None" if n is None else str(n))
    return run_impl(go), ref, line


@stage("exporter")
def st_exporter(c):
    """TLSConnection.keyingMaterialExporter on a connection object carrying the negotiated values"""
    from tlslite.tlsconnection import TLSConnection
    from tlslite.session import Session
    from tlslite.constants import CipherSuite
    ver, suite, label, n = tuple(c["version"]), c["suite"], B(c["label"]), c["length"]
    ms, cr, sr, ems = B(c["ms"]), B(c["cr"]), B(c["sr"]), B(c["ems"])

    def go():
        conn = TLSConnection(None)
        conn.version = ver
        conn._clientRandom = bytearray(cr)
        conn._serverRandom = bytearray(sr)
        conn.session = Session()
        conn.session.masterSecret = bytearray(ms)
        conn.session.cipherSuite = suite
        conn.session.exporterMasterSecret = bytearray(ems)
        return conn.keyingMaterialExporter(bytearray(label), n)
    sha384 = suite in CipherSuite.sha384PrfSuites
    Hs = (RecHash("md5"), RecHash("sha1"), RecHash("sha256"), RecHash("sha384"))
    ref = None
    if label in (b"server finished", b"client finished", b"master secret", b"key expansion") or ver < (3, 1):
        ref = "raise:ValueError"
    elif ver in ((3, 1), (3, 2)):
        ref = canon(ref_prf10(Hs[0], Hs[1], ms, label, cr + sr, n))                     # RFC 5705 section 4
    elif ver == (3, 3):
        ref = canon(ref_p_hash(Hs[3] if sha384 else Hs[2], ms, label + cr + sr, n))
    elif ver == (3, 4):
        H = Hs[3] if sha384 else Hs[2]                                                    # RFC 8446 section 7.5
        sec = ref_hkdf_expand_label(H, ems, label, H(b""), H.ds)
        r = ref_hkdf_expand_label(H, sec, b"exporter", H(b""), n) if sec is not None else None
        if r is None and sec is not None and n <= 0xffff:
            ref_hkdf_expand(H, sec, ref_hkdf_label(n, b"exporter", H(b"")), 255 * H.ds)
        ref = canon(r) if r is not None else "raise:ValueError"
    line = "exporter %s %s %s %s %d %d %d %s %s %s %s %s %d" % (
        Hs[0].line(), Hs[1].line(), Hs[2].line(), Hs[3].line(), ver[0], ver[1], 1 if sha384 else 0, hx(ms), hx(cr), hx(sr), hx(ems),
        hx(label), n)
    return run_impl(go), ref, line


@stage("ssl3-digest")
def st_digestssl(c):
    from tlslite.handshakehashes import HandshakeHashes
    tr, ms, label = B(c["transcript"]), B(c["ms"]), B(c["label"])

    def go():
        hh = HandshakeHashes()
        for i in range(0, len(tr), 37):
            hh.update(bytearray(tr[i:i + 37]))
        return hh.digestSSL(bytearray(ms), bytearray(label))
    H5, H1 = RecHash("md5"), RecHash("sha1")
    ref = canon(ref_ssl_finished(H5, H1, tr, ms, label))
    return run_impl(go), ref, "digestssl %s %s %s %s %s" % (H5.line(), H1.line(), hx(tr), hx(ms), hx(label))


@stage("mac_ssl")
def st_macssl(c):
    from tlslite import mathtls
    key, msgs, hname = B(c["key"]), split_msgs(c), c["hash"]

    def go():
        from tlslite.utils import tlshashlib       # the digestmod objects the record layer itself passes
        m = mathtls.createMAC_SSL(key, digestmod=getattr(tlshashlib, hname))
        for x in msgs:
            m = m.copy()
            m.update(x)
        return m.digest()
    H = RecHash(hname)
    npad = 48 if hname == "md5" else 40
    msg = b"".join(msgs)
    ref = canon(H(key + b"\x5c" * npad + H(key + b"\x36" * npad + msg)))       # RFC 6101 5.2.3.1
    return run_impl(go), ref, "macssl %s %d %s %s" % (H.args(), 1 if hname == "md5" else 0, hx(key), hx(msg))


@stage("hkdf-expand")
def st_hkdf(c):
    from tlslite.utils import cryptomath
    prk, info, L, hname = B(c["prk"]), B(c["info"]), c["L"], c["hash"]
    H = RecHash(hname)
    r = ref_hkdf_expand(H, prk, info, L)
    if r is None:
        ref_hkdf_expand(H, prk, info, 255 * H.ds)
    ref = canon(r) if r is not None else "raise:ValueError"
    return run_impl(lambda: cryptomath.HKDF_expand(bytearray(prk), bytearray(info), L, hname)), ref, \
        "hkdf %s %s %s %d" % (H.args(), hx(prk), hx(info), L)


@stage("hkdf-expand-label")
def st_hkdf_label(c):
    from tlslite.utils import cryptomath
    secret, label, ctx, n, hname = B(c["secret"]), B(c["label"]), B(c["ctx"]), c["length"], c["hash"]
    H = RecHash(hname)
    r = ref_hkdf_expand_label(H, secret, label, ctx, n)
    if r is None and n <= 0xffff and len(label) + 6 <= 255 and len(ctx) <= 255:
        ref_hkdf_expand(H, secret, ref_hkdf_label(n, label, ctx), 255 * H.ds)
    ref = canon(r) if r is not None else "raise:ValueError"
    return run_impl(lambda: cryptomath.HKDF_expand_label(bytearray(secret), bytearray(label), bytearray(ctx), n, hname)), ref, \
        "hkdf_expand_label %s %s %s %s %d" % (H.args(), hx(secret), hx(label), hx(ctx), n)


@stage("derive-secret")
def st_derive(c):
    from tlslite.utils import cryptomath
    from tlslite.handshakehashes import HandshakeHashes
    secret, label, hname = B(c["secret"]), B(c["label"]), c["hash"]
    tr = None if c.get("transcript") is None else B(c["transcript"])

    def go():
        hh = None
        if tr is not None:
            hh = HandshakeHashes()
            hh.update(bytearray(tr))
        return cryptomath.derive_secret(bytearray(secret), bytearray(label), hh, hname)
    H = RecHash(hname)
    r = ref_hkdf_expand_label(H, secret, label, H(tr or b""), H.ds)
    ref = canon(r) if r is not None else "raise:ValueError"
    return run_impl(go), ref, "derive_secret %s %s %s %s" % (H.args(), hx(secret), hx(label), opt(c.get("transcript")))


def _capture_pending(rl, suite, ver):
    """wrap the cipher / MAC constructors calcPendingStates uses, remembering the keys they get"""
    kl, il, ccf = rl._getCipherSettings(suite)
    encs, macs = {}, {}

    def cipher(*a):
        o = ccf(*a)
        encs[id(o)] = a
        return o
    rl._getCipherSettings = lambda cs: (kl, il, cipher if ccf is not None else None)
    orig_mac = rl._getHMACMethod(ver)

    def mac(k, digestmod=None):
        o = orig_mac(k, digestmod=digestmod)
        macs[id(o)] = bytes(k)
        return o
    rl._getHMACMethod = lambda v: mac
    return kl, il, encs, macs


@stage("pending-states")
def st_pending(c):
    """RecordLayer.calcPendingStates: which bytes of which PRF output become which key"""
    from tlslite.recordlayer import RecordLayer
    from tlslite.constants import CipherSuite
    ver, suite, client = tuple(c["version"]), c["suite"], c["client"]
    ms, cr, sr = B(c["ms"]), B(c["cr"]), B(c["sr"])
    dims = [None]

    def go():
        rl = RecordLayer(None)
        rl.version = ver
        rl.client = client
        ml, _dm = rl._getMacSettings(suite)
        kl, il, encs, macs = _capture_pending(rl, suite, ver)
        dims[0] = (ml, kl, il)
        rl.calcPendingStates(suite, bytearray(ms), bytearray(cr), bytearray(sr), ["python"])
        out = []
        for st in (rl._pendingWriteState, rl._pendingReadState):
            mk = macs.get(id(st.macContext), b"") if st.macContext is not None else b""
            a = encs.get(id(st.encContext)) if st.encContext is not None else None
            key = bytes(a[0]) if a else b""
            if st.macContext is None:
                iv = bytes(st.fixedNonce) if st.fixedNonce is not None else b""
            else:
                iv = bytes(a[1]) if a and len(a) == 3 else b""
            out += [mk, key, iv]
        return " ".join(hx(x) for x in out)
    impl = run_impl(go)
    ref, line = None, None
    if dims[0] is not None:
        ml, kl, il = dims[0]
        sha384 = suite in CipherSuite.sha384PrfSuites
        Hs = (RecHash("md5"), RecHash("sha1"), RecHash("sha256"), RecHash("sha384"))
        total = 2 * ml + 2 * kl + 2 * il
        kb = ref_calc_key(Hs, ver, b"key expansion", ms, b"", cr, sr, total, sha384)
        # RFC 5246 6.3: client MAC, server MAC, client key, server key, client IV, server IV
        parts, pos = [], 0
        for L in (ml, ml, kl, kl, il, il):
            parts.append(kb[pos:pos + L])
            pos += L
        cl, sv = [parts[0], parts[2], parts[4]], [parts[1], parts[3], parts[5]]
        if suite in CipherSuite.rc4Suites or kl == 0:
            cl[2], sv[2] = b"", b""            # no IV exists for stream / null ciphers
        ref = " ".join(hx(x) for x in ((cl + sv) if client else (sv + cl)))
        line = "pending %s %s %s %s %d %d %d %d %s %s %s %d %d %d" % (
            Hs[0].line(), Hs[1].line(), Hs[2].line(), Hs[3].line(), ver[0], ver[1], 1 if sha384 else 0, 1 if client else 0,
            hx(ms), hx(cr), hx(sr), ml, kl, il)
    return impl, ref, line


@stage("tls13-traffic-keys")
def st_tls13(c):
    from tlslite.recordlayer import RecordLayer
    from tlslite.constants import CipherSuite
    suite, client, cl, sr = c["suite"], c["client"], B(c["cl"]), B(c["sr"])
    klen = [None]

    def go():
        rl = RecordLayer(None)
        rl.version = (3, 4)
        rl.client = client
        klen[0] = rl._getCipherSettings(suite)[0]
        rl.calcTLS1_3PendingState(suite, bytearray(cl), bytearray(sr), ["python"])
        w, r = rl._pendingWriteState, rl._pendingReadState
        return " ".join(hx(bytes(x)) for x in (w.encContext.key, w.fixedNonce, r.encContext.key, r.fixedNonce))
    impl = run_impl(go)
    ref = line = None
    if klen[0] is not None:
        hname = "sha384" if suite in CipherSuite.sha384PrfSuites else "sha256"
        H = RecHash(hname)
        ck, civ = ref_hkdf_expand_label(H, cl, b"key", b"", klen[0]), ref_hkdf_expand_label(H, cl, b"iv", b"", 12)
        sk, siv = ref_hkdf_expand_label(H, sr, b"key", b"", klen[0]), ref_hkdf_expand_label(H, sr, b"iv", b"", 12)
        ref = " ".join(hx(x) for x in ((ck, civ, sk, siv) if client else (sk, siv, ck, civ)))
        line = "tls13_pending %s %d %s %s %d" % (H.args(), 1 if client else 0, hx(cl), hx(sr), klen[0])
    return impl, ref, line


@stage("tls13-key-update")
def st_tls13_update(c):
    from tlslite.recordlayer import RecordLayer
    from tlslite.constants import CipherSuite
    suite, secret = c["suite"], B(c["secret"])
    klen = [None]

    def go():
        rl = RecordLayer(None)
        rl.version = (3, 4)
        klen[0] = rl._getCipherSettings(suite)[0]
        new, st = rl._calcTLS1_3KeyUpdate(suite, bytearray(secret))
        return " ".join(hx(bytes(x)) for x in (new, st.encContext.key, st.fixedNonce))
    impl = run_impl(go)
    ref = line = None
    if klen[0] is not None:
        H = RecHash("sha384" if suite in CipherSuite.sha384PrfSuites else "sha256")
        nxt = ref_hkdf_expand_label(H, secret, b"traffic upd", b"", H.ds)
        ref = " ".join(hx(x) for x in (nxt, ref_hkdf_expand_label(H, nxt, b"key", b"", klen[0]),
                                      ref_hkdf_expand_label(H, nxt, b"iv", b"", 12)))
        line = "tls13_update %s %s %d" % (H.args(), hx(secret), klen[0])
    return impl, ref, line


@stage("tls13-key-update-roles")
def st_tls13_roles(c):
    """calcTLS1_3KeyUpdate_sender / _reciever: whose secret advances and which state is replaced"""
    from tlslite.recordlayer import RecordLayer
    suite, client, cl, sr, which = c["suite"], c["client"], B(c["cl"]), B(c["sr"]), c["which"]

    def go():
        rl = RecordLayer(None)
        rl.version = (3, 4)
        rl.client = client
        r0, w0 = rl._readState, rl._writeState
        f = rl.calcTLS1_3KeyUpdate_sender if which == "sender" else rl.calcTLS1_3KeyUpdate_reciever
        ncl, nsr = f(suite, bytearray(cl), bytearray(sr))
        changed = ("read" if rl._readState is not r0 else "") + ("write" if rl._writeState is not w0 else "")
        st = rl._readState if rl._readState is not r0 else rl._writeState
        return "%s %s %s %s" % (hx(bytes(ncl)), hx(bytes(nsr)), changed, hx(bytes(st.encContext.key)))
    H = RecHash("sha256")
    # "sender": the peer sent KeyUpdate, so the peer's sending secret (= our reading keys) advances;
    # "reciever": we answer / initiate, our own sending secret (= our writing keys) advances (RFC 8446 4.6.3)
    peer_is_server = client
    if which == "sender":
        adv_server = peer_is_server
        side = "read"
    else:
        adv_server = not peer_is_server
        side = "write"
    old = sr if adv_server else cl
    nxt = ref_hkdf_expand_label(H, old, b"traffic upd", b"", 32)
    key = ref_hkdf_expand_label(H, nxt, b"key", b"", 16)
    ref = "%s %s %s %s" % (hx(cl if adv_server else nxt), hx(nxt if adv_server else sr), side, hx(key))
    return run_impl(go), ref, None


def vectors_kdf(ctx, W):
    V = [
        # RFC 2202 HMAC-MD5 / HMAC-SHA-1, RFC 4231 HMAC-SHA-256 (incl. key longer than the block)
        ("rfc2202-md5-1", "hmac-object", dict(key="0b" * 16, msgs=[b"Hi There".hex()], hash="md5"), "9294727a3638bb1c13f48ef8158bfc9d"),
        ("rfc2202-md5-2", "hmac-object", dict(key=b"Jefe".hex(), msgs=[b"what do ya want ".hex(), b"for nothing?".hex()], hash="md5"),
         "750c783e6ab0b503eaa86e310a5db738"),
        ("rfc2202-sha1-1", "hmac-object", dict(key="0b" * 20, msgs=[b"Hi There".hex()], hash="sha1"), "b617318655057264e28bc0b6fb378c8ef146be00"),
        ("rfc4231-1", "hmac-object", dict(key="0b" * 20, msgs=[b"Hi There".hex()], hash="sha256"),
         "b0344c61d8db38535ca8afceaf0bf12b881dc200c9833da726e9376c2e32cff7"),
        ("rfc4231-6", "hmac-object", dict(key="aa" * 131, msgs=[b"Test Using Larger Than Block-Size Key - Hash Key First".hex()], hash="sha256"),
         "60e431591ee0b67f0d8a26aacbf5b77f8e0bc6213728c5140546040f0ee37f54"),
        # RFC 5869 A.1 (expand step)
        ("rfc5869-A.1", "hkdf-expand", dict(prk="077709362c2e32df0ddc3f0dc47bba6390b6c73bb50f9c3122ec844ad7c2b3e5", info="f0f1f2f3f4f5f6f7f8f9",
                                            L=42, hash="sha256"),
         "3cb25f25faacd57a90434f64d0362f2a2d2d0a90cf1a5a4c5db02d56ecc4c5bf34007208d5b887185865"),
        # RFC 8448 section 3: Derive-Secret(early secret, "derived", "")
        ("rfc8448-derived", "derive-secret", dict(secret="33ad0a1c607ec03b09e6cd9893680ce210adf300aa1f2660e1b22e10f170f92a", label=b"derived".hex(),
                                                  transcript=None, hash="sha256"),
         "6f2615a108c702c5678f54fc9dbab69716c076189c48250cebeac3576c3611ba"),
    ]
    for label, name, case, expected in V:
        impl, ref, line = STAGES[name](case)
        ctx.count("vector:" + label)
        ctx.case(key=("vec", label), sample=None)
        W.oracle("c09:" + name, name, dict(case, vector=label), impl, expected,
                 what="%s: published vector %s not reproduced (got %s)" % (name, label, impl[:64]))
        if ref is not None and ref != expected:
            raise AssertionError("harness reference wrong on %s: %s" % (label, ref))
        W.model(name, dict(case, vector=label), line, expected)
        if name == "hmac-object":
            H = RecHash(case["hash"])
            ref_hmac(H, B(case["key"]), b"".join(B(m) for m in case["msgs"]))
            W.model("lean-spec:hmac", dict(case, vector=label), "hmac_spec %s %s %s" % (H.args(), hx(B(case["key"])),
                    hx(b"".join(B(m) for m in case["msgs"]))), expected)
        if name == "hkdf-expand":
            H = RecHash(case["hash"])
            ref_hkdf_expand(H, B(case["prk"]), B(case["info"]), case["L"])
            W.model("lean-spec:hkdf", dict(case, vector=label), "hkdf_spec %s %s %s %d" % (H.args(), hx(B(case["prk"])), hx(B(case["info"])), case["L"]), expected)
    lc = ctx.lean()
    if lc is not None:
        ctx.compared()
        if lc.ask("labels") != "true":
            ctx.disagree("label-constants", {"stage": "labels"}, "false", "true")


LABELS = [b"master secret", b"key expansion", b"client finished", b"server finished", b"extended master secret"]


def part_kdf(ctx, W):
    rng = ctx.rng
    thorough = ctx.thorough()
    vectors_kdf(ctx, W)
    # --- HMAC objects: key shorter / equal / longer than the block, update splits, copies
    for hname in ("md5", "sha1", "sha256", "sha384"):
        bs = hashlib.new(hname).block_size
        for kl in [0, 1, 16, bs - 1, bs, bs + 1, 2 * bs + 3]:
            for nm in (0, 1, 3):
                msgs = [rb(rng, rng.choice([0, 1, 13, 64, 100])).hex() for _ in range(nm)]
                ctx.count("hmac-keylen:%s" % ("short" if kl < bs else "block" if kl == bs else "long"))
                do(ctx, W, "hmac-object", dict(key=rb(rng, kl).hex(), msgs=msgs, hash=hname))
                if nm == 1:
                    do(ctx, W, "hmac-object", dict(key=rb(rng, kl).hex(), msgs=msgs, hash=hname, fallback=False))
    # --- P_hash / PRFs: output lengths 0 … several hash blocks incl. non-multiples; secret lengths odd/even/0
    out_lens = [0, 1, 12, 15, 16, 17, 19, 20, 21, 31, 32, 33, 47, 48, 49, 64, 72, 104, 136] + ([95, 96, 97, 200, 500] if thorough else [])
    for hname in ("md5", "sha1", "sha256", "sha384"):
        for n in out_lens:
            do(ctx, W, "p_hash", dict(secret=rb(rng, rng.choice([0, 1, 16, 48, 65, 129])).hex(), seed=rb(rng, rng.choice([0, 1, 13, 64, 77])).hex(),
                                      length=n, hash=hname))
    for kind in ("tls10", "sha256", "sha384", "ssl"):
        for n in out_lens + ([416] if kind == "ssl" else []):
            for sl in ([0, 1, 2, 47, 48, 49] if (thorough or n in (0, 12, 48, 104)) else [rng.choice([47, 48, 49])]):
                ctx.count("prf:%s" % kind)
                do(ctx, W, "prf", dict(secret=rb(rng, sl).hex(), label=rng.choice(LABELS + [b"", b"test label"]).hex(),
                                       seed=rb(rng, rng.choice([0, 32, 64])).hex(), length=n, kind=kind))
    do(ctx, W, "prf", dict(secret=rb(rng, 48).hex(), label="", seed=rb(rng, 64).hex(), length=417, kind="ssl"))
    do(ctx, W, "prf", dict(secret=rb(rng, 48).hex(), label="", seed=rb(rng, 64).hex(), length=500, kind="ssl"))
    # --- calc_key: every version x label x PRF hash, client/server random order, lengths
    for ver in ((3, 0), (3, 1), (3, 2), (3, 3)):
        for label in LABELS:
            for suite in (SUITE_SHA256_PRF, SUITE_SHA384_PRF):
                for n in ((12, 48, 104) if not thorough else (0, 12, 36, 48, 72, 104, 136)):
                    ctx.count("calc_key:%d.%d" % ver)
                    do(ctx, W, "calc_key", dict(version=list(ver), secret=rb(rng, 48).hex(), label=label.hex(), suite=suite,
                                                transcript=rb(rng, rng.choice([0, 1, 100, 300])).hex(), cr=rb(rng, 32).hex(), sr=rb(rng, 32).hex(),
                                                length=n))
    # missing arguments, unknown labels and versions (what the code raises; model correspondence only)
    for ver in ((3, 0), (3, 1), (3, 3), (3, 4), (2, 0)):
        for label in (b"master secret", b"client finished", b"key expansion", b"exporter", b"", b"extended master secret"):
            for drop in ("transcript", "cr", "sr", "length", None):
                case = dict(version=list(ver), secret=rb(rng, 48).hex(), label=label.hex(), suite=SUITE_SHA256_PRF,
                            transcript=rb(rng, 20).hex(), cr=rb(rng, 32).hex(), sr=rb(rng, 32).hex(), length=48)
                if drop:
                    case[drop] = None
                do(ctx, W, "calc_key", case, nontrivial=False)
    # --- exporters (RFC 5705, RFC 8446 7.5): every version, both PRF hashes, lengths incl. the HKDF limit
    for ver in ((3, 0), (3, 1), (3, 2), (3, 3), (3, 4)):
        for suite in ((SUITE_SHA256_PRF, SUITE_SHA384_PRF) if ver != (3, 4) else (0x1301, 0x1302)):
            for label in (b"EXPORTER-test", b"EXPORTER_with a longer label", b"", b"master secret", b"client finished"):
                for n in ((20, 0, 77) if label == b"EXPORTER-test" else (20,)):
                    ds = 48 if suite in (SUITE_SHA384_PRF, 0x1302) else 32
                    do(ctx, W, "exporter", dict(version=list(ver), suite=suite, label=label.hex(), length=n, ms=rb(rng, 48).hex(),
                                                cr=rb(rng, 32).hex(), sr=rb(rng, 32).hex(), ems=rb(rng, ds).hex()))
    for n in (255 * 32, 255 * 32 + 1):
        do(ctx, W, "exporter", dict(version=[3, 4], suite=0x1301, label=b"EXPORTER-long".hex(), length=n, ms="", cr="", sr="", ems=rb(rng, 32).hex()),
           vkey="c09:hkdf-expand-last-block-raises" if n == 255 * 32 else None)
    # --- SSLv3 Finished / CertificateVerify digest and MAC_SSL
    for _ in range(ctx.pick(8, 40)):
        do(ctx, W, "ssl3-digest", dict(transcript=rb(rng, rng.choice([0, 1, 64, 200, 1000])).hex(), ms=rb(rng, 48).hex(),
                                       label=rng.choice([b"CLNT", b"SRVR", b""]).hex()))
        do(ctx, W, "mac_ssl", dict(key=rb(rng, rng.choice([16, 20])).hex(), msgs=[rb(rng, rng.randrange(0, 80)).hex() for _ in range(rng.randrange(0, 4))],
                                   hash=rng.choice(["md5", "sha1"])))
    # --- HKDF-Expand: L = 0 … 255*HashLen and beyond; the last block of the RFC's domain
    for hname in ("sha256", "sha384"):
        ds = hashlib.new(hname).digest_size
        Ls = [0, 1, ds - 1, ds, ds + 1, 2 * ds, 2 * ds + 5, 12, 16, 42, 100, 254 * ds, 254 * ds + 1, 255 * ds - 1, 255 * ds, 255 * ds + 1, 256 * ds]
        if not thorough:
            Ls = [L for L in Ls if L < 300] + ([254 * ds + 1, 255 * ds, 255 * ds + 1] if hname == "sha256" else [255 * ds])
        for L in Ls:
            ctx.count("hkdf-L-class:%s" % ("0" if L == 0 else "<=1block" if L <= ds else "last-block" if 254 * ds < L <= 255 * ds else "beyond" if L > 255 * ds else "multi"))
            do(ctx, W, "hkdf-expand", dict(prk=rb(rng, ds).hex(), info=rb(rng, rng.choice([0, 10, 80])).hex(), L=L, hash=hname),
               vkey="c09:hkdf-expand-last-block-raises" if 254 * ds < L <= 255 * ds else None)
    # --- HKDF-Expand-Label / Derive-Secret: every label of RFC 8446 7.1, contexts 0/32/48/255, field limits
    tls13_labels = [b"ext binder", b"res binder", b"c e traffic", b"e exp master", b"derived", b"c hs traffic", b"s hs traffic",
                    b"c ap traffic", b"s ap traffic", b"exp master", b"res master", b"key", b"iv", b"finished", b"traffic upd",
                    b"exporter", b"resumption", b""]
    for hname in ("sha256", "sha384"):
        ds = hashlib.new(hname).digest_size
        for lab in tls13_labels:
            ctxlen = rng.choice([0, ds])
            n = {b"key": rng.choice([16, 32]), b"iv": 12}.get(lab, ds)
            do(ctx, W, "hkdf-expand-label", dict(secret=rb(rng, ds).hex(), label=lab.hex(), ctx=rb(rng, ctxlen).hex(), length=n, hash=hname))
            do(ctx, W, "derive-secret", dict(secret=rb(rng, ds).hex(), label=lab.hex(), transcript=rng.choice([None, rb(rng, 50).hex(), ""]),
                                             hash=hname))
        for lab_len, ctx_len, n in ((249, 0, 32), (250, 0, 32), (10, 255, 32), (10, 256, 32), (3, 0, 0), (3, 0, 65535), (3, 0, 65536),
                                    (3, 0, 255 * ds), (3, 0, 255 * ds + 1), (0, 0, 1), (3, 32, 100)):
            do(ctx, W, "hkdf-expand-label", dict(secret=rb(rng, ds).hex(), label=rb(rng, lab_len).hex(), ctx=rb(rng, ctx_len).hex(), length=n,
                                                 hash=hname),
               vkey="c09:hkdf-expand-last-block-raises" if 254 * ds < n <= 255 * ds else None)
    # --- key block slicing per role, TLS <= 1.2
    suites12 = [0x002F, 0x0035, 0x003C, 0x003D, 0x000A, 0x0005, 0x0004, 0x009C, 0x009D, 0xCCA8, 0xC09C, 0xC0A0, 0x0002, 0x003B]
    for ver in ((3, 0), (3, 1), (3, 2), (3, 3)):
        for suite in suites12:
            for client in (True, False):
                ctx.count("pending:%d.%d" % ver)
                do(ctx, W, "pending-states", dict(version=list(ver), suite=suite, client=client, ms=rb(rng, 48).hex(), cr=rb(rng, 32).hex(),
                                                  sr=rb(rng, 32).hex()))
    # --- TLS 1.3 traffic keys and KeyUpdate
    for suite in (0x1301, 0x1302, 0x1303, 0x1304, 0x1305):
        ds = 48 if suite == 0x1302 else 32
        for client in (True, False):
            do(ctx, W, "tls13-traffic-keys", dict(suite=suite, client=client, cl=rb(rng, ds).hex(), sr=rb(rng, ds).hex()))
        do(ctx, W, "tls13-key-update", dict(suite=suite, secret=rb(rng, ds).hex()))
    for client in (True, False):
        for which in ("sender", "reciever"):
            do(ctx, W, "tls13-key-update-roles", dict(suite=0x1301, client=client, cl=rb(rng, 32).hex(), sr=rb(rng, 32).hex(), which=which))
    W.flush()


# ======================================================================================
# part 4: AES-GCM, AES-CCM, AES-CCM-8
# ======================================================================================
def ref_gf_mul(x, y):
    """SP 800-38D 6.3 Algorithm 1 (blocks as integers, leftmost bit = 2^127)"""
    R = 0xe1 << 120
    z, v = 0, y
    for i in range(128):
        if (x >> (127 - i)) & 1:
            z ^= v
        v = (v >> 1) ^ R if v & 1 else v >> 1
    return z


def ref_ghash(h, data):
    y = 0
    for i in range(0, len(data), 16):
        y = ref_gf_mul(y ^ int.from_bytes(data[i:i + 16], "big"), h)
    return y


def ref_gcm_tag(E, iv, aad, c):
    h = int.from_bytes(E(bytes(16)), "big")
    s = ref_ghash(h, aad + _pad16(aad) + c + _pad16(c) + struct.pack(">QQ", 8 * len(aad), 8 * len(c)))
    return xor(E(iv + b"\x00\x00\x00\x01"), s.to_bytes(16, "big"))


def ref_gcm_seal(E, iv, pt, aad):
    """SP 800-38D 7.1, 96-bit IV, 128-bit tag"""
    c, _ = ref_ctr(E, 32, ref_inc(32, iv + b"\x00\x00\x00\x01"), pt)
    return c + ref_gcm_tag(E, iv, aad, c)


def ref_gcm_open(E, iv, ct, aad):
    if len(ct) < 16:
        return None
    c, t = ct[:-16], ct[-16:]
    if not pyhmac.compare_digest(t, ref_gcm_tag(E, iv, aad, c)):
        return None
    return ref_ctr(E, 32, ref_inc(32, iv + b"\x00\x00\x00\x01"), c)[0]


def ref_ccm_tag(E, M, N, a, m):
    """RFC 3610 2.2"""
    L = 15 - len(N)
    b0 = bytes([64 * (1 if a else 0) + 8 * ((M - 2) // 2) + (L - 1)]) + N + len(m).to_bytes(L, "big")
    if not a:
        enc = b""
    elif len(a) < 2 ** 16 - 2 ** 8:
        enc = len(a).to_bytes(2, "big")
    elif len(a) < 2 ** 32:
        enc = b"\xff\xfe" + len(a).to_bytes(4, "big")
    else:
        enc = b"\xff\xff" + len(a).to_bytes(8, "big")
    blocks = b0 + (enc + a) + _pad16(enc + a) + m + _pad16(m)
    x = bytes(16)
    for i in range(0, len(blocks), 16):
        x = E(xor(x, blocks[i:i + 16]))
    return x[:M]


def _ccm_a(N, i):
    L = 15 - len(N)
    return bytes([L - 1]) + N + i.to_bytes(L, "big")


def ref_ccm_crypt(E, N, m):
    out = b""
    for j in range((len(m) + 15) // 16):
        out += xor(m[16 * j:16 * j + 16], E(_ccm_a(N, j + 1)))
    return out


def ref_ccm_seal(E, M, N, m, a):
    """RFC 3610 2.3 / 2.4"""
    return ref_ccm_crypt(E, N, m) + xor(ref_ccm_tag(E, M, N, a, m), E(_ccm_a(N, 0))[:M])


def ref_ccm_open(E, M, N, c, a):
    if len(c) < M:
        return None
    m = ref_ccm_crypt(E, N, c[:-M])
    t = xor(c[-M:], E(_ccm_a(N, 0))[:M])
    if not pyhmac.compare_digest(t, ref_ccm_tag(E, M, N, a, m)):
        return None
    return m


def _gcm_obj(key, rec):
    from tlslite.utils.aesgcm import AESGCM
    from tlslite.utils.rijndael import Rijndael
    raw = Rijndael(bytearray(key), 16).encrypt
    rec[0] = Rec(raw)
    g = AESGCM(bytearray(key), "python", rec[0])
    inner = g._ctr.rijndael.encrypt
    tab = rec[0]

    def ctr_enc(b):
        y = inner(b)
        tab.tab[bytes(b)] = bytes(y)
        return y
    g._ctr.rijndael.encrypt = ctr_enc
    return g


@stage("aes-gcm")
def st_gcm(c):
    key, nonce, data, aad, op = B(c["key"]), B(c["nonce"]), B(c["data"]), B(c["aad"]), c["op"]
    rec = [None]

    def go():
        g = _gcm_obj(key, rec)
        f = g.seal if op == "seal" else g.open
        return f(bytearray(nonce), bytearray(data), bytearray(aad))
    impl = run_impl(go)
    ref = None
    if len(key) in (16, 32):
        E = lambda b: ref_aes_encrypt(key, b)
        if len(nonce) != 12:
            ref = "raise:ValueError"
        else:
            ref = canon(ref_gcm_seal(E, nonce, data, aad) if op == "seal" else ref_gcm_open(E, nonce, data, aad))
    line = None
    if rec[0] is not None:
        line = "gcm_%s %s %s %s %s" % (op, rec[0].line(), hx(nonce), hx(data), hx(aad))
    return impl, ref, line


@stage("gcm-mul")
def st_gcm_mul(c):
    """AESGCM._mul / _productTable with H given directly (raw block function returns H)"""
    from tlslite.utils.aesgcm import AESGCM
    h, y = c["h"], c["y"]

    def go():
        g = AESGCM(bytearray(16), "python", lambda b: bytearray(h.to_bytes(16, "big")))
        return str(g._mul(y))
    return run_impl(go), (str(ref_gf_mul(y, h)) if y < 2 ** 128 else "raise:AssertionError"), "gcm_mul %d %d" % (h, y)


def _ccm_obj(key, tl, rec):
    from tlslite.utils.aesccm import AESCCM
    from tlslite.utils.rijndael import Rijndael
    o = AESCCM(bytearray(key), "python", Rijndael(bytearray(key), 16).encrypt, tl)
    rec[0] = Rec(None)
    tab = rec[0]
    for sub in (o._ctr, o._cbc):
        inner = sub.rijndael.encrypt

        def enc(b, inner=inner):
            y = inner(b)
            tab.tab[bytes(b)] = bytes(y)
            return y
        sub.rijndael.encrypt = enc
    return o


@stage("aes-ccm")
def st_ccm(c):
    key, tl, nonce, data, aad, op = B(c["key"]), c["taglen"], B(c["nonce"]), B(c["data"]), B(c["aad"]), c["op"]
    rec = [None]

    def go():
        o = _ccm_obj(key, tl, rec)
        f = o.seal if op == "seal" else o.open
        return f(bytearray(nonce), bytearray(data), bytearray(aad))
    impl = run_impl(go)
    ref = None
    if len(key) in (16, 32) and tl in (8, 16):
        E = lambda b: ref_aes_encrypt(key, b)
        if len(nonce) != 12:
            ref = "raise:ValueError"
        else:
            ref = canon(ref_ccm_seal(E, tl, nonce, data, aad) if op == "seal" else ref_ccm_open(E, tl, nonce, data, aad))
    line = None
    if rec[0] is not None:
        line = "ccm_%s %s %d %s %s %s" % (op, rec[0].line(), tl, hx(nonce), hx(data), hx(aad))
    return impl, ref, line


def aead_mutations(rng, good, nonce, aad, thorough, taglen):
    muts = []
    for pos in range(len(good)):
        for bit in (range(8) if (thorough or len(good) <= 21) else [rng.randrange(8)]):
            m = bytearray(good); m[pos] ^= 1 << bit
            muts.append(("ct-bit", bytes(m), nonce, aad))
    for pos in range(len(nonce)):
        for bit in (range(8) if thorough else [rng.randrange(8)]):
            m = bytearray(nonce); m[pos] ^= 1 << bit
            muts.append(("nonce-bit", good, bytes(m), aad))
    for pos in range(len(aad)):
        m = bytearray(aad); m[pos] ^= 1 << rng.randrange(8)
        muts.append(("aad-bit", good, nonce, bytes(m)))
    muts.append(("aad-extended", good, nonce, aad + b"\x00"))
    if aad:
        muts.append(("aad-truncated", good, nonce, aad[:-1]))
        muts.append(("aad-dropped", good, nonce, b""))
    for cut in range(1, min(len(good), taglen + 4) + 1):
        muts.append(("truncated", good[:-cut], nonce, aad))
    muts.append(("extended", good + b"\x00", nonce, aad))
    muts.append(("tag-zero", good[:-taglen] + bytes(taglen), nonce, aad))
    return muts


def vectors_aead(ctx, W):
    k = "feffe9928665731c6d6a8f9467308308"
    iv = "cafebabefacedbaddecaf888"
    p4 = ("d9313225f88406e5a55909c5aff5269a86a7a9531534f7da2e4c303d8a318a721c3c0c95956809532fcf0e2449a6b525"
          "b16aedf5aa0de657ba637b39")
    a4 = "feedfacedeadbeeffeedfacedeadbeefabaddad2"
    c4 = ("42831ec2217774244b7221b784d0d49ce3aa212f2c02a4e035c17e2329aca12e21d514b25466931c7d8f6a5aac84aa05"
          "1ba30b396a0aac973d58e091" "5bc94fbc3221a5db94fae95ae7121a47")
    V = [
        ("gcm-spec-tc1", "aes-gcm", dict(key="00" * 16, nonce="00" * 12, data="", aad="", op="seal"), "58e2fccefa7e3061367f1d57a4e7455a"),
        ("gcm-spec-tc2", "aes-gcm", dict(key="00" * 16, nonce="00" * 12, data="00" * 16, aad="", op="seal"),
         "0388dace60b6a392f328c2b971b2fe78" "ab6e47d42cec13bdf53a67b21257bddf"),
        ("gcm-spec-tc4", "aes-gcm", dict(key=k, nonce=iv, data=p4, aad=a4, op="seal"), c4),
        ("gcm-spec-tc4-open", "aes-gcm", dict(key=k, nonce=iv, data=c4, aad=a4, op="open"), p4),
        # NIST SP 800-38C example 3 (Klen 128, Tlen 64, Nlen 96)
        ("sp800-38c-ex3", "aes-ccm", dict(key=bytes(range(0x40, 0x50)).hex(), taglen=8, nonce=bytes(range(0x10, 0x1c)).hex(),
                                          data=bytes(range(0x20, 0x38)).hex(), aad=bytes(range(0x14)).hex(), op="seal"),
         "e3b201a9f5b71a7a9b1ceaeccd97e70b6176aad9a4428aa5" "484392fbc1b09951"),
    ]
    for label, name, case, expected in V:
        impl, ref, line = STAGES[name](case)
        ctx.count("vector:" + label)
        ctx.case(key=("vec", label), sample=None)
        W.oracle("c09:" + name, name, dict(case, vector=label), impl, expected,
                 what="%s: published vector %s not reproduced (got %s)" % (name, label, impl[:64]))
        if ref is not None and ref != expected:
            raise AssertionError("harness reference wrong on %s: %s" % (label, ref))
        if line is not None:
            W.model(name, dict(case, vector=label), line, expected)
            W.model("lean-spec:" + name, dict(case, vector=label), line.replace("_seal ", "_seal_spec ", 1).replace("_open ", "_open_spec ", 1), expected)


def part_aead(ctx, W):
    rng = ctx.rng
    thorough = ctx.thorough()
    vectors_aead(ctx, W)
    # --- _mul against Algorithm 1: sparse / dense / single-bit operands
    special = [0, 1, 2, 1 << 127, (1 << 128) - 1, 0xe1 << 120, 1 << 64, (1 << 127) | 1, 0xf, 0xf0, 1 << 124, 1 << 3, 1 << 4]
    for i in range(ctx.pick(60, 600)):
        h = rng.choice(special) if rng.random() < 0.3 else rng.getrandbits(128)
        y = rng.choice(special) if rng.random() < 0.3 else rng.getrandbits(128)
        do(ctx, W, "gcm-mul", dict(h=h, y=y))
    for k in range(0, 128, ctx.pick(8, 1)):
        do(ctx, W, "gcm-mul", dict(h=rng.getrandbits(128), y=1 << k))
        do(ctx, W, "gcm-mul", dict(h=1 << k, y=rng.getrandbits(128)))
    do(ctx, W, "gcm-mul", dict(h=5, y=1 << 128), nontrivial=False)
    # --- GCM / CCM / CCM-8 seal and open over message and AAD length classes
    mlens = [0, 1, 15, 16, 17, 31, 32, 33, 64, 100] + ([47, 48, 49, 255, 256, 257, 1000, 4096] if thorough else [])
    alens = [0, 1, 13, 15, 16, 17, 32, 40]
    for kind, tl in (("aes-gcm", 16), ("aes-ccm", 16), ("aes-ccm", 8)):
        for kl in (16, 32):
            for n in mlens:
                for al in (alens if (thorough or n in (0, 16, 33)) else [0, 13, 16]):
                    key, nonce, pt, aad = rb(rng, kl), rb(rng, 12), rb(rng, n), rb(rng, al)
                    base = dict(key=key.hex(), nonce=nonce.hex(), aad=aad.hex())
                    if kind == "aes-ccm":
                        base["taglen"] = tl
                    ctx.count("aead:%s-%d" % (kind, tl))
                    do(ctx, W, kind, dict(base, data=pt.hex(), op="seal"))
                    E = lambda b, key=key: ref_aes_encrypt(key, b)
                    good = ref_gcm_seal(E, nonce, pt, aad) if kind == "aes-gcm" else ref_ccm_seal(E, tl, nonce, pt, aad)
                    do(ctx, W, kind, dict(base, data=good.hex(), op="open"))
        # refusal of every modification of short sealed messages
        for n, al in ((0, 0), (1, 3), (5, 13), (17, 16)) + (((33, 5),) if thorough else ()):
            key, nonce, pt, aad = rb(rng, 16), rb(rng, 12), rb(rng, n), rb(rng, al)
            E = lambda b, key=key: ref_aes_encrypt(key, b)
            good = ref_gcm_seal(E, nonce, pt, aad) if kind == "aes-gcm" else ref_ccm_seal(E, tl, nonce, pt, aad)
            for mk, c2, n2, a2 in aead_mutations(rng, good, nonce, aad, thorough, tl):
                base = dict(key=key.hex(), nonce=n2.hex(), aad=a2.hex(), data=c2.hex(), op="open", mutation=mk)
                if kind == "aes-ccm":
                    base["taglen"] = tl
                ctx.count("aead-open:%s" % mk)
                do(ctx, W, kind, base, vkey="c09:%s-open-accepts-modified" % kind)
        for nl in (0, 8, 11, 13, 16):
            base = dict(key=rb(rng, 16).hex(), nonce=rb(rng, nl).hex(), aad="", data="00" * 20, op="seal")
            if kind == "aes-ccm":
                base["taglen"] = tl
            do(ctx, W, kind, base, nontrivial=False)
            do(ctx, W, kind, dict(base, op="open"), nontrivial=False)
    # --- CCM AAD length encoding forms: 2 bytes below 2^16-2^8, 0xFFFE + 4 bytes from there on
    for al in ([65279, 65280] if not thorough else [65278, 65279, 65280, 65281, 65536, 70000]):
        for tl in ((16,) if not thorough else (16, 8)):
            key, nonce, pt, aad = rb(rng, 16), rb(rng, 12), rb(rng, 20), rb(rng, al)
            ctx.count("ccm-aad-encoding:%s" % ("2-byte" if al < 65280 else "6-byte"))
            do(ctx, W, "aes-ccm", dict(key=key.hex(), nonce=nonce.hex(), aad=aad.hex(), taglen=tl, data=pt.hex(), op="seal"))
    # GCM with AAD beyond 2^16 as well (length block)
    do(ctx, W, "aes-gcm", dict(key=rb(rng, 16).hex(), nonce=rb(rng, 12).hex(), aad=rb(rng, 65537 if thorough else 4099).hex(),
                               data=rb(rng, 20).hex(), op="seal"))
    W.flush()


# ======================================================================================
# part 0 (runs FIRST, never cut by any budget): HISTORIES on one object
#   every AEAD object gets sequences of seal/open calls of very different sizes; each call's result must be
#   (a) the standard's value for that call alone (independent reference), (b) what a fresh object with the
#   same key returns, and the caller's buffers must come back unchanged; returned buffers are scribbled over
#   before the next call.  For GCM the Lean model runs the same history on its stateful object model.
# ======================================================================================
def _aead_make(kind, key):
    if kind == "gcm":
        return _gcm_obj(key, [None])
    if kind in ("ccm", "ccm8"):
        return _ccm_obj(key, 16 if kind == "ccm" else 8, [None])
    from tlslite.utils.chacha20_poly1305 import CHACHA20_POLY1305
    return CHACHA20_POLY1305(bytearray(key), "python")


def _aead_ref(kind, key, op, nonce, data, aad):
    if kind == "chachapoly":
        return ref_aead_seal(key, nonce, data, aad) if op == "seal" else ref_aead_open(key, nonce, data, aad)
    E = lambda b: ref_aes_encrypt(key, b)
    if kind == "gcm":
        return ref_gcm_seal(E, nonce, data, aad) if op == "seal" else ref_gcm_open(E, nonce, data, aad)
    tl = 16 if kind == "ccm" else 8
    return ref_ccm_seal(E, tl, nonce, data, aad) if op == "seal" else ref_ccm_open(E, tl, nonce, data, aad)


def _aead_call(obj, op, nonce, data, aad):
    """one call with the caller's buffers checked for being left alone"""
    n, d, a = bytearray(nonce), bytearray(data), bytearray(aad)
    out = (obj.seal if op == "seal" else obj.open)(n, d, a)
    val = take(out)
    tag = ""
    if bytes(n) != nonce:
        tag += " caller-nonce-modified"
    if bytes(d) != data:
        tag += " caller-data-modified"
    if bytes(a) != aad:
        tag += " caller-aad-modified"
    return canon(val) + tag


@stage("aead-history")
def st_aead_history(c):
    kind, key = c["kind"], B(c["key"])
    calls = [(x["op"], B(x["nonce"]), B(x["data"]), B(x["aad"])) for x in c["calls"]]

    def go():
        obj = _aead_make(kind, key)
        outs = []
        for i, (op, nonce, data, aad) in enumerate(calls):
            r = _aead_call(obj, op, nonce, data, aad)
            fresh = _aead_call(_aead_make(kind, key), op, nonce, data, aad)
            if fresh != r:
                r += " differs-from-fresh-object@call%d" % i
            outs.append(r)
        return " ".join(outs)
    ref = " ".join(canon(_aead_ref(kind, key, op, nonce, data, aad)) for op, nonce, data, aad in calls)
    line = None
    if kind == "gcm" and len(key) in (16, 24, 32):
        line = "gcm_seq aes:%s %s" % (hx(key), " ".join("%s %s %s %s" % ("s" if op == "seal" else "o", hx(n), hx(d), hx(a))
                                                         for op, n, d, a in calls))
    return run_impl(go), ref, line


HIST_DIRECTED = [
    # sizes in bytes; "o" = open of a reference-sealed message of that size, "x" = open of a tampered one
    [("s", 17), ("s", 255 * 16), ("s", 16), ("o", 33), ("s", 0), ("o", 0)],                    # 254/255-block carry, then small
    [("s", 4064), ("s", 60), ("o", 60), ("s", 1)],                                            # the size of a big TLS record
    [("o", 256 * 16 + 1), ("s", 15), ("o", 15), ("x", 15), ("s", 16)],                        # carry caused by open()
    [("s", 1), ("s", 15), ("s", 16), ("s", 17), ("o", 1), ("o", 16), ("x", 0), ("s", 0)],     # small only (control)
    [("s", 65536 + 5), ("s", 16), ("o", 17), ("s", 255 * 16), ("o", 31)],                      # second counter byte
]


def _mk_history(rng, kind, key, plan):
    calls = []
    for op, size in plan:
        nonce, aad = rb(rng, 12), rb(rng, rng.choice([0, 5, 13, 16, 21]))
        pt = rb(rng, size)
        if op == "s":
            calls.append(dict(op="seal", nonce=nonce.hex(), data=pt.hex(), aad=aad.hex()))
        else:
            sealed = bytearray(_aead_ref(kind, key, "seal", nonce, pt, aad))
            if op == "x":
                sealed[rng.randrange(len(sealed))] ^= 1 << rng.randrange(8)
            calls.append(dict(op="open", nonce=nonce.hex(), data=bytes(sealed).hex(), aad=aad.hex()))
    return calls


def part_histories(ctx, W):
    rng = ctx.rng
    thorough = ctx.thorough()
    # --- AEAD objects: directed histories (deterministic plans, fresh random content)
    for kind, kl in (("gcm", 16), ("gcm", 32), ("ccm", 16), ("ccm8", 16), ("chachapoly", 32)):
        plans = HIST_DIRECTED if (thorough or kind == "gcm") else HIST_DIRECTED[:4]
        for pi, plan in enumerate(plans):
            if kind == "gcm" and kl == 32 and pi == 4 and not thorough:
                continue
            key = rb(rng, kl)
            ctx.count("history:%s" % kind)
            do(ctx, W, "aead-history", dict(kind=kind, key=key.hex(), calls=_mk_history(rng, kind, key, plan), plan=pi),
               vkey="c09:aead-result-depends-on-object-history")
    # published vector AFTER a large call on the same object (GCM spec test case 4)
    k = B("feffe9928665731c6d6a8f9467308308")
    iv = "cafebabefacedbaddecaf888"
    p4 = ("d9313225f88406e5a55909c5aff5269a86a7a9531534f7da2e4c303d8a318a721c3c0c95956809532fcf0e2449a6b525"
          "b16aedf5aa0de657ba637b39")
    a4 = "feedfacedeadbeeffeedfacedeadbeefabaddad2"
    c4 = ("42831ec2217774244b7221b784d0d49ce3aa212f2c02a4e035c17e2329aca12e21d514b25466931c7d8f6a5aac84aa05"
          "1ba30b396a0aac973d58e091" "5bc94fbc3221a5db94fae95ae7121a47")
    for big in (4064, 16384):
        case = dict(kind="gcm", key=k.hex(), vector="gcm-spec-tc4-after-%d" % big, calls=[
            dict(op="seal", nonce=rb(rng, 12).hex(), data=rb(rng, big).hex(), aad=""),
            dict(op="seal", nonce=iv, data=p4, aad=a4), dict(op="open", nonce=iv, data=c4, aad=a4)])
        impl, ref, line = STAGES["aead-history"](case)
        ctx.case(key=("vec", case["vector"]), sample=None)
        exp_tail = " ".join([c4, p4])
        W.oracle("c09:aead-result-depends-on-object-history", "aead-history", case, impl, ref,
                 what="aes-gcm: published vector gcm-spec-tc4 not reproduced after a %d byte seal on the same object" % big)
        if not ref.endswith(exp_tail):
            raise AssertionError("harness reference wrong on gcm-spec-tc4 history")
        W.model("aead-history", case, line, ref)
    # --- random histories (sizes from a mixed pool)
    pool = [0, 1, 15, 16, 17, 31, 32, 33, 100, 255, 256, 4064, 4080, 4097]
    for _ in range(ctx.pick(4, 30)):
        kind, kl = rng.choice([("gcm", 16), ("gcm", 32), ("ccm", 16), ("ccm8", 32), ("chachapoly", 32)])
        key = rb(rng, kl)
        plan = [(rng.choice(["s", "s", "o", "x"]), rng.choice(pool)) for _ in range(rng.randrange(2, 7))]
        do(ctx, W, "aead-history", dict(kind=kind, key=key.hex(), calls=_mk_history(rng, kind, key, plan)),
           vkey="c09:aead-result-depends-on-object-history")
    # --- CTR objects: carries out of the low counter byte / low two bytes within and across calls
    for il, sizes in ((12, [255 * 16, 16, 17, 0, 1]), (12, [256 * 16 + 1, 15, 16]), (8, [16, 255 * 16 + 3, 48]),
                      (14, [255 * 16, 16 * 255, 5]), (0, [254 * 16, 32, 16])) + (((12, [65536 + 16, 16, 1]),) if thorough else ()):
        key, iv = rb(rng, 16), rb(rng, il)
        do(ctx, W, "aes-ctr", dict(key=key.hex(), iv=iv.hex(), msgs=[rb(rng, n).hex() for n in sizes]))
    for start, sizes in ((0x000000fe, [16, 16, 16, 5]), (0x0000fffd, [48, 16, 1]), (0x00fffffe, [33, 16]), (0x000000ff, [16, 32]),
                         (0x0000feff, [4096 + 16, 16])):
        key = rb(rng, 16)
        ctr = rb(rng, 12) + start.to_bytes(4, "big")
        do(ctx, W, "aes-ctr", dict(key=key.hex(), iv="00" * 16, counter=ctr.hex(), msgs=[rb(rng, n).hex() for n in sizes], inc_bits=32))
    # --- CBC / 3DES / RC4 objects: long then short calls on one object
    key, iv = rb(rng, 16), rb(rng, 16)
    do(ctx, W, "aes-cbc", dict(key=key.hex(), iv=iv.hex(), msgs=[rb(rng, n).hex() for n in (16, 4096, 0, 16, 32)]))
    do(ctx, W, "aes-cbc", dict(key=key.hex(), iv=iv.hex(), msgs=[rb(rng, n).hex() for n in (4080, 16, 16)], dir="dec"))
    do(ctx, W, "3des-cbc", dict(key=rb(rng, 24).hex(), iv=rb(rng, 8).hex(), msgs=[rb(rng, n).hex() for n in (8, 1024, 0, 8, 16)]))
    do(ctx, W, "rc4", dict(key=rb(rng, 16).hex(), msgs=[rb(rng, n).hex() for n in (1, 4097, 0, 255, 256, 17)]))
    W.flush()


# ======================================================================================
def run(ctx):
    ctx.rule = ("object histories first (never cut by a budget: this check has no time budget at all); per primitive: published vectors; seeded keys/nonces/AAD/messages over every listed length class "
                "(0, partial block, exact blocks, several blocks), counters incl. the 32-bit edge, guards; AEAD open on every "
                "single-bit modification of short sealed messages, nonce and AAD flips, truncations; distinct = distinct "
                "(stage, all arguments); non-trivial = accepted argument lengths")
    ctx.assumptions = ["hashlib / hmac (CPython, OpenSSL) compute MD5, SHA-1, SHA-2 and HMAC",
                       "the Python references in harness/props/c09.py are the standards' plain reading "
                       "(they reproduce the published vectors on every run)",
                       "ChaCha20 block counter stays below 2^32 (code neither wraps nor raises beyond; model follows the code there)"]
    import shutil
    ctx.extra["openssl_cli_for_3des"] = bool(shutil.which("openssl") or __import__("os").path.exists("/root/miniconda/bin/openssl"))
    ctx.extra["not_proved"] = ["AES: fully proved against FIPS-197 for block size 16 (model tied to rijndael.py by correspondence)",
                               "single DES (not modelled; 3DES-CBC against OpenSSL)"]
    W = Work(ctx)
    part_histories(ctx, W)                      # directed families first; nothing in this check is cut by a time budget
    for _rep in range(ctx.pick(1, 3)):          # thorough: three passes with fresh random keys / messages / splits
        part_chacha(ctx, W)
        part_modes(ctx, W)
        part_kdf(ctx, W)
        part_aead(ctx, W)
    W.flush()


def replay(ctx, rep):
    inp = rep["input"]
    name = inp.get("stage")
    if name in STAGES:
        impl, ref, _ = STAGES[name](inp)
        print("stage %s\n implementation: %s\n standard      : %s" % (name, impl, ref))
        return ref is not None and impl != ref
    print("replay of stage %r: re-running the whole check" % name)
    run(ctx)
    return bool(ctx.violations or ctx.disagreements)
